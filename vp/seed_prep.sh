#!/bin/bash
# usage: seed_prep.sh Cxx ...   -- scratch worktree + property text for a seeding sub-agent (nothing from /verif)
set -e
for id in "$@"; do
  d=/tmp/seed/$id
  [ -d "$d" ] || git -C /repo worktree add --detach "$d" HEAD >/dev/null 2>&1
  mkdir -p /tmp/seed/$id.out
  /venv/bin/python - "$id" <<'PY'
import json, sys
pid = sys.argv[1]
for l in open('/verif/properties.jsonl'):
    d = json.loads(l)
    if d['id'] == pid:
        open(f'/tmp/seed/{pid}.prop.txt', 'w').write(
            f"{d['id']}: {d['title']}\n\nStatement: {d['statement']}\n\nQuantified over: {d['quantifier']['text']}\n\n"
            f"Why tests cannot settle it: {d['why_tests_cant']}\n\nAnchored in: {', '.join(d['anchors']['files'])}\n")
PY
done
