#!/usr/bin/env python3
"""Merge the per-property finding files written by workers (known_findings.d/*.json, not committed: the
directory is scratch) into the single committed known-findings file /verif/known_findings.json."""
import json
from pathlib import Path
V = Path(__file__).resolve().parent.parent
main = V / "known_findings.json"
cur = json.loads(main.read_text())["findings"]
idx = {(f["property"], f["signature"]): i for i, f in enumerate(cur)}
n = 0
for f in sorted((V / "known_findings.d").glob("*.json")):
    for e in json.loads(f.read_text()).get("findings", []):
        k = (e["property"], e["signature"])
        if k in idx:
            if cur[idx[k]] != e:
                cur[idx[k]] = e; n += 1
        else:
            idx[k] = len(cur); cur.append(e); n += 1
cur.sort(key=lambda e: (e["property"], e.get("status") != "fixed", e["signature"]))
main.write_text(json.dumps({"findings": cur}, indent=1) + "\n")
print(f"merged: {n} new/updated, {len(cur)} total")
