"""C25 extension of the shared scheduler driver (vp/sched/driver.py).

Wraps, from outside and once per process, the live ``DataStoreMgr`` and the
server's publish queue so that every run of the driver additionally records

* the ``delta_task_*`` / ghost-node / ``update_data_structure`` calls in the
  order in which the scheduler made them, with the *pool-side* values that the
  scheduler passed in (read from the ``TaskProxy`` at call time);
* every article list put on ``server.publish_queue`` (what subscribers get),
  decoded the way a subscriber does (``SerializeToString`` -> ``FromString``);
* a **client replica**: a plain ``DATA_TEMPLATE`` dict fed only by the published
  ``all`` deltas through the real module-level ``apply_delta`` (exactly what
  cylc-uiserver's ``DataStoreMgr._apply_all_delta`` does: clear on
  ``reloaded``, apply, reconcile the checksum).

At every ``driver.snapshot`` the log since the previous snapshot, a view of
*all* task proxies in the scheduler's store and in the replica, and the
outcome of the full protobuf comparison replica == store are added to the
snapshot under the key ``"ds"``.

Nothing here touches /repo or the driver's own files: the driver's
``EXTRA_PATCHES`` / ``EXTRA_SNAPSHOT`` hook lists are used when they exist,
otherwise ``driver.patch`` / ``driver.snapshot`` are wrapped (module globals,
looked up at call time by ``run_scenario``).
"""
from __future__ import annotations

import json
from queue import Queue

STATUSES = ["waiting", "expired", "preparing", "submit-failed", "submitted", "running", "failed", "succeeded"]

LOG: list = []            # events since the last snapshot
CUR = {"replica": None, "wid": None, "checks": [], "in_publish": 0, "nput": 0}
_DONE = {"patched": False, "installed": False}


def log(kind, **kw):
    kw["k"] = kind
    LOG.append(kw)


# ---------------------------------------------------------------------------
# views
# ---------------------------------------------------------------------------
def rel(tp_id: str):
    """'~user/wf//3/a' -> [3, 'a'] (integer cycling only)."""
    cyc, name = tp_id.split("//", 1)[1].split("/")[:2]
    return [int(cyc), name]


def node_view(n):
    """Presence-aware view of the modelled fields of a PbTaskProxy (store node or delta element)."""
    return {
        "id": rel(n.id),
        "state": n.state if n.HasField("state") else None,
        "held": bool(n.is_held) if n.HasField("is_held") else None,
        "queued": bool(n.is_queued) if n.HasField("is_queued") else None,
        "runahead": bool(n.is_runahead) if n.HasField("is_runahead") else None,
        "flows": sorted(json.loads(n.flow_nums)) if n.HasField("flow_nums") else None,
        "outputs": sorted([k, bool(o.satisfied)] for k, o in n.outputs.items()),
        "prereqs": [[bool(p.satisfied), [bool(c.satisfied) for c in p.conditions]] for p in n.prerequisites],
        "edges": [e.split("$edge|", 1)[1] for e in n.edges],
    }


def itask_view(itask):
    """The pool-side values that _process_internal_task_proxy / delta_task_* read."""
    st = itask.state
    return {
        "state": st.status, "held": bool(st.is_held), "queued": bool(st.is_queued),
        "runahead": bool(st.is_runahead), "flows": sorted(itask.flow_nums),
        "outputs": sorted([lab, bool(sat)] for lab, _msg, sat in st.outputs),
        "prereqs": [[bool(p.is_satisfied()), [bool(v) for _k, v in sorted(p._satisfied.items())]]
                    for p in st.prerequisites if p._satisfied],
    }


def tps_view(data):
    return sorted((node_view(n) for n in data["task_proxies"].values()), key=lambda v: v["id"])


def delta_view(tpd):
    return {"added": [node_view(n) for n in tpd.added], "updated": [node_view(n) for n in tpd.updated],
            "pruned": [rel(i) for i in tpd.pruned], "reloaded": bool(tpd.reloaded)}


# ---------------------------------------------------------------------------
# the client replica
# ---------------------------------------------------------------------------
def _new_replica():
    from copy import deepcopy
    from cylc.flow.data_store_mgr import DATA_TEMPLATE
    return deepcopy(DATA_TEMPLATE)


def _client_receive(articles):
    """What a subscriber of the 'all' topic does with one published article list."""
    from cylc.flow.data_store_mgr import (ALL_DELTAS, DELTAS_MAP, WORKFLOW, EDGES, apply_delta,
                                          generate_checksum)
    rep = CUR["replica"]
    per_topic = {}
    all_msg = None
    for topic, msg, meth in articles:
        wire = getattr(msg, meth)()
        t = topic.decode()
        got = DELTAS_MAP[t]()
        got.ParseFromString(wire)
        if t == ALL_DELTAS:
            all_msg = got
        else:
            per_topic[t] = got
    if all_msg is None:
        CUR["checks"].append("published article list has no 'all' topic")
        return None
    for field, sub in all_msg.ListFields():
        if field.name not in per_topic or per_topic[field.name] != sub:
            CUR["checks"].append(f"topic '{field.name}' and the 'all' topic carry different deltas")
    for t in per_topic:
        if not all_msg.HasField(t):
            CUR["checks"].append(f"topic '{t}' published but missing from the 'all' topic")
    # (view taken before applying: apply_delta stores the delta's own `added` objects in the replica and
    # merges into them)
    dv = delta_view(all_msg.task_proxies) if all_msg.HasField("task_proxies") else None
    for field, sub in all_msg.ListFields():
        key = field.name
        if sub.reloaded:
            if key == WORKFLOW:
                rep[key].Clear()
            else:
                rep[key].clear()
        apply_delta(key, sub, rep)
        if not sub.reloaded and key != WORKFLOW and sub.HasField("checksum"):
            att = "id" if key == EDGES else "stamp"
            mine = generate_checksum([getattr(e, att) for e in rep[key].values()])
            if mine != sub.checksum:
                CUR["checks"].append(f"checksum of '{key}' after applying the published delta is {mine}, "
                                     f"the scheduler published {sub.checksum}")
    return dv


class RecordingQueue(Queue):
    def put(self, item, *a, **k):
        try:
            CUR["nput"] += 1
            dv = _client_receive(item)
            log("put", forced=not CUR["in_publish"], tp=dv,
                dup=bool(not CUR["in_publish"] and CUR.get("last_put") is item))
            CUR["last_put"] = item
        except Exception as exc:   # noqa
            CUR["checks"].append(f"client replica failed to apply a published delta: {type(exc).__name__}: {exc}")
        return super().put(item, *a, **k)


def _diff_fields(a, b):
    return [f.name for f in b.DESCRIPTOR.fields if getattr(a, f.name) != getattr(b, f.name)]


def _only_multiplicity(a, b, fields, live=None):
    """True when the replica element a and the store element b differ only in how often entries of repeated
    scalar fields occur (also inside singular sub-messages, e.g. PbWorkflow.edges.edges), or in entries that
    only the replica has and that refer to elements which no longer exist (a duplicated id survives the
    pruning of the element, because pruning removes one occurrence)."""
    for name in fields:
        fd = b.DESCRIPTOR.fields_by_name[name]
        if fd.message_type is not None:
            if fd.is_repeated:
                return False          # repeated messages / maps
            sa, sb = getattr(a, name), getattr(b, name)
            if not _only_multiplicity(sa, sb, _diff_fields(sa, sb), live):
                return False
        elif not fd.is_repeated:
            return False
        else:
            ra, rb = set(getattr(a, name)), set(getattr(b, name))
            if not rb <= ra:
                return False
            if any(live is None or x in live for x in ra - rb):
                return False
    return True


def _describe_multiplicity(key, rid, a, e, fields):
    f0 = fields[0]
    va, ve = getattr(a, f0), getattr(e, f0)
    if hasattr(va, "DESCRIPTOR"):
        return f"{key}{rid}.{f0} (sub-message): repeated entries occur with different multiplicity"
    return (f"{key}{rid}.{f0}: client replica has {len(va)} entries, scheduler store {len(ve)} "
            f"(same values, or duplicates that outlived a pruned element)")


def compare_replica(ds):
    """{"serious": text|None, "repeated": text|None, "repeated_wf": text|None}: differences replica vs scheduler
    store.  "repeated" (task proxies and other elements) / "repeated_wf" (the workflow element): differences that
    are only multiplicities of entries of repeated scalar fields (known defects, see known_findings.d/C25.json);
    everything else is serious."""
    out = {"serious": None, "repeated": None, "repeated_wf": None}
    data = ds.data[ds.workflow_id]
    rep = CUR["replica"]
    if rep is None:
        out["serious"] = "no replica (nothing was ever published)"
        return out
    live = set()
    for key, val in data.items():
        if key != "workflow":
            live.update(val)
    for key, val in data.items():
        if key == "workflow":
            if rep[key] != val:
                fields = _diff_fields(rep[key], val)
                if _only_multiplicity(rep[key], val, fields, live):
                    out["repeated_wf"] = _describe_multiplicity("workflow", "", rep[key], val, fields)
                else:
                    out["serious"] = f"workflow element differs in fields {fields}"
                    return out
            continue
        if set(rep[key]) != set(val):
            only_r = sorted(set(rep[key]) - set(val))[:3]
            only_s = sorted(set(val) - set(rep[key]))[:3]
            out["serious"] = f"{key}: ids only in the client replica {only_r}, only in the scheduler store {only_s}"
            return out
        for i, e in val.items():
            a = rep[key][i]
            if a != e:
                fields = _diff_fields(a, e)
                rid = "[" + i.split("//", 1)[1] + "]"
                if _only_multiplicity(a, e, fields, live):
                    if out["repeated"] is None:
                        out["repeated"] = _describe_multiplicity(key, rid, a, e, fields)
                else:
                    out["serious"] = f"{key}{rid} differs in fields {fields}"
                    return out
    return out


# ---------------------------------------------------------------------------
# patches
# ---------------------------------------------------------------------------
def patch_store():
    if _DONE["patched"]:
        return
    _DONE["patched"] = True
    from cylc.flow.data_store_mgr import DataStoreMgr, TASK_PROXIES
    from cylc.flow.network.server import WorkflowRuntimeServer
    from cylc.flow.scheduler import Scheduler
    import cylc.flow.commands as _commands

    _commands.sleep = lambda *_a: None      # the reload command's flush loop sleeps 1 s per round

    o_sinit = WorkflowRuntimeServer.__init__

    def n_sinit(self, *a, **k):
        o_sinit(self, *a, **k)
        self.publish_queue = RecordingQueue()
    WorkflowRuntimeServer.__init__ = n_sinit

    o_pub = Scheduler._publish_deltas

    def n_pub(self):
        CUR["in_publish"] += 1
        try:
            return o_pub(self)
        finally:
            CUR["in_publish"] -= 1
    Scheduler._publish_deltas = n_pub

    o_init = DataStoreMgr.initiate_data_model

    def n_init(self, reloaded=False):
        r = o_init(self, reloaded)
        if not reloaded:
            # a new scheduler session: a client would connect afresh and start from this snapshot
            CUR["replica"] = _new_replica()
            CUR["wid"] = self.workflow_id
        log("init", reloaded=bool(reloaded), ntp=len(self.data[self.workflow_id][TASK_PROXIES]))
        return r
    DataStoreMgr.initiate_data_model = n_init

    def in_store(self, tp_id):
        return tp_id in self.added[TASK_PROXIES] or tp_id in self.data[self.workflow_id][TASK_PROXIES]

    o_ghost = DataStoreMgr.generate_ghost_task

    def n_ghost(self, tokens, point, is_parent=False, itask=None, n_depth=0, replace_existing=False):
        tp_id = tokens.id
        before = in_store(self, tp_id)
        was_pool = itask is not None
        r = o_ghost(self, tokens, point, is_parent, itask, n_depth, replace_existing)
        if not before and tp_id in self.added[TASK_PROXIES]:
            node = self.added[TASK_PROXIES][tp_id]
            active = tp_id in self.n_window_nodes
            it = itask if was_pool else self.schd.pool.get_task(tokens["cycle"], tokens["task"])
            if active and it is None:
                # a throw-away data-mode proxy was processed: read what went in from the node
                pv = node_view(node)
                pv = {"state": pv["state"], "flows": pv["flows"] or [], "outputs": pv["outputs"],
                      "prereqs": pv["prereqs"], "held": False, "queued": False, "runahead": False}
            else:
                pv = itask_view(it) if active else None
            log("ghost", id=rel(tp_id), held=bool(node.is_held), pv=pv)
        return r
    DataStoreMgr.generate_ghost_task = n_ghost

    o_hist = DataStoreMgr.apply_task_proxy_db_history

    def n_hist(self):
        todo = {k: v[0] for k, v in self.db_load_task_proxies.items()}
        r = o_hist(self)
        for _ident, it in todo.items():
            tp_id = self.id_.duplicate(it.tokens).id
            if tp_id in self.added[TASK_PROXIES]:
                log("hist", id=rel(tp_id), pv=itask_view(it))
        return r
    DataStoreMgr.apply_task_proxy_db_history = n_hist

    o_state = DataStoreMgr.delta_task_state

    def n_state(self, itask):
        log("state", id=rel(itask.tokens.id), pv=itask_view(itask))
        return o_state(self, itask)
    DataStoreMgr.delta_task_state = n_state

    o_held = DataStoreMgr.delta_task_held

    def n_held(self, name, cycle, is_held):
        log("held", id=[int(str(cycle)), name], held=bool(is_held))
        return o_held(self, name, cycle, is_held)
    DataStoreMgr.delta_task_held = n_held

    o_flows = DataStoreMgr._delta_task_flow_nums

    def n_flows(self, tp_id, flow_nums):
        log("flows", id=rel(tp_id), flows=sorted(flow_nums))
        return o_flows(self, tp_id, flow_nums)
    DataStoreMgr._delta_task_flow_nums = n_flows

    o_outs = DataStoreMgr.delta_task_outputs

    def n_outs(self, itask):
        log("outputs", id=rel(itask.tokens.id), pv=itask_view(itask))
        return o_outs(self, itask)
    DataStoreMgr.delta_task_outputs = n_outs

    o_pre = DataStoreMgr.delta_task_prerequisite

    def n_pre(self, itask):
        log("prereqs", id=rel(itask.tokens.id), pv=itask_view(itask))
        return o_pre(self, itask)
    DataStoreMgr.delta_task_prerequisite = n_pre

    o_from = DataStoreMgr.delta_from_task_proxy

    def n_from(self, itask):
        log("from_proxy", id=rel(itask.tokens.id), pv=itask_view(itask))
        return o_from(self, itask)
    DataStoreMgr.delta_from_task_proxy = n_from

    o_edge = DataStoreMgr.generate_edge

    def n_edge(self, parent_tokens, child_tokens):
        e_id = self.edge_id(parent_tokens, child_tokens)
        before = e_id in self.n_window_edges
        r = o_edge(self, parent_tokens, child_tokens)
        if not before and e_id in self.n_window_edges:
            log("edge", c=rel(child_tokens.id), p=rel(parent_tokens.id), e=e_id.split("$edge|", 1)[1])
        return r
    DataStoreMgr.generate_edge = n_edge

    o_prune = DataStoreMgr.prune_data_store

    def n_prune(self):
        n0 = len(self.deltas[TASK_PROXIES].pruned)
        r = o_prune(self)
        new = list(self.deltas[TASK_PROXIES].pruned)[n0:]
        if new or self.pruned_task_proxies:
            log("prune", ids=[rel(i) for i in new], dedupe=sorted(rel(i) for i in self.pruned_task_proxies))
        return r
    DataStoreMgr.prune_data_store = n_prune

    o_upd = DataStoreMgr.update_data_structure

    def n_upd(self):
        before = self.publish_deltas
        r = o_upd(self)
        log("update", published=self.publish_deltas is not before)
        return r
    DataStoreMgr.update_data_structure = n_upd

    o_wf = DataStoreMgr.update_workflow_states

    def n_wf(self):
        r = o_wf(self)
        log("wfstates")
        return r
    DataStoreMgr.update_workflow_states = n_wf


def extra_snapshot(schd):
    """Merged into every driver snapshot under the key 'ds'."""
    out = {"log": list(LOG)}
    LOG.clear()
    try:
        ds = schd.data_store_mgr
        data = ds.data[ds.workflow_id]
        out["tps"] = tps_view(data)
        out["replica"] = tps_view(CUR["replica"]) if CUR["replica"] is not None else None
        out["publish_pending"] = bool(ds.publish_pending)
        out["updates_pending"] = bool(ds.updates_pending)
        out["diff"] = None if ds.publish_pending else compare_replica(ds)
        out["n_edge_distance"] = ds.n_edge_distance
        out["checks"] = list(CUR["checks"])
        CUR["checks"].clear()
        out["nput"] = CUR["nput"]
        pool_ids = {t.tokens.id for t in schd.pool.get_tasks()}
        out["pool_missing"] = sorted(rel(i) for i in pool_ids if i not in data["task_proxies"])
    except Exception as exc:   # noqa
        import traceback
        out["error"] = f"{type(exc).__name__}: {exc} :: {traceback.format_exc()[-600:]}"
    return out


def install(driver):
    """Hook the driver (idempotent)."""
    if _DONE["installed"]:
        return
    _DONE["installed"] = True
    o_qc = driver.queue_command

    async def queue_command(schd, name, kwargs):
        if name == "x_window":
            # the GraphQL mutation's resolver calls this directly (it is not a scheduler command)
            driver.ev("op_window", n=kwargs["n"])
            schd.data_store_mgr.set_graph_window_extent(kwargs["n"])
            return True
        return await o_qc(schd, name, kwargs)
    driver.queue_command = queue_command

    if hasattr(driver, "EXTRA_PATCHES") and hasattr(driver, "EXTRA_SNAPSHOT"):
        driver.EXTRA_PATCHES.append(patch_store)
        driver.EXTRA_SNAPSHOT.append(lambda schd: {"ds": extra_snapshot(schd)})
        return
    o_patch, o_snap = driver.patch, driver.snapshot

    def patch():
        o_patch()
        patch_store()

    def snapshot(schd):
        snap = o_snap(schd)
        snap["ds"] = extra_snapshot(schd)
        return snap
    driver.patch = patch
    driver.snapshot = snapshot


def reset_run():
    LOG.clear()
    CUR.update({"replica": None, "wid": None, "checks": [], "in_publish": 0, "nput": 0, "last_put": None})
