"""In-process driver: runs a generated scenario against the real cylc
Scheduler (no jobs are ever run: the process pool is replaced by a recorder
and this module plays 'the world': job submission results, job messages,
poll results), and records an event trace by wrapping methods of the live
classes from outside (no edits to /repo).

Must run in a process whose HOME / CYLC_CONF_PATH point at a scratch dir.
"""
from __future__ import annotations

import asyncio
import json
import os
import random
import shutil
import sqlite3
import sys
import time as _time
from pathlib import Path

from vp.sched import scen as S

EXTRA_PATCHES: list = []    # callables run once per process after patch() (extensions, e.g. store_ext)
EXTRA_SNAPSHOT: list = []   # callables f(schd) -> dict merged into every snapshot
REC: list = []           # the event trace of the current run
_OWNER: dict = {}        # id(TaskState|TaskOutputs) -> (itask, keepalive)
_PATCHED = False
_EXTRA_DONE = False
_CUR = {"msg": None}


class CrashNow(BaseException):
    """Simulated death of the scheduler process (raised from inside a database call)."""


CRASH = {"left": None, "crashed": False, "conns": []}


class CrashConn:
    """Proxy of a sqlite3 connection: counts statements; when armed, the k-th statement is never
    executed and every later database call fails too (the process is dead)."""

    def __init__(self, real):
        object.__setattr__(self, "_real", real)
        CRASH["conns"].append(real)

    def _gate(self):
        if CRASH["crashed"]:
            raise CrashNow()
        if CRASH["left"] is not None:
            if CRASH["left"] <= 0:
                CRASH["crashed"] = True
                raise CrashNow()
            CRASH["left"] -= 1

    def execute(self, *a, **k):
        self._gate()
        return self._real.execute(*a, **k)

    def executemany(self, *a, **k):
        self._gate()
        return self._real.executemany(*a, **k)

    def commit(self):
        self._gate()
        return self._real.commit()

    def __getattr__(self, name):
        return getattr(self._real, name)


def ev(kind, **kw):
    kw["e"] = kind
    REC.append(kw)


def tid(itask):
    return [int(str(itask.point)), itask.tdef.name]


def prereq_view(itask):
    """[[ [ [point, task, output], satisfied(bool) ] ... ] per prerequisite]"""
    out = []
    for pre in itask.state.prerequisites:
        out.append([[[int(str(k.point)), k.task, k.output], bool(v)] for k, v in pre.items()])
    return out


def forced_keys(itask):
    out = []
    for pre in itask.state.prerequisites:
        for k, v in pre.items():
            if v == "force satisfied":
                out.append([int(str(k.point)), k.task, k.output])
    return out


def task_view(itask):
    st = itask.state
    return {
        "fsat": forced_keys(itask),
        "id": tid(itask), "obj": id(itask), "status": st.status, "held": bool(st.is_held),
        "queued": bool(st.is_queued), "runahead": bool(st.is_runahead),
        "flows": sorted(itask.flow_nums), "submit_num": itask.submit_num,
        "outputs": sorted(st.outputs.get_completed_outputs()),
        "prereqs": prereq_view(itask),
        "sat": [bool(p.is_satisfied()) for p in st.prerequisites],
        "manual": bool(itask.is_manual_submit), "wojp": bool(itask.waiting_on_job_prep),
        "flow_wait": bool(itask.flow_wait), "transient": bool(itask.transient),
        "complete": bool(st.outputs.is_complete()), "comp": st.outputs._completion_expression,
    }


VCLOCK = {"off": 0.0}    # virtual clock offset (seconds) seen by retry timers and wall_clock xtriggers


def patch():
    """Wrap the live classes once per process."""
    global _PATCHED
    if _PATCHED:
        return
    _PATCHED = True
    import cylc.flow.task_action_timer as _tat
    import cylc.flow.xtriggers.wall_clock as _wc
    # the server thread gets 10 s to come up: far too tight when 16 cores are shared by dozens of runs
    import threading as _th
    import cylc.flow.scheduler as _sm
    _sm.Barrier = lambda parties, timeout=None: _th.Barrier(parties, timeout=180)
    _tat.time = lambda: _time.time() + VCLOCK["off"]
    _wc.time = lambda: _time.time() + VCLOCK["off"]
    from cylc.flow.task_pool import TaskPool
    from cylc.flow.task_proxy import TaskProxy
    from cylc.flow.task_state import TaskState
    from cylc.flow.task_outputs import TaskOutputs
    from cylc.flow.task_events_mgr import TaskEventsManager

    from cylc.flow.rundb import CylcWorkflowDAO
    o_connect = CylcWorkflowDAO.connect

    def n_connect(self):
        if self.conn is None:
            o_connect(self)
            self.conn = CrashConn(self.conn)
        return self.conn
    CylcWorkflowDAO.connect = n_connect

    o_init = TaskProxy.__init__

    def n_init(self, *a, **k):
        o_init(self, *a, **k)
        _OWNER[id(self.state)] = self
        _OWNER[id(self.state.outputs)] = self
    TaskProxy.__init__ = n_init

    o_copy = TaskProxy.copy_to_reload_successor

    def n_copy(self, reload_successor, *a, **k):
        r = o_copy(self, reload_successor, *a, **k)
        _OWNER[id(reload_successor.state)] = reload_successor
        _OWNER[id(reload_successor.state.outputs)] = reload_successor
        return r
    TaskProxy.copy_to_reload_successor = n_copy

    o_add = TaskPool.add_to_pool

    def n_add(self, itask):
        before = itask.identity in self.active_tasks.get(itask.point, {})
        n0 = len(REC)
        r = o_add(self, itask)
        # a runahead recomputation inside add_to_pool (future-trigger offsets) sees the pool WITH the new task:
        # report it after the add
        nested = [e for e in REC[n0:] if e["e"] == "limit"]
        REC[n0:] = [e for e in REC[n0:] if e["e"] != "limit"]
        after = self.active_tasks.get(itask.point, {}).get(itask.identity) is itask
        if after and not before:
            ev("add", t=task_view(itask))
        else:
            ev("add_noop", id=tid(itask))
        REC.extend(nested)
        return r
    TaskPool.add_to_pool = n_add

    o_rm = TaskPool.remove

    def n_rm(self, itask, reason=None):
        before = self.active_tasks.get(itask.point, {}).get(itask.identity) is itask
        view = task_view(itask) if before else None
        ev("remove_begin", id=tid(itask))
        n0 = len(REC)
        r = o_rm(self, itask, reason)
        # a runahead recomputation inside remove (future-trigger offsets) sees the pool WITHOUT the task
        nested = [e for e in REC[n0:] if e["e"] == "limit"]
        REC[n0:] = [e for e in REC[n0:] if e["e"] != "limit"]
        after = itask.identity in self.active_tasks.get(itask.point, {})
        if before and not after:
            ev("remove", t=view, reason=reason or "completed")
        else:
            ev("remove_noop", id=tid(itask), reason=reason or "completed")
        REC.extend(nested)
        return r
    TaskPool.remove = n_rm

    o_spawn = TaskPool.spawn_task

    def n_spawn(self, name, point, flow_nums, flow_wait=False):
        ev("spawn_begin", id=[int(str(point)), name])
        r = o_spawn(self, name, point, flow_nums, flow_wait)
        if r is not None:
            ev("spawn", t=task_view(r))
        else:
            ev("spawn_none", id=[int(str(point)), name], flows=sorted(flow_nums))
        return r
    TaskPool.spawn_task = n_spawn

    o_sat = TaskProxy.satisfy_me

    def n_sat(self, task_messages, mode=None, *a, **k):
        msgs = list(task_messages)
        before = prereq_view(self)
        r = o_sat(self, msgs, *a, **k) if mode is None else o_sat(self, msgs, mode, *a, **k)
        after = prereq_view(self)
        new = []
        for pb, pa in zip(before, after):
            for (kb, vb), (ka, va) in zip(pb, pa):
                if va and not vb:
                    new.append(ka)
        ev("sat", id=tid(self), obj=id(self),
           msgs=[[int(m["cycle"]), m["task"], m["task_sel"]] for m in msgs] if len(msgs) < 8 else "many",
           new=new)
        return r
    TaskProxy.satisfy_me = n_sat

    o_reset = TaskState.reset

    def n_reset(self, *a, **k):
        old = (self.status, self.is_held, self.is_queued, self.is_runahead)
        r = o_reset(self, *a, **k)
        if r:
            it = _OWNER.get(id(self))
            ev("state", id=tid(it) if it is not None else None, obj=id(it),
               old=list(old), new=[self.status, self.is_held, self.is_queued, self.is_runahead],
               forced=bool(k.get("forced") or (len(a) > 4 and a[4])),
               manual=bool(getattr(it, "is_manual_submit", False)),
               wojp=bool(getattr(it, "waiting_on_job_prep", False)))
        return r
    TaskState.reset = n_reset

    for meth in ("set_message_complete", "set_trigger_complete"):
        o = getattr(TaskOutputs, meth)

        def mk(o=o, meth=meth):
            def n(self, x, forced=False):
                before = dict(self._completed)
                r = o(self, x, forced)
                new = [self._message_to_trigger[m] for m, v in self._completed.items()
                       if v and not before.get(m)]
                if new:
                    it = _OWNER.get(id(self))
                    ev("output", id=tid(it) if it is not None else None, obj=id(it), out=new, forced=bool(forced))
                return r
            return n
        setattr(TaskOutputs, meth, mk())

    o_pm = TaskEventsManager.process_message

    def n_pm(self, itask, severity, message, event_time=None, flag="", submit_num=None, forced=False):
        ev("msg", id=tid(itask), message=str(message), flag=flag, submit_num=submit_num,
           cur_submit_num=itask.submit_num, forced=bool(forced), status=itask.state.status)
        r = o_pm(self, itask, severity, message, event_time, flag, submit_num, forced)
        ev("msg_end", id=tid(itask), ret=None if r is None else bool(r))
        return r
    TaskEventsManager.process_message = n_pm

    o_rel = TaskPool.release_queued_tasks

    def n_rel(self):
        counter, _pre = self.count_active_tasks()
        ev("release_begin")
        r = o_rel(self)
        ev("release", ids=sorted(tid(t) for t in r),
           active=sorted([k, v] for k, v in counter.items()))
        return r
    TaskPool.release_queued_tasks = n_rel

    o_ldb = TaskPool._load_db_task_proxy

    def n_ldb(self, point, taskdef, flow_nums, status="waiting", flow_wait=False, transient=False,
              is_manual_submit=False, submit_num=0):
        r = o_ldb(self, point, taskdef, flow_nums, status, flow_wait, transient, is_manual_submit, submit_num)
        if r is not None and transient:
            ev("transient", t=task_view(r))
        return r
    TaskPool._load_db_task_proxy = n_ldb

    o_fs = TaskProxy.force_satisfy

    def n_fs(self, prereqs, set_all=False):
        before = prereq_view(self)
        r = o_fs(self, prereqs, set_all)
        after = prereq_view(self)
        new = [ka for pb, pa in zip(before, after) for (kb, vb), (ka, va) in zip(pb, pa) if va and not vb]
        ev("force_sat", id=tid(self), obj=id(self), new=new)
        return r
    TaskProxy.force_satisfy = n_fs

    o_sap = TaskState.set_all_task_prerequisites_satisfied

    def n_sap(self):
        it = _OWNER.get(id(self))
        before = prereq_view(it) if it is not None else []
        r = o_sap(self)
        if it is not None:
            after = prereq_view(it)
            new = [ka for pb, pa in zip(before, after) for (kb, vb), (ka, va) in zip(pb, pa) if va and not vb]
            ev("force_sat", id=tid(it), obj=id(it), new=new)
        return r
    TaskState.set_all_task_prerequisites_satisfied = n_sap

    from cylc.flow import commands as _cmds
    o_rmt = _cmds._remove_matched_tasks

    def n_rmt(schd, ids, flow_nums, warn_unremovable=True):
        ev("cmd_remove", ids=sorted([int(i["cycle"]), i["task"]] for i in ids), flows=sorted(flow_nums))
        r = o_rmt(schd, ids, flow_nums, warn_unremovable)
        ev("cmd_remove_end")
        return r
    _cmds._remove_matched_tasks = n_rmt

    o_qot = TaskPool.queue_or_trigger

    def n_qot(self, itask):
        ev("manual", id=tid(itask), obj=id(itask))
        return o_qot(self, itask)
    TaskPool.queue_or_trigger = n_qot

    o_hold = TaskPool.hold_tasks

    def n_hold(self, items):
        matched, unmatched = self.id_match(items)
        ev("cmd_hold", ids=sorted([int(i["cycle"]), i["task"]] for i in matched), unmatched=len(unmatched))
        return o_hold(self, items)
    TaskPool.hold_tasks = n_hold

    o_relh = TaskPool.release_held_tasks

    def n_relh(self, items):
        from cylc.flow.id_match import id_match as _idm
        from cylc.flow.id import TaskTokens as _TT
        matched, unmatched = _idm(
            self.config, {_TT(cycle=str(c), task=t) for t, c in self.tasks_to_hold}, items, only_match_pool=True)
        ev("cmd_release", ids=sorted([int(i["cycle"]), i["task"]] for i in matched), unmatched=len(unmatched))
        return o_relh(self, items)
    TaskPool.release_held_tasks = n_relh

    o_shp = TaskPool.set_hold_point

    def n_shp(self, point):
        ev("cmd_hold_point", point=int(str(point)))
        return o_shp(self, point)
    TaskPool.set_hold_point = n_shp

    o_rhp = TaskPool.release_hold_point

    def n_rhp(self):
        ev("cmd_release_hold_point")
        return o_rhp(self)
    TaskPool.release_hold_point = n_rhp

    from cylc.flow.scheduler import Scheduler as _S
    o_ss = _S._set_stop

    def n_ss(self, stop_mode=None):
        ev("cmd_stop", mode=None if stop_mode is None else stop_mode.name)
        return o_ss(self, stop_mode)
    _S._set_stop = n_ss

    o_cas = _S.check_auto_shutdown

    def n_cas(self):
        r = o_cas(self)
        if r:
            ev("auto_shutdown_ok", snap_ids=sorted(tid(t) for t in self.pool.get_tasks()))
        return r
    _S.check_auto_shutdown = n_cas

    o_ssp = TaskPool.set_stop_point

    def n_ssp(self, stop_point):
        r = o_ssp(self, stop_point)
        if r:
            lp = self.runahead_limit_point
            ev("cmd_stop_point", point=int(str(stop_point)), limit=None if lp is None else int(str(lp)))
        return r
    TaskPool.set_stop_point = n_ssp

    o_sst = TaskPool.set_stop_task

    def n_sst(self, task_id):
        r = o_sst(self, task_id)
        ev("cmd_stop_task", task=self.stop_task_id)
        return r
    TaskPool.set_stop_task = n_sst

    o_std = TaskPool.stop_task_done

    def n_std(self):
        before = self.stop_task_id
        r = o_std(self)
        if r:
            ev("stop_task_done", task=before)
        return r
    TaskPool.stop_task_done = n_std

    o_mf = TaskPool.merge_flows

    def n_mf(self, itask, flow_nums):
        before = sorted(itask.flow_nums)
        r = o_mf(self, itask, flow_nums)
        after = sorted(itask.flow_nums)
        if after != before:
            ev("merge", id=tid(itask), flows=after)
        return r
    TaskPool.merge_flows = n_mf

    from cylc.flow.workflow_db_mgr import WorkflowDatabaseManager
    o_abs = WorkflowDatabaseManager.put_insert_abs_output

    def n_abs(self, cycle, name, output):
        ev("abs", key=[int(cycle), name, output])
        return o_abs(self, cycle, name, output)
    WorkflowDatabaseManager.put_insert_abs_output = n_abs

    o_cr = TaskPool.compute_runahead

    def n_cr(self, force=False):
        r = o_cr(self, force)
        lp = self.runahead_limit_point
        ev("limit", limit=None if lp is None else int(str(lp)), force=bool(force), changed=bool(r),
           base=None if not self.active_tasks else int(str(min(self.active_tasks))),
           mfo=None if self.max_future_offset is None else int(str(self.max_future_offset)[1:])
           if str(self.max_future_offset).startswith("P") else str(self.max_future_offset),
           stop=None if self.stop_point is None else int(str(self.stop_point)))
        return r
    TaskPool.compute_runahead = n_cr


class World:
    """Plays jobs: decides submission results and the messages each job sends."""

    def __init__(self, scn, rng):
        self.scn = scn
        self.rng = rng
        self.pending = []     # commands waiting for proc_pool.process(): (due_tick, ctx, cb, cba, cb255)
        self.msgs = []        # (due_tick, job_tokens, message)
        self.inflight = []    # messages handed to the scheduler's queue in the current iteration
        self.seq = 0          # creation order of messages (a job's messages are never reordered by a re-send)
        self.processed = set()   # (instance, submit number, message) handed over in an iteration that ran to its end
        self.first_tick = {}  # (instance, submit number, message) -> iteration in which it was first handed over
        self.sent = {}        # id(TaskMsg) bookkeeping for messages handed to a scheduler: seq by (job, message)
        self.jobs = {}        # (point, name, submit_num) -> dict(outcome)
        self.tick = 0
        self.plan = {tuple(k[:2]) if False else (k[0], k[1]): v for k, v in
                     ((tuple(x["id"]), x) for x in scn.get("plan", []))}

    def job_plan(self, point, name, sn):
        key = (point, name)
        p = self.plan.get(key)
        scn = self.scn
        if p is None:
            # the outcome of a job depends only on (seed, instance, submit number), so that an
            # interrupted and an uninterrupted run of one scenario see the same jobs
            jr = random.Random(f"{scn.get('seed', 0)}:{point}/{name}/{sn}")
            r = jr.random()
            p = {"submit": "ok", "result": "failed" if r < scn.get("fail_rate", 0) else "succeeded",
                 "customs": [c for c in scn["customs"].get(name, [])
                             if jr.random() < scn.get("custom_rate", 1.0)]}
            if jr.random() < scn.get("submit_fail_rate", 0.0):
                p["submit"] = "fail"
        return p


def install_world(schd, world, scn, rng):
    """Replace the process pool's put_command/process by the recording 'world'."""
    def put_command(ctx, bad_hosts=None, callback=None, callback_args=None,
                    callback_255=None, callback_255_args=None):
        world.pending.append((world.tick, ctx, callback, callback_args or [], callback_255))
        key = ctx.cmd_key if isinstance(ctx.cmd_key, str) else str(ctx.cmd_key[0])
        if key == "jobs-submit":
            its = callback_args[0]
            ev("submit", jobs=sorted([*tid(t), t.submit_num] for t in its),
               status=sorted([*tid(t), t.state.status] for t in its))
        elif key in ("jobs-poll", "jobs-kill"):
            its = callback_args[0]
            ev("cmd", key=key, jobs=sorted([*tid(t), t.submit_num] for t in its))
        else:
            ev("cmd", key=key)

    schd.proc_pool.put_command = put_command
    o_process = schd.proc_pool.process

    def process():
        ev("procpool")
        todo, world.pending = world.pending, []
        for due, ctx, cb, cba, cb255 in todo:
            key = ctx.cmd_key if isinstance(ctx.cmd_key, str) else str(ctx.cmd_key[0])
            if key == "jobs-submit" and world.tick < due + scn.get("submit_delay", 0):
                # the job-submission command is still running: its tasks stay 'preparing' meanwhile
                world.pending.append((due, ctx, cb, cba, cb255))
                continue
            if key == "jobs-submit":
                out = ""
                for it in cba[0]:
                    p, n, sn = int(str(it.point)), it.tdef.name, it.submit_num
                    plan = world.job_plan(p, n, sn)
                    ok = plan["submit"] == "ok"
                    out += (f"[TASK JOB SUMMARY]2020-01-01T00:00:00Z|{it.job_tokens.relative_id}"
                            f"|{0 if ok else 1}|{1000 + len(world.jobs)}\n")
                    world.jobs[(p, n, sn)] = plan
                    ev("submit_result", id=[p, n], submit_num=sn, ok=ok)
                    if ok:
                        seq = ["started"] + [f"msg-{c}" for c in plan["customs"]] + [plan["result"]]
                        t = world.tick + int(plan.get("delay", scn.get("slow", {}).get(n, 0)))
                        dis = scn.get("disorder", 0.0)
                        sched = []
                        for m in seq:
                            t += rng.choice([0, 0, 1, 1, 2])
                            sched.append([t, m])
                        n_own = len(sched)
                        if dis and rng.random() < dis:
                            k = rng.randrange(len(sched))
                            sched.append([sched[k][0] + rng.choice([0, 1, 3]), sched[k][1]])   # duplicate
                        if dis and rng.random() < dis and n_own >= 3:
                            # out of order -- but a job sends its messages one after the other and its final message
                            # last: nothing the job said earlier arrives after its succeeded/failed message
                            i = rng.randrange(n_own - 2)
                            sched[i][0], sched[i + 1][0] = sched[i + 1][0], sched[i][0]
                        for due_t, m in sched:
                            world.seq += 1
                            world.msgs.append((due_t + 1, it.job_tokens, m, [p, n], sn, world.seq))
                ctx.out = out
                ctx.ret_code = 0
                cb(ctx, *cba)
            elif key == "jobs-poll":
                out = ""
                for it in cba[0]:
                    p, n, sn = int(str(it.point)), it.tdef.name, it.submit_num
                    plan = world.jobs.get((p, n, sn))
                    ctxd = {"job_runner_name": "background", "job_id": "1", "job_runner_exit_polled": 1}
                    if plan is None or plan["submit"] != "ok":
                        ctxd.update({"run_status": None})
                    else:
                        # World assumption: a poll never overtakes a message that is already in the
                        # scheduler's queue -- it reports the job as it was before the messages handed
                        # over during this main-loop iteration (those count as still to come).
                        left = [m for m in world.msgs if m[3] == [p, n] and m[4] == sn]
                        left += [m for m in world.inflight if m[3] == [p, n] and m[4] == sn]
                        # (a duplicate of a message already handed over in an earlier iteration says nothing
                        # about the job's state: the job got past that point long ago)
                        left = [m for m in left
                                if world.first_tick.get(((p, n), sn, m[2])) is None
                                or world.first_tick[((p, n), sn, m[2])] >= world.tick]
                        names = {m[2] for m in left}
                        if "started" in names:
                            ctxd.update({"time_submit_exit": "2020-01-01T00:00:00Z", "job_runner_exit_polled": 0})
                        elif plan["result"] in names:
                            ctxd.update({"time_submit_exit": "2020-01-01T00:00:00Z",
                                         "time_run": "2020-01-01T00:00:01Z", "job_runner_exit_polled": 0})
                        else:
                            ctxd.update({"time_submit_exit": "2020-01-01T00:00:00Z",
                                         "time_run": "2020-01-01T00:00:01Z",
                                         "time_run_exit": "2020-01-01T00:00:02Z",
                                         "run_status": 0 if plan["result"] == "succeeded" else 1,
                                         "run_signal": None if plan["result"] == "succeeded" else "ERR"})
                    ev("poll_result", id=[p, n], submit_num=sn, ctx=dict(ctxd))
                    out += (f"[TASK JOB SUMMARY]2020-01-01T00:00:00Z|{it.job_tokens.relative_id}|"
                            + json.dumps(ctxd) + "\n")
                ctx.out = out
                ctx.ret_code = 0
                cb(ctx, *cba)
            else:
                ctx.out = ""
                ctx.ret_code = 0
                if cb:
                    try:
                        cb(ctx, *cba)
                    except Exception as exc:      # event handler callbacks etc.
                        ev("cb_error", key=key, exc=f"{type(exc).__name__}: {exc}")
        return o_process()

    schd.proc_pool.process = process


def _bcast_table(schd):
    """the broadcasts in force as sorted rows [point, namespace, "[section]key", value] (the database's form)"""
    bm = schd.task_events_mgr.broadcast_mgr
    rows = []

    def walk(point, ns, d, prefix):
        for k, v in d.items():
            if isinstance(v, dict):
                walk(point, ns, v, prefix + f"[{k}]")
            else:
                rows.append([point, ns, prefix + k, str(v)])
    with bm.lock:
        for point, nsd in bm.broadcasts.items():
            for ns, st in nsd.items():
                walk(point, ns, st, "")
    return sorted(rows)


def snapshot(schd):
    pool = schd.pool
    real = [t for m in pool.active_tasks.values() for t in m.values()]
    snap = {
        "tasks": sorted((task_view(t) for t in real), key=lambda v: v["id"]),
        "cached_ok": sorted(map(id, pool.get_tasks())) == sorted(map(id, real)),
        "empty_buckets": sum(1 for m in pool.active_tasks.values() if not m),
        "dup_ids": len(real) - len({t.identity for t in real}),
        "limit": None if pool.runahead_limit_point is None else int(str(pool.runahead_limit_point)),
        "stop_point": None if pool.stop_point is None else int(str(pool.stop_point)),
        "hold_point": None if pool.hold_point is None else int(str(pool.hold_point)),
        "to_hold": sorted([int(str(p)), n] for n, p in pool.tasks_to_hold),
        "paused": bool(schd.is_paused), "stalled": bool(schd.is_stalled),
        "stop_mode": None if schd.stop_mode is None else schd.stop_mode.name,
        "stop_task": pool.stop_task_id,
        "abs_done": sorted([int(c), t, o] for c, t, o in pool.abs_outputs_done),
        "flow_counter": schd.flow_mgr.counter,
        "bcast": _bcast_table(schd),
    }
    try:
        con = sqlite3.connect(f"file:{schd.workflow_db_mgr.pri_path}?mode=ro", uri=True, timeout=1)
        snap["db_pool"] = sorted(
            [int(c), n, json.loads(f), s, bool(h)] for c, n, f, s, h in
            con.execute("SELECT cycle, name, flow_nums, status, is_held FROM task_pool"))
        snap["db_states"] = sorted([int(c), n, json.loads(f), st] for c, n, f, st in
                                   con.execute("SELECT cycle, name, flow_nums, status FROM task_states"))
        snap["bcast_db"] = sorted([p_, n_, k_, v_] for p_, n_, k_, v_ in
                                  con.execute("SELECT point, namespace, key, value FROM broadcast_states"))
        con.close()
    except Exception as exc:
        snap["db_pool"] = f"ERR {type(exc).__name__}: {exc}"
    try:
        ds = schd.data_store_mgr
        tps = ds.data[ds.workflow_id]["task_proxies"]
        store = []
        for t in real:
            tp = tps.get(t.tokens.id)
            if tp is None:
                store.append([*tid(t), None])
            else:
                store.append([*tid(t), tp.state, bool(tp.is_held), bool(tp.is_queued), bool(tp.is_runahead),
                              sorted(json.loads(tp.flow_nums)) if tp.flow_nums else [],
                              sorted(o.label for o in tp.outputs.values() if o.satisfied),
                              [bool(p.satisfied) for p in tp.prerequisites]])
        snap["store"] = sorted(store, key=lambda v: v[:2])
    except Exception as exc:
        snap["store"] = f"ERR {type(exc).__name__}: {exc}"
    for f in EXTRA_SNAPSHOT:
        try:
            snap.update(f(schd))
        except Exception as exc:   # noqa
            snap[f"ERR_{getattr(f, '__name__', 'extra')}"] = f"{type(exc).__name__}: {exc}"
    return snap


async def queue_command(schd, name, kwargs):
    """Queue a command the way the network layer does (validate, then queue)."""
    from cylc.flow.commands import COMMANDS
    from uuid import uuid4
    cmd = COMMANDS[name](schd=schd, **kwargs)
    try:
        await cmd.__anext__()
    except Exception as exc:
        ev("op_rejected", cmd=name, exc=f"{type(exc).__name__}: {exc}")
        return False
    schd.command_queue.put((str(uuid4()), name, cmd))
    return True


class Session:
    """One scheduler process lifetime: boot, stepped main loop, shutdown."""

    def __init__(self, wid, scn, world, rng, restart):
        self.wid, self.scn, self.world, self.rng, self.restart = wid, scn, world, rng, restart
        self.schd = None
        self.go = asyncio.Event()
        self.done = asyncio.Event()
        self.task = None
        self.stop_reason = None

    async def boot(self):
        from cylc.flow.scheduler import Scheduler
        from cylc.flow.scheduler_cli import RunOptions
        opts = {"paused_start": False, "run_mode": "live"}
        opts.update(self.scn.get("options", {}))
        schd = Scheduler(self.wid, RunOptions(**opts))
        self.schd = schd
        await schd.install()
        ev("boot", restart=self.restart)
        await schd.start()
        ev("loaded", restart=self.restart)
        schd.main_loop_plugins = {}     # no health-check / auto-restart plugins
        install_world(schd, self.world, self.scn, self.rng)
        orig = schd._main_loop
        sess = self

        async def stepped():
            sess.done.set()
            await sess.go.wait()
            sess.go.clear()
            await orig()
        schd._main_loop = stepped
        o_shutdown = schd.shutdown

        async def shutdown(reason):
            sess.stop_reason = str(reason.args[0]) if getattr(reason, "args", None) else type(reason).__name__
            ev("shutdown", reason=sess.stop_reason, snap=snapshot(schd))
            return await o_shutdown(reason)
        schd.shutdown = shutdown
        self.task = asyncio.ensure_future(schd.run_scheduler())
        await self.wait_step()      # runs the start-up part of run_scheduler up to the first _main_loop
        return schd

    async def wait_step(self):
        """wait until the scheduler is parked at the start of a main-loop iteration, or has exited"""
        w = asyncio.ensure_future(self.done.wait())
        await asyncio.wait({w, self.task}, return_when=asyncio.FIRST_COMPLETED)
        if not w.done():
            w.cancel()
        self.done.clear()
        return not self.task.done()

    async def tick(self):
        self.go.set()
        return await self.wait_step()

    async def abandon(self):
        """The scheduler process is dead: no shutdown code runs, open transactions are lost."""
        if self.task is not None and not self.task.done():
            self.task.cancel()
        if self.task is not None:
            try:
                await asyncio.wait_for(asyncio.shield(self.task), timeout=10)
            except BaseException:    # noqa  (CrashNow / CancelledError)
                pass
        schd = self.schd
        for real in CRASH["conns"]:
            try:
                real.close()          # no commit: the open transaction is rolled back
            except Exception:   # noqa
                pass
        for dao in (getattr(schd.workflow_db_mgr, "pri_dao", None), getattr(schd.workflow_db_mgr, "pub_dao", None)):
            if dao is not None:
                dao.conn = None
        try:
            if schd.server is not None:
                CRASH["crashed"] = False
                await asyncio.wait_for(schd.server.stop("crash"), timeout=10)
        except BaseException:    # noqa
            pass
        from cylc.flow.workflow_files import get_contact_file_path
        try:
            os.unlink(get_contact_file_path(self.wid))
        except OSError:
            pass

    async def finish(self):
        """Force a shutdown if still running."""
        if self.task is not None and not self.task.done():
            self.task.cancel()
            try:
                await asyncio.wait_for(self.task, timeout=10)
            except BaseException:    # noqa
                pass
        elif self.task is not None:
            try:
                self.task.result()
            except BaseException:    # noqa
                pass


async def run_scenario(scn: dict, home: Path) -> dict:
    """Run one scenario; returns {"trace": [...], "meta": {...}}."""
    patch()
    global _EXTRA_DONE
    if not _EXTRA_DONE:
        _EXTRA_DONE = True
        for f in EXTRA_PATCHES:
            f()
    from cylc.flow.scheduler import Scheduler
    from cylc.flow.network.resolvers import TaskMsg

    REC.clear()
    _OWNER.clear()
    wid = f"w{os.getpid()}_{scn.get('seed', 0)}_{int(_time.time() * 1000) % 100000}"
    rd = home / "cylc-run" / wid
    rd.mkdir(parents=True)
    (rd / "flow.cylc").write_text(S.render_flow(scn))
    rng = random.Random(scn.get("seed", 0))
    world = World(scn, rng)
    meta = {"wid": wid, "error": None, "stop": None, "ticks": 0, "restarts": 0}
    Scheduler.INTERVAL_MAIN_LOOP = 0.0
    Scheduler.INTERVAL_MAIN_LOOP_QUICK = 0.0
    Scheduler.INTERVAL_STOP_PROCESS_POOL_EMPTY = 0.0
    sess = None
    try:
        sess = Session(wid, scn, world, rng, restart=False)
        schd = await sess.boot()
        ev("started", snap=snapshot(schd),
           seq_points={t: [int(str(p)) for s_ in td.sequences
                           for p in _iter_seq(s_, schd.config.initial_point, schd.config.final_point)]
                       for t, td in schd.config.taskdefs.items()})
        max_ticks = scn.get("max_ticks", 60)
        ops = {}
        for o in scn.get("ops", []):
            ops.setdefault(o["tick"], []).append(o)
        idle = 0
        pending_restart = None
        pending_crash = None
        CRASH.update({"left": None, "crashed": False, "conns": []})
        VCLOCK["off"] = 0.0
        for tick in range(max_ticks):
            world.tick = tick
            meta["ticks"] = tick + 1
            VCLOCK["off"] += float(scn.get("clock_step", 0))
            ev("tick", n=tick)
            for o in ops.get(tick, []):
                ev("op", op=o)
                if o["cmd"] == "crash":
                    # die after o["stmts"] more database statements of this iteration (0: at its start);
                    # if the iteration issues fewer, die at its end
                    CRASH["left"] = int(o.get("stmts", 0))
                    pending_crash = o
                elif o["cmd"] == "broadcast" and (pending_restart is not None or pending_crash is not None):
                    ev("op_skipped", op=o)       # the scheduler is on its way down: no client is served
                elif o["cmd"] == "broadcast":
                    # as the network layer does: straight to the broadcast manager, between main-loop iterations
                    bm = schd.task_events_mgr.broadcast_mgr
                    if o["mode"] == "put":
                        bm.put_broadcast(list(o["points"]), list(o["namespaces"]), json.loads(json.dumps(o["settings"])))
                    else:
                        bm.clear_broadcast(point_strings=list(o["points"]), namespaces=list(o["namespaces"]),
                                           cancel_settings=json.loads(json.dumps(o["settings"])))
                elif o["cmd"] == "restart":
                    # stop (clean / now), keep ticking until the scheduler exits, then boot again
                    from cylc.flow.workflow_status import StopMode
                    mode = {"clean": StopMode.REQUEST_CLEAN, "now": StopMode.REQUEST_NOW,
                            "now-now": StopMode.REQUEST_NOW_NOW}[o.get("mode", "now")]
                    await queue_command(schd, "stop", {"mode": mode})
                    pending_restart = o
                else:
                    args = dict(o.get("args", {}))
                    if o["cmd"] == "stop":
                        from cylc.flow.workflow_status import StopMode
                        args["mode"] = None if args.get("mode") is None else StopMode[args["mode"]]
                    await queue_command(schd, o["cmd"], args)
            due = sorted((m for m in world.msgs if m[0] <= tick), key=lambda m: m[5])
            world.msgs = [m for m in world.msgs if m[0] > tick]
            world.inflight = due
            for _, jt, m, i, sn, seq in due:
                ev("deliver", id=i, submit_num=sn, message=m)
                world.sent[(tuple(i), sn, m)] = seq
                world.first_tick.setdefault((tuple(i), sn, m), tick)
                schd.message_queue.put(TaskMsg(jt, "2020-01-01T00:00:00Z", "INFO", m))
            n0 = len(REC)
            alive = await sess.tick()
            if pending_crash is None and schd.message_queue.empty():
                world.processed.update((tuple(i), sn, m) for _, jt, m, i, sn, seq in due)
            if pending_crash is not None:
                # the process dies: nothing it had not committed survives
                CRASH["crashed"] = True
                ev("crash", stmts_left=CRASH["left"], alive=alive)
                pending_crash = None
                await sess.abandon()
                try:
                    while True:
                        m = schd.message_queue.get_nowait()
                        jt = m.job_id
                        i_ = [int(jt["cycle"]), jt["task"]]
                        world.msgs.append((tick + 1, jt, m.message, i_, int(jt["job"]),
                                           world.sent.get((tuple(i_), int(jt["job"]), m.message), 0)))
                        if (tuple(i_), int(jt["job"]), m.message) not in world.processed:
                            # never processed (a duplicate of a message processed in an earlier iteration stays a duplicate)
                            world.first_tick.pop((tuple(i_), int(jt["job"]), m.message), None)
                        ev("undelivered", id=i_, message=m.message)
                except Exception:   # queue.Empty
                    pass
                # commands the dead process never ran are lost with it
                world.pending = []
                CRASH.update({"left": None, "crashed": False, "conns": []})
                meta["restarts"] += 1
                sess = Session(wid, scn, world, rng, restart=True)
                schd = await sess.boot()
                ev("restarted", snap=snapshot(schd), crash=True)
                idle = 0
                continue
            if not alive:
                await sess.finish()
                meta["stop"] = sess.stop_reason
                # messages the dead scheduler never processed: the jobs keep retrying them
                try:
                    while True:
                        m = schd.message_queue.get_nowait()
                        jt = m.job_id
                        i_ = [int(jt["cycle"]), jt["task"]]
                        world.msgs.append((tick + 1, jt, m.message, i_, int(jt["job"]),
                                           world.sent.get((tuple(i_), int(jt["job"]), m.message), 0)))
                        if (tuple(i_), int(jt["job"]), m.message) not in world.processed:
                            # never processed (a duplicate of a message processed in an earlier iteration stays a duplicate)
                            world.first_tick.pop((tuple(i_), int(jt["job"]), m.message), None)
                        ev("undelivered", id=[int(jt["cycle"]), jt["task"]], message=m.message)
                except Exception:   # queue.Empty
                    pass
                if pending_restart is not None:
                    pending_restart = None
                    meta["restarts"] += 1
                    sess = Session(wid, scn, world, rng, restart=True)
                    schd = await sess.boot()
                    ev("restarted", snap=snapshot(schd))
                    meta["stop"] = None
                    idle = 0
                    continue
                break
            ev("tick_end", n=tick, snap=snapshot(schd))
            busy = any(e["e"] not in ("procpool", "limit", "release", "release_begin") for e in REC[n0:-1])
            idle = 0 if (busy or world.msgs or world.pending or ops.keys() and max(ops) >= tick) else idle + 1
            if idle >= 3:
                meta["stop"] = "quiescent"
                break
        else:
            meta["stop"] = "max_ticks"
    except Exception as exc:   # noqa
        import traceback
        meta["error"] = f"{type(exc).__name__}: {exc}"
        meta["tb"] = traceback.format_exc()[-1500:]
    finally:
        if sess is not None:
            try:
                await sess.finish()
            except BaseException:   # noqa
                pass
        shutil.rmtree(rd, ignore_errors=True)
    return {"trace": list(REC), "meta": meta}


def _iter_seq(seq, icp, fcp):
    p = seq.get_first_point(icp)
    n = 0
    while p is not None and p <= fcp and n < 200:
        yield p
        p = seq.get_next_point(p)
        n += 1


def summary(trace):
    """which instances were submitted, and each instance's final outputs"""
    sub = set()
    outs = {}
    for e in trace:
        if e["e"] == "submit":
            for p, n, sn in e["jobs"]:
                sub.add((p, n))
        elif e["e"] in ("tick_end", "restarted", "shutdown") and "snap" in e:
            for t in e["snap"]["tasks"]:
                outs[tuple(t["id"])] = sorted(t["outputs"])
        elif e["e"] == "remove":
            outs[tuple(e["t"]["id"])] = sorted(e["t"]["outputs"])
    return {"submitted": sorted(sub), "outputs": sorted([list(k), v] for k, v in outs.items())}


def run_many(scenarios: list, home: Path) -> list:
    async def go():
        out = []
        for s in scenarios:
            r = await run_scenario(s, home)
            for _ in range(4):
                # environmental: the scheduler's server thread missed its 10 s start-up barrier (machine overloaded)
                if r["meta"].get("error") and "BrokenBarrierError" in r["meta"]["error"]:
                    r = await run_scenario(s, home)
            if s.get("baseline"):
                # the same scenario without its restart ops: the uninterrupted run
                s2 = dict(s)
                s2["ops"] = [o for o in s.get("ops", []) if o["cmd"] not in ("restart", "crash")]
                r2 = await run_scenario(s2, home)
                r["baseline"] = {"summary": summary(r2["trace"]), "stop": r2["meta"]["stop"],
                                 "error": r2["meta"]["error"]}
                r["summary"] = summary(r["trace"])
            out.append(r)
        return out
    return asyncio.run(go())
