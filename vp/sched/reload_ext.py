"""C27 extension of the shared scheduler driver (vp/sched/driver.py).

* a new op kind ``x_reload`` (handled by wrapping ``driver.queue_command``): the op carries the text of a new
  ``flow.cylc`` (or, when the property module registered ``RENDER["fn"]``, that function produces it from the op's
  arguments, the current pool and the recorded outputs: targeted definition changes; the definition used is recorded
  as event ``reload_def``); it is written over the run directory's ``flow.cylc`` and the REAL ``reload_workflow`` command is
  validated and put on the scheduler's command queue, exactly as the network layer does;
* a new op kind ``x_remove_partial``: the real ``remove_tasks`` command on a pooled waiting task with partly satisfied
  prerequisites (chosen when the command is issued), so that a later respawn has prerequisites whose outputs are
  recorded in the DB but not satisfied in the live task;
* ``TaskPool.reload`` is wrapped: immediately before the call the pool (in ``get_tasks()`` order), the old and
  new task name lists, the prerequisite keys each pooled instance gets from the new definition and the
  ``task_outputs`` rows (through the very ``select_task_outputs`` call that ``check_task_output`` makes, in the
  order it yields them) are recorded as event ``reload_before``; immediately after it returns the pool is
  recorded again as ``reload_after``;
* every ``check_task_output`` call made during the reload is recorded with its result (``reload_check``);
* the next 60 ``queue_if_ready`` calls after a reload are recorded with the task before/after and the value of
  ``is_ready_to_run()`` (``reload_qir``);
* the end of the reload command is recorded as ``reload_cmd_end`` (pool view), so the effect of
  ``compute_runahead`` / ``release_runahead_tasks`` after ``pool.reload`` can be told apart from the reload.

Nothing here touches /repo or the driver's own files.
"""
from __future__ import annotations

import json
from pathlib import Path

_DONE = {"patched": False, "installed": False}
CUR = {"in_reload": False, "n_reload": 0, "watch": 0}
RENDER = {"fn": None}     # callable(info, op args) -> (flow.cylc text, new definition as the property module describes it)


def _key(k):
    return [int(str(k[0])), str(k[1]), str(k[2])]


def new_prereq_keys(config, itask):
    """Prerequisite keys a fresh proxy of this instance gets from the new definition (per prerequisite)."""
    from cylc.flow.task_state import TaskState
    st = TaskState(config.get_taskdef(itask.tdef.name), itask.point, itask.state.status, False)
    return [[_key(k) for k in pre] for pre in st.prerequisites]


def db_rows(pool, pairs):
    """[[cycle, name, [[flows, messages] ...]] ...] for the given (cycle, name) pairs, rows in the order in which
    select_task_outputs yields them to check_task_output (dict order)."""
    out = []
    for cyc, name in sorted(pairs):
        rows = []
        for outputs, flows in pool.workflow_db_mgr.pri_dao.select_task_outputs(name, str(cyc)).items():
            o = json.loads(outputs)
            msgs = list(o.values()) if isinstance(o, dict) else list(o)
            rows.append([sorted(flows), sorted(msgs)])
        if rows:
            out.append([cyc, name, rows])
    return out


def all_outputs(pool):
    """[[cycle, name, flows, messages] ...]: the whole task_outputs table"""
    out = []
    for cyc, name, flows, outputs in pool.workflow_db_mgr.pri_dao.connect().execute(
            "SELECT cycle, name, flow_nums, outputs FROM task_outputs"):
        o = json.loads(outputs)
        out.append([int(cyc), name, sorted(json.loads(flows)), sorted(o.values() if isinstance(o, dict) else o)])
    return out


def patch_reload():
    if _DONE["patched"]:
        return
    _DONE["patched"] = True
    from vp.sched import driver
    from cylc.flow.task_pool import TaskPool
    import cylc.flow.commands as _commands

    _commands.sleep = lambda *_a: None      # the reload command's flush loop sleeps 1 s per round

    o_reload = TaskPool.reload

    def n_reload(self, config):
        tasks = list(self.get_tasks())
        new_names = list(config.get_task_name_list())
        newpre, errs = [], []
        pairs = set()
        for it in tasks:
            if it.tdef.name in new_names:
                try:
                    ks = new_prereq_keys(config, it)
                except Exception as exc:   # noqa
                    errs.append(f"{driver.tid(it)}: {type(exc).__name__}: {exc}")
                    ks = []
                newpre.append([driver.tid(it), ks])
                for pre in ks:
                    for k in pre:
                        pairs.add((k[0], k[1]))
        for it in tasks:
            pairs.add((int(str(it.point)), it.tdef.name))
        # every (cycle, name) in the table as well (cheap; lets the oracle see the whole history)
        try:
            for cyc, name in self.workflow_db_mgr.pri_dao.connect().execute(
                    "SELECT DISTINCT cycle, name FROM task_outputs"):
                pairs.add((int(cyc), name))
        except Exception as exc:   # noqa
            errs.append(f"db: {type(exc).__name__}: {exc}")
        CUR["n_reload"] += 1
        driver.ev("reload_before", tasks=[driver.task_view(t) for t in tasks],
                  old_names=list(self.task_name_list), new_names=new_names, newpre=newpre,
                  db=db_rows(self, pairs), errs=errs,
                  qmembers=sorted(t.identity for q in getattr(self.task_queue_mgr, "queues", {}).values()
                                  for t in getattr(q, "deque", [])))
        CUR["in_reload"] = True
        try:
            r = o_reload(self, config)
        finally:
            CUR["in_reload"] = False
        driver.ev("reload_after", tasks=[driver.task_view(t) for t in self.get_tasks()],
                  children=[[driver.tid(t), sorted(t.graph_children)] for t in self.get_tasks()])
        CUR["watch"] = 60       # record the next queue_if_ready calls (rest of this main-loop iteration)
        return r
    TaskPool.reload = n_reload

    o_qir = TaskPool.queue_if_ready

    def n_qir(self, itask):
        if CUR["watch"] <= 0:
            return o_qir(self, itask)
        CUR["watch"] -= 1
        before = driver.task_view(itask)
        ready = bool(itask.is_ready_to_run())
        r = o_qir(self, itask)
        driver.ev("reload_qir", before=before, ready=ready, after=driver.task_view(itask))
        return r
    TaskPool.queue_if_ready = n_qir

    o_check = TaskPool.check_task_output

    def n_check(self, cycle, task, output_msg, flow_nums):
        r = o_check(self, cycle, task, output_msg, flow_nums)
        if CUR["in_reload"]:
            driver.ev("reload_check", key=[int(str(cycle)), task, output_msg], flows=sorted(flow_nums), res=bool(r))
        return r
    TaskPool.check_task_output = n_check

    o_cmd = _commands.COMMANDS["reload_workflow"]

    def n_cmd(schd, *a, **k):
        gen = o_cmd(schd, *a, **k)

        async def wrapped():
            await gen.__anext__()          # validation part
            yield
            n0 = CUR["n_reload"]
            try:
                async for x in gen:
                    yield x
            except Exception as exc:   # noqa
                import traceback
                driver.ev("reload_cmd_error", exc=f"{type(exc).__name__}: {exc}", tb=traceback.format_exc()[-1200:])
                raise
            finally:
                driver.ev("reload_cmd_end", reloaded=CUR["n_reload"] > n0,
                          tasks=[driver.task_view(t) for t in schd.pool.get_tasks()])
        return wrapped()
    _commands.COMMANDS["reload_workflow"] = n_cmd


def install(driver):
    """Hook the driver (idempotent)."""
    if _DONE["installed"]:
        return
    _DONE["installed"] = True
    o_qc = driver.queue_command

    async def queue_command(schd, name, kwargs):
        if name == "x_reload":
            if RENDER["fn"] is not None:
                # the property module decides the new definition, possibly looking at the pool / recorded outputs
                info = {"tasks": [driver.task_view(t) for t in schd.pool.get_tasks()], "done": all_outputs(schd.pool)}
                flow, newdef = RENDER["fn"](info, kwargs)
            else:
                flow, newdef = kwargs["flow"], kwargs.get("scn2")
            driver.ev("reload_def", rkind=kwargs.get("kind"), scn2=newdef)
            Path(schd.workflow_run_dir, "flow.cylc").write_text(flow)
            return await o_qc(schd, "reload_workflow", {})
        if name == "x_remove_partial":
            # the real `cylc remove` on a pooled waiting task whose prerequisites are partly satisfied: when another
            # parent completes later the task is respawned with the earlier (recorded) outputs NOT satisfied, i.e. the
            # live prerequisite state and the task_outputs table legitimately disagree
            cands = []
            for t in schd.pool.get_tasks():
                vals = [bool(v) for pre in t.state.prerequisites for _k, v in pre.items()]
                if t.state.status == "waiting" and any(vals) and not all(vals):
                    cands.append(t)
            if not cands:
                driver.ev("op_remove_partial", id=None)
                return True
            t = sorted(cands, key=lambda x: x.identity)[int(kwargs.get("pick", 0)) % len(cands)]
            driver.ev("op_remove_partial", id=driver.tid(t))
            return await o_qc(schd, "remove_tasks", {"tasks": [t.identity], "flow": ["all"]})
        return await o_qc(schd, name, kwargs)
    driver.queue_command = queue_command
    driver.EXTRA_PATCHES.append(patch_reload)


def reset_run():
    CUR.update({"in_reload": False, "n_reload": 0, "watch": 0})
