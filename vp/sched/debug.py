#!/venv/bin/python
"""Debug helper: run one scenario (JSON file) on the implementation and print the Coq events around an index."""
import json, sys, os
sys.path.insert(0, "/verif")
os.environ.setdefault("PYTHONHASHSEED", "0")
from vp.sched import driver, tocoq

def main():
    scn = json.load(open(sys.argv[1]))
    idx = int(sys.argv[2]) if len(sys.argv) > 2 else None
    import tempfile, pathlib, shutil
    home = pathlib.Path(tempfile.mkdtemp(dir="/var/tmp")); os.environ["HOME"] = str(home)
    driver.patch()
    run = driver.run_many([scn], home)[0]
    shutil.rmtree(home, ignore_errors=True)
    nm = tocoq.Names(scn) if hasattr(tocoq, "Names") else None
    evs = tocoq.events(scn, run["trace"], nm)
    lo, hi = (0, len(evs)) if idx is None else (max(0, idx - 12), idx + 3)
    for i in range(lo, min(hi, len(evs))):
        print(i, evs[i])
    if "--raw" in sys.argv:
        for e in run["trace"]:
            if e["e"] in ("tick", "op", "manual", "state", "submit", "cmd_remove", "remove", "deliver"):
                print({k: v for k, v in e.items() if k != "snap"})

main()
