"""Property oracles over a recorded scheduler trace (the (S) side: stated
directly on what the implementation did, independent of the Gallina model).

Each oracle takes (scn, run) with run = {"trace": [...], "meta": {...}} and
returns a failure text or None.
"""
from __future__ import annotations

from vp.sched import scen as S

FINAL = {"expired", "submit-failed", "failed", "succeeded"}
ACTIVE = {"preparing", "submitted", "running"}
ORDER = ["waiting", "expired", "preparing", "submit-failed", "submitted", "running", "failed", "succeeded"]


def _tracked(trace):
    """yield events, dropping state/output/sat events of TaskProxy objects that
    never were pool candidates (data-store ghost nodes)."""
    tracked = set()
    loading = False
    for e in trace:
        if e["e"] == "boot":
            loading = bool(e.get("restart"))
        elif e["e"] == "loaded":
            loading = False
        if e["e"] == "spawn" or (loading and e["e"] == "add"):
            tracked.add(e["t"]["obj"])
        if e["e"] in ("state", "output", "sat") and e.get("obj") not in tracked:
            continue
        yield e


def _comp_ok(scn, t, outs) -> bool:
    """reference completion rule (documented, C11)"""
    opt = S.optmap(scn)
    req = [o for (tt, o), v in opt.items() if tt == t and not v]
    base = all(o in outs for o in req) if req else None
    succ_opt = opt.get((t, "succeeded")) is True or opt.get((t, "failed")) is True
    if succ_opt:
        if req:
            val = (base and "succeeded" in outs) or "failed" in outs
        else:
            val = "succeeded" in outs or "failed" in outs
    else:
        val = bool(base) if req else True
    if opt.get((t, "submit-failed")) is True or opt.get((t, "submitted")) is True:
        val = val or "submit-failed" in outs
    if opt.get((t, "expired")) is True:
        val = val or "expired" in outs
    return bool(val)


def _norm_out(o):
    return o[4:] if o.startswith("msg-") else o


def c01(scn, run):
    """submission only with prerequisites true over outputs completed upstream;
    only graph instances; closure equality + auto shutdown when all complete."""
    g = S.instance_graph(scn)["inst"]
    done = set()              # (point, task, output)
    submitted = []
    manual = set()
    for e in _tracked(run["trace"]):
        k = e["e"]
        if k == "output":
            for o in e["out"]:
                done.add((e["id"][0], e["id"][1], _norm_out(o)))
        elif k == "state" and e.get("manual"):
            manual.add(tuple(e["id"]))
        elif k == "submit":
            for p, n, sn in e["jobs"]:
                if (p, n) in manual:
                    continue
                inst = g.get((p, n))
                if inst is None:
                    return f"submitted {p}/{n} which is not an instance of the graph (off-sequence or out of bounds)"
                for ex in inst["prereqs"]:
                    if not S.eval_c(ex, lambda a: (a["id"][0], a["id"][1], a["out"]) in done):
                        return (f"submitted {p}/{n} although its prerequisite {ex} is not satisfied by "
                                f"completed upstream outputs {sorted(done)}")
                submitted.append((p, n))
    if scn.get("ops"):
        return None
    # closure: parentless instances (no live prerequisite expressions after dropping pre-initial atoms
    # ... cylc: all parents pre-initial) + children of completed outputs whose expressions became true
    if run["meta"].get("stop") == "AUTOMATIC":
        clos = set()
        for (p, n), inst in g.items():
            if p < scn.get("startcp", scn["icp"]):
                continue
            exprs = inst["prereqs"]
            if all(S.eval_c(ex, lambda a: (a["id"][0], a["id"][1], a["out"]) in done) for ex in exprs):
                # reachable only if parentless or some parent output completed
                live = [a for ex in exprs for a in S.atoms_c(ex) if not a["pre"] and tuple(a["id"]) in g]
                if not live or any((a["id"][0], a["id"][1], a["out"]) in done for a in live):
                    clos.add((p, n))
        sub = set(submitted)
        if sub - clos:
            return f"submitted instances outside the spawn-on-demand closure: {sorted(sub - clos)}"
        # completeness only claimed when every finished task was complete
        last = [e for e in run["trace"] if e["e"] in ("tick_end", "shutdown")][-1]["snap"]["tasks"]
        if not last and clos - sub:
            def abs_plus_preinitial(m):
                # every prerequisite atom is pre-initial or an absolute trigger, with at least one of each, and the
                # instance is not the first dependent of the absolute trigger
                ats = [a for ex in g[m]["prereqs"] for a in S.atoms_c(ex)]
                return (ats and all(a["pre"] or a["abs"] for a in ats) and any(a["pre"] for a in ats)
                        and any(a["abs"] and not a["pre"] for a in ats))

            def only_via(m, lost, seen=()):
                ups = {tuple(a["id"]) for ex in g[m]["prereqs"] for a in S.atoms_c(ex) if not a["pre"] and tuple(a["id"]) in g}
                return m in lost or (ups and any(u in (clos - sub) and u not in seen and only_via(u, lost, seen + (m,)) for u in ups))
            lost = {m for m in clos - sub if abs_plus_preinitial(m)}
            if lost and all(only_via(m, lost) for m in clos - sub):
                return (f"{[list(m) for m in sorted(lost)]} never spawned: besides an absolute trigger (satisfied) all their parents are "
                        f"pre-initial, so they are neither parentless (a non-absolute trigger exists) nor spawned by a parent (the "
                        f"absolute parent spawns only its first dependent); they and their descendants "
                        f"{[list(m) for m in sorted((clos - sub) - lost)]} do not run and the workflow shuts down as complete")
            return f"shut down automatically without running closure instances {sorted(clos - sub)}"
    return None


def c02(scn, run):
    counts = {}
    exec_fail, sub_fail = {}, {}
    retries = scn.get("retries", {})
    for e in _tracked(run["trace"]):
        if e["e"] == "submit":
            for p, n, sn in e["jobs"]:
                counts.setdefault((p, n), []).append(sn)
        elif e["e"] == "submit_result" and not e["ok"]:
            sub_fail[tuple(e["id"])] = sub_fail.get(tuple(e["id"]), 0) + 1
        elif e["e"] == "msg" and e["message"] == "failed" and e["flag"] != "(internal)":
            k = (tuple(e["id"]), e["cur_submit_num"])
            exec_fail.setdefault(tuple(e["id"]), set()).add(e["cur_submit_num"])
        elif e["e"] == "output" and "failed" in e["out"] and not e.get("forced"):
            n_exec = retries.get(e["id"][1], [0, 0])[0]
            got = len(exec_fail.get(tuple(e["id"]), ()))
            if got < n_exec + 1:
                return (f"{e['id']} completed its failed output after {got} failed executions although "
                        f"{n_exec} execution retries are configured")
        elif e["e"] == "output" and "submit-failed" in e["out"] and not e.get("forced"):
            n_sub = retries.get(e["id"][1], [0, 0])[1]
            if sub_fail.get(tuple(e["id"]), 0) < n_sub + 1:
                return (f"{e['id']} completed submit-failed after {sub_fail.get(tuple(e['id']), 0)} failed submissions "
                        f"although {n_sub} submission retries are configured")
    tries = scn.get("tries", {})
    manual = {tuple(e["id"]) for e in run["trace"] if e["e"] == "state" and e.get("manual")}
    for (p, n), sns in counts.items():
        if (p, n) in manual:
            continue
        if len(sns) > tries.get(n, 1):
            return f"{p}/{n} submitted {len(sns)} times (submit numbers {sns}); bound {tries.get(n, 1)}"
        if len(set(sns)) != len(sns):
            return f"{p}/{n} submitted twice under the same submit number {sns}"
    return None


def c03(scn, run):
    tr = run["trace"]
    for i, e in enumerate(tr):
        if e["e"] == "shutdown" and e["reason"] == "AUTOMATIC":
            for t in e["snap"]["tasks"]:
                if t["status"] in ACTIVE:
                    return f"automatic shutdown with active task {t['id']} ({t['status']})"
                if t["status"] == "waiting" and not t["runahead"]:
                    return f"automatic shutdown with released waiting task {t['id']}"
                sp = e["snap"]["stop_point"]
                if sp is None or t["id"][0] <= sp:
                    if t["status"] in FINAL:
                        return f"automatic shutdown with finished-but-incomplete task {t['id']}"
                    if t["status"] == "waiting" and any(v for pre in t["prereqs"] for k, v in pre if k[0] >= scn["icp"]):
                        return f"automatic shutdown with partially satisfied task {t['id']}"
    # progress: a ready task must not stay unqueued over 3 consecutive tick ends
    idle = {}
    for e in tr:
        if e["e"] != "tick_end" or e["snap"]["paused"] or e["snap"]["stop_mode"]:
            continue
        cur = {}
        for t in e["snap"]["tasks"]:
            rdy = (t["status"] == "waiting" and not t["held"] and not t["runahead"] and all(t["sat"])
                   and not t["queued"] and not t["wojp"])
            if rdy:
                cur[tuple(t["id"])] = idle.get(tuple(t["id"]), 0) + 1
                if cur[tuple(t["id"])] >= 3:
                    return f"ready task {t['id']} left unqueued for 3 main-loop iterations"
        idle = cur
    # stall only when nothing can progress
    for e in tr:
        if e["e"] == "tick_end" and e["snap"]["stalled"]:
            for t in e["snap"]["tasks"]:
                if t["status"] in ACTIVE or (t["status"] == "waiting" and not t["runahead"] and all(t["sat"])
                                             and not t["held"]):
                    return f"stall reported while {t['id']} ({t['status']}) can still progress"
    return None


def _spec_limit(scn, pool_points, stop_point, pool_names=()):
    pts = sorted({p for sec in scn["sections"] for p in S.rec_points(sec["rec"], scn["icp"], scn["fcp"])})
    if not pool_points:
        return None
    base = min(pool_points)
    cand = [p for p in pts if p >= base]
    n = scn["runahead"]
    lim = base if not cand else (cand[n] if len(cand) > n else cand[-1])
    lim += max([S.future_offset(scn, t) for t in pool_names] or [0])      # future-trigger adjustment
    if stop_point is not None:
        lim = min(lim, stop_point)
    return lim


def c04(scn, run):
    """release from the runahead pool only within the spec limit of the pool"""
    pool = {}
    stop = scn["fcp"]
    limit = None
    for e in _tracked(run["trace"]):
        k = e["e"]
        if k == "add":
            pool[tuple(e["t"]["id"])] = e["t"]["obj"]
        elif k == "remove":
            pool.pop(tuple(e["t"]["id"]), None)
        elif k in ("tick_end", "started"):
            stop = e["snap"]["stop_point"]
        elif k == "limit":
            if pool:
                spec = _spec_limit(scn, [p for p, _ in pool], e["stop"], [n for _, n in pool])
                if e["limit"] != spec:
                    if e["limit"] == e["stop"] and limit == e["stop"] and not e["changed"]:
                        return (f"runahead limit kept at the stop point {e['limit']} although the earliest pool point moved back "
                                f"(specification gives {spec} for pool points {sorted({p for p, _ in pool})}, "
                                f"P{scn['runahead']}): the limit is not recomputed once it equals the stop point")
                    return (f"runahead limit {e['limit']} but the specification gives {spec} for pool points "
                            f"{sorted({p for p, _ in pool})}, P{scn['runahead']}, stop {e['stop']}")
            limit = e["limit"]
        elif k == "state":
            if e["old"][3] and not e["new"][3] and tuple(e["id"]) in pool and pool[tuple(e["id"])] == e["obj"]:
                if not e.get("manual") and (limit is None or e["id"][0] > limit):
                    return f"{e['id']} released from the runahead pool beyond the limit {limit}"
    return None


def c07(scn, run):
    g = S.instance_graph(scn)["inst"]
    stop = None
    for e in _tracked(run["trace"]):
        if e["e"] == "add":
            p, n = e["t"]["id"]
            if p < scn["icp"]:
                return f"{p}/{n} added to the pool before the initial cycle point"
            if p > scn["fcp"]:
                return f"{p}/{n} added to the pool after the final cycle point"
            if (p, n) not in g:
                return f"{p}/{n} added to the pool but is not on any of its sequences"
        elif e["e"] in ("tick_end", "started"):
            stop = e["snap"]["stop_point"]
        elif e["e"] == "submit" and stop is not None:
            manual = {tuple(x["id"]) for x in run["trace"] if x["e"] == "state" and x.get("manual")}
            for p, n, sn in e["jobs"]:
                if p > stop and (p, n) not in manual:
                    return f"{p}/{n} submitted beyond the stop point {stop}"
    return None


def c09(scn, run):
    allowed = {
        ("waiting", "preparing"), ("waiting", "expired"),
        ("preparing", "submitted"), ("preparing", "submit-failed"), ("preparing", "running"),
        ("preparing", "succeeded"), ("preparing", "failed"),
        ("submitted", "running"), ("submitted", "succeeded"), ("submitted", "failed"), ("submitted", "submit-failed"),
        ("running", "succeeded"), ("running", "failed"),
    }
    retry = {("preparing", "waiting"), ("submitted", "waiting"), ("running", "waiting")}
    tries = scn.get("tries", {})
    outs = {}
    pooled = set()
    for e in _tracked(run["trace"]):
        k = e["e"]
        if k == "add":
            pooled.add(e["t"]["obj"])
        if k == "state" and e["old"][0] != e["new"][0] and not e["forced"] and e["obj"] in pooled:
            tr = (e["old"][0], e["new"][0])
            if tr in retry and tries.get(e["id"][1], 1) > 1:
                continue
            if tr not in allowed and not scn.get("ops"):
                return f"{e['id']} status changed {tr[0]} -> {tr[1]} (not along the lifecycle)"
        elif k in ("tick_end",):
            for t in e["snap"]["tasks"]:
                key = t["obj"]
                cur = set(t["outputs"])
                if key in outs and not outs[key] <= cur:
                    return f"{t['id']} outputs un-completed: {sorted(outs[key] - cur)}"
                outs[key] = cur
                if ({"succeeded", "failed"} & cur) and not {"submitted", "started"} <= cur:
                    return f"{t['id']} has {sorted(cur)}: succeeded/failed complete without submitted and started"
    return None


def c11(scn, run):
    kept = {}
    for e in run["trace"]:
        # finished and complete but still pooled at two consecutive iteration ends (whatever commands were issued)
        if e["e"] == "tick_end":
            cur = {}
            for t in e["snap"]["tasks"]:
                outs = {_norm_out(o) for o in t["outputs"]}
                if t["status"] in FINAL and _comp_ok(scn, t["id"][1], outs):
                    cur[(tuple(t["id"]), t["obj"])] = kept.get((tuple(t["id"]), t["obj"]), 0) + 1
                    if cur[(tuple(t["id"]), t["obj"])] >= 2:
                        return (f"{t['id']} is finished and complete (outputs {sorted(outs)}) but still in the pool "
                                f"after two main-loop iterations")
            kept = cur
    for e in _tracked(run["trace"]):
        if e["e"] == "remove" and e["reason"] == "completed":
            t = e["t"]
            outs = {_norm_out(o) for o in t["outputs"]}
            if t["status"] not in FINAL:
                return f"{t['id']} removed as completed in status {t['status']}"
            if not _comp_ok(scn, t["id"][1], outs):
                return f"{t['id']} removed as complete with outputs {sorted(outs)} although the completion rule is false"
        elif e["e"] == "tick_end":
            for t in e["snap"]["tasks"]:
                outs = {_norm_out(o) for o in t["outputs"]}
                if t["status"] in FINAL and _comp_ok(scn, t["id"][1], outs) and not scn.get("ops"):
                    return f"{t['id']} is finished and complete (outputs {sorted(outs)}) but retained in the pool"
                if bool(t["complete"]) != _comp_ok(scn, t["id"][1], outs):
                    return (f"{t['id']}: is_complete()={t['complete']} but the documented rule gives "
                            f"{_comp_ok(scn, t['id'][1], outs)} for outputs {sorted(outs)}")
    return None


def c26(scn, run):
    for e in run["trace"]:
        if e["e"] in ("tick_end", "started"):
            s = e["snap"]
            if s["dup_ids"]:
                return "two proxies for the same point/name in the pool"
            if s["empty_buckets"]:
                return "empty cycle bucket in the pool"
            if not s["cached_ok"]:
                return "cached task list differs from the pool contents"
            if e["e"] == "tick_end":
                if isinstance(s["db_pool"], str):
                    return "cannot read task_pool table: " + s["db_pool"]
                want = sorted([t["id"][0], t["id"][1], t["flows"], t["status"], t["held"]] for t in s["tasks"])
                if want != s["db_pool"]:
                    return f"task_pool table {s['db_pool']} differs from the pool {want}"
    return None


def c25(scn, run):
    for e in run["trace"]:
        if e["e"] == "tick_end":
            s = e["snap"]
            if isinstance(s["store"], str):
                return "cannot read data store: " + s["store"]
            for t, row in zip(s["tasks"], s["store"]):
                if row[2] is None:
                    return f"{t['id']} is in the pool but not in the data store"
                want = [t["id"][0], t["id"][1], t["status"], t["held"], t["queued"], t["runahead"], t["flows"],
                        sorted(t["outputs"]), t["sat"]]
                got = row[:9]
                if want != got:
                    return f"data store {got} differs from the pool {want}"
    return None


def c06(scn, run):
    """a held task never enters preparation unless manually triggered; future holds apply on spawn;
    hold set is consistent with the pool"""
    to_hold = set()
    hold_pt = None
    for e in _tracked(run["trace"]):
        k = e["e"]
        if k == "state":
            if e["new"][0] == "preparing" and e["old"][0] != "preparing" and e["old"][1] and not e.get("manual"):
                return f"held task {e['id']} entered job preparation"
            if e["new"][2] and not e["old"][2] and e["new"][1]:
                return f"held task {e['id']} was queued"
        elif k == "submit":
            pass
        elif k in ("tick_end", "restarted"):
            sn = e["snap"]
            held_ids = {tuple(t["id"]) for t in sn["tasks"] if t["held"]}
            th = {tuple(x) for x in sn["to_hold"]}
            if not held_ids <= th:
                return f"held tasks {sorted(held_ids - th)} missing from the set of held instances"
            pooled = {tuple(t["id"]) for t in sn["tasks"]}
            if (th & pooled) - held_ids:
                return f"instances {sorted((th & pooled) - held_ids)} are in the hold set and in the pool but not held"
    # commands: after a hold command, a matched future instance must be held when spawned
    want = set()
    for e in run["trace"]:
        if e["e"] == "cmd_hold":
            want |= {tuple(i) for i in e["ids"]}
        elif e["e"] == "cmd_release":
            want -= {tuple(i) for i in e["ids"]}
        elif e["e"] == "cmd_release_hold_point":
            want.clear()
        elif e["e"] == "remove_begin":
            want.discard(tuple(e["id"]))
        elif e["e"] == "add" and tuple(e["t"]["id"]) in want and not e["t"]["held"]:
            return f"{e['t']['id']} was held before it spawned but entered the pool not held"
    return None


def c19(scn, run):
    """stop + restart restores the pool and the workflow parameters; the continued run does what
    the uninterrupted run does"""
    tr = run["trace"]
    last = None
    for i, e in enumerate(tr):
        if e["e"] in ("tick_end", "started", "restarted"):
            if e["e"] == "restarted" and last is not None:
                before, after = last["snap"], e["snap"]
                # events between the last tick end and the shutdown may have changed the pool:
                # take the snapshot recorded at shutdown instead
                sd = [x for x in tr[:i] if x["e"] == "shutdown"]
                if sd:
                    before = sd[-1]["snap"]
                bt = {tuple(t["id"]): t for t in before["tasks"]}
                at = {tuple(t["id"]): t for t in after["tasks"]}
                if set(bt) != set(at):
                    return f"pool after restart {sorted(at)} differs from pool before {sorted(bt)}"
                for k, b in bt.items():
                    a = at[k]
                    want_status = "waiting" if b["status"] == "preparing" else b["status"]
                    want_sn = b["submit_num"] - 1 if b["status"] == "preparing" else b["submit_num"]
                    if a["status"] != want_status:
                        return f"{list(k)} status {b['status']} came back as {a['status']}"
                    if a["submit_num"] != want_sn:
                        return f"{list(k)} submit number {b['submit_num']} ({b['status']}) came back as {a['submit_num']}"
                    if (not b["held"]) and a["held"] and before["hold_point"] is not None and k[0] > before["hold_point"] \
                            and list(k) not in before["to_hold"]:
                        return (f"{list(k)} had been released individually although it lies beyond the hold point "
                                f"{before['hold_point']}; the restart re-applied the hold point to the reloaded pool and holds it again")
                    for fld in ("flows", "held", "outputs", "sat"):
                        if a[fld] != b[fld]:
                            return f"{list(k)} {fld} {b[fld]} came back as {a[fld]} after restart"
                for fld in ("hold_point", "to_hold", "stop_task", "flow_counter", "abs_done", "bcast"):
                    if before.get(fld) != after.get(fld):
                        return f"{fld} {before[fld]} came back as {after[fld]} after restart"
                if before["stop_point"] != after["stop_point"] and not (
                        sd and sd[-1]["reason"] == "AUTOMATIC"):
                    return f"stop point {before['stop_point']} came back as {after['stop_point']}"
            if e["e"] == "tick_end" and isinstance(e["snap"].get("bcast_db"), list) \
                    and e["snap"]["bcast_db"] != e["snap"]["bcast"]:
                return (f"broadcasts in force {e['snap']['bcast']} but the database holds {e['snap']['bcast_db']} "
                        f"at the end of a main-loop iteration (a restart would lose / resurrect settings)")
            last = e
    other_ops = [o for o in scn.get("ops", []) if o["cmd"] != "restart"]
    if run.get("baseline") and not run["baseline"].get("error") and not run["meta"].get("error") and not other_ops:
        b, a = run["baseline"]["summary"], run["summary"]
        if run["baseline"]["stop"] == run["meta"]["stop"] or run["meta"]["stop"] in ("AUTOMATIC", "quiescent"):
            if b["submitted"] != a["submitted"]:
                return (f"with restarts the run submitted {a['submitted']} but the uninterrupted run "
                        f"submitted {b['submitted']}")
            if b["outputs"] != a["outputs"]:
                bd, ad = {tuple(k): v for k, v in b["outputs"]}, {tuple(k): v for k, v in a["outputs"]}
                diff = {k: (bd.get(k), ad.get(k)) for k in set(bd) | set(ad) if bd.get(k) != ad.get(k)}
                return f"final outputs differ from the uninterrupted run (uninterrupted, restarted): {diff}"
    return None


def c43(scn, run):
    tr = run["trace"]
    stop_point = None
    manual = {tuple(x["id"]) for x in tr if x["e"] == "state" and x.get("manual")}
    for e in tr:
        if e["e"] in ("tick_end", "started", "restarted"):
            stop_point = e["snap"]["stop_point"]
        elif e["e"] == "cmd_stop_point":
            stop_point = e["point"]
        elif e["e"] == "submit" and stop_point is not None:
            for p, n, sn in e["jobs"]:
                if p > stop_point and (p, n) not in manual:
                    return f"{p}/{n} submitted beyond the stop point {stop_point}"
        elif e["e"] == "shutdown":
            if e["reason"] == "REQUEST(CLEAN)":
                for t in e["snap"]["tasks"]:
                    if t["status"] in ("submitted", "running"):
                        return f"clean stop with active job {t['id']} ({t['status']})"
        elif e["e"] == "stop_task_done":
            pnt, name = e["task"].split("/")
            ok = any(x["e"] == "output" and x["id"] == [int(pnt), name] and "succeeded" in x["out"] for x in tr)
            if not ok:
                return f"stopped after stop task {e['task']} although it has not succeeded"
    # with a stop point the workflow shuts down once nothing at or before it remains to run
    sp_cmds = [e for e in tr if e["e"] == "cmd_stop_point"]
    if sp_cmds and run["meta"]["stop"] == "quiescent":
        lastsnap = [e for e in tr if e["e"] == "tick_end"][-1]["snap"]
        # (finished-but-incomplete tasks beyond the stop point legitimately keep the scheduler up: stall)
        if all(t["id"][0] > lastsnap["stop_point"] and t["status"] == "waiting" for t in lastsnap["tasks"]) \
                and not lastsnap["paused"] and not lastsnap["stop_mode"]:
            return f"nothing at or before the stop point {lastsnap['stop_point']} remains but the scheduler did not shut down"
    return None


def c45(scn, run):
    """once an absolute-trigger output is completed every pooled dependent instance reflects it"""
    g = S.instance_graph(scn)["inst"]
    done = set()
    for e in _tracked(run["trace"]):
        if e["e"] == "output":
            for o in e["out"]:
                done.add((e["id"][0], e["id"][1], _norm_out(o)))
        elif e["e"] in ("tick_end", "restarted"):
            for t in e["snap"]["tasks"]:
                inst = g.get(tuple(t["id"]))
                if inst is None:
                    continue
                sat = {(k[0], k[1], _norm_out(k[2])) for pre in t["prereqs"] for k, v in pre if v}
                for ex, got in zip(inst["prereqs"], t["sat"]):
                    abs_atoms = [a for a in S.atoms_c(ex) if a.get("abs")]
                    if not abs_atoms:
                        continue
                    with_abs = S.eval_c(ex, lambda a: (a["id"][0], a["id"][1], a["out"]) in sat
                                        or (a.get("abs") and (a["id"][0], a["id"][1], a["out"]) in done))
                    plain = S.eval_c(ex, lambda a: (a["id"][0], a["id"][1], a["out"]) in sat)
                    if with_abs and not plain:
                        return (f"{t['id']}: absolute output(s) "
                                f"{[a for a in abs_atoms if (a['id'][0], a['id'][1], a['out']) in done]} are complete "
                                f"but the dependent prerequisite is not satisfied")
    return None


def c31(scn, run):
    """sequential tasks: never two active instances; submitted only after the previous instance succeeded"""
    seq = set(scn.get("sequential", []))
    if not seq:
        return None
    g = S.instance_graph(scn)
    start = scn.get("startcp", scn["icp"])
    succeeded = set()
    manual = {tuple(x["id"]) for x in run["trace"] if x["e"] == "state" and x.get("manual")}
    for e in _tracked(run["trace"]):
        if e["e"] == "output" and "succeeded" in e["out"]:
            succeeded.add(tuple(e["id"]))
        elif e["e"] == "submit":
            for p, n, sn in e["jobs"]:
                if n in seq and (p, n) not in manual:
                    prev = [q for q in g["seqs"][n] if q < p]
                    if prev and max(prev) >= start and (max(prev), n) not in succeeded:
                        return f"sequential task {p}/{n} submitted before its previous instance {max(prev)}/{n} succeeded"
        elif e["e"] == "tick_end":
            act = {}
            for t in e["snap"]["tasks"]:
                if t["id"][1] in seq and t["status"] in ACTIVE:
                    act.setdefault(t["id"][1], []).append(t["id"][0])
            for n, ps in act.items():
                if len(ps) > 1:
                    return f"instances {sorted(ps)} of sequential task {n} are active at the same time"
    return None


def c46(scn, run):
    """warm start: nothing before the start point runs (unless manually triggered); dependencies on
    instances before the start point count as satisfied"""
    start = scn.get("startcp")
    if start is None:
        return None
    manual = {tuple(x["id"]) for x in run["trace"] if x["e"] == "state" and x.get("manual")}
    for e in _tracked(run["trace"]):
        if e["e"] == "add" and e["t"]["id"][0] < start and tuple(e["t"]["id"]) not in manual:
            return f"{e['t']['id']} entered the pool before the start point {start}"
        if e["e"] == "submit":
            for p, n, sn in e["jobs"]:
                if p < start and (p, n) not in manual:
                    return f"{p}/{n} submitted before the start point {start}"
        if e["e"] in ("spawn",):
            t = e["t"]
            for pre in t["prereqs"]:
                for k, v in pre:
                    if k[0] < start <= t["id"][0] and k[0] != t["id"][0] and not v:
                        return f"{t['id']}: dependency on {k} before the start point is not satisfied"
    return None


def _crash_ticks(tr):
    tick = None
    for e in tr:
        if e["e"] == "tick":
            tick = e["n"]
        elif e["e"] == "crash":
            yield tick


def c20(scn, run):
    """crash + restart: no job launched twice under one submit number, no completed instance re-run,
    same work as the uninterrupted run"""
    tr = run["trace"]
    launched = {}
    completed = set()
    double = None
    tick = None
    crash_ticks = {e2_tick for e2_tick in _crash_ticks(tr)}
    first_launch_tick = {}
    for e in tr:
        if e["e"] == "tick":
            tick = e["n"]
        if e["e"] == "submit_result":
            k = (tuple(e["id"]), e["submit_num"])
            launched[k] = launched.get(k, 0) + 1
            first_launch_tick.setdefault(k, tick)
            if launched[k] > 1 and double is None:
                double = k
        elif e["e"] == "remove" and e["reason"] == "completed":
            completed.add(tuple(e["t"]["id"]))
        elif e["e"] == "submit":
            for p, n, sn in e["jobs"]:
                if (p, n) in completed:
                    return f"{p}/{n} was finished and complete, yet it was submitted again (submit number {sn}) after the restart"
    if double is not None:
        (p, n), sn = double
        if first_launch_tick.get(double) in crash_ticks:
            return (f"job {p}/{n}/{sn:02d} launched twice under the same submit number "
                    f"(the scheduler died after launching it and before committing that it was submitted)")
        return (f"job {p}/{n}/{sn:02d} was launched again under the same submit number although its first launch was in main-loop "
                f"iteration {first_launch_tick.get(double)}, which completed (and committed) before the crash")
    # a child spawned in the crash iteration whose parent's completion was flushed to the database by TaskPool.remove()
    # before the end-of-iteration write of the task_pool table: after the restart it is neither pooled nor respawned
    spawned_in_crash_tick, pending = set(), []
    for e in tr:
        if e["e"] == "tick":
            pending = []
        elif e["e"] == "spawn":
            pending.append(tuple(e["t"]["id"]))
        elif e["e"] == "crash":
            spawned_in_crash_tick.update(pending)
            pending = []
        elif e["e"] == "spawn_none" and tuple(e["id"]) in spawned_in_crash_tick:
            sub = {tuple(j[:2]) for x in tr if x["e"] == "submit" for j in x["jobs"]}
            if tuple(e["id"]) not in sub:
                return (f"{e['id']} was spawned in the main-loop iteration in which the scheduler died; its spawning was committed "
                        f"(task_states row, flushed by TaskPool.remove of its parent) but the task_pool table was not yet rewritten: "
                        f"after the restart it is not in the pool and is refused when its parent's output spawns it again, so it never runs")
    # crash during the very first main-loop iteration: nothing was committed yet
    prev_pool = None
    first_commit_done = False
    for e in tr:
        if e["e"] == "tick_end":
            first_commit_done = True
            prev_pool = e["snap"]["tasks"]
        elif e["e"] == "started":
            prev_pool = e["snap"]["tasks"]
        elif e["e"] == "restarted" and e.get("crash"):
            if prev_pool and not e["snap"]["tasks"] and not first_commit_done:
                return ("the scheduler died during its first main-loop iteration (before the first database commit): "
                        f"the restart found an empty task pool and the workflow's tasks {[t['id'] for t in prev_pool]} were lost")
            prev_pool = e["snap"]["tasks"]
    other_ops = [o for o in scn.get("ops", []) if o["cmd"] not in ("restart", "crash")]
    if run.get("baseline") and not run["baseline"].get("error") and not run["meta"].get("error") and not other_ops:
        b, a = run["baseline"]["summary"], run["summary"]
        if run["meta"]["stop"] in ("AUTOMATIC", "quiescent"):
            std = set(S.STD)
            bd, ad = {tuple(k): v for k, v in b["outputs"]}, {tuple(k): v for k, v in a["outputs"]}
            lost_custom = {k: sorted(set(bd[k]) - set(ad.get(k, []))) for k in bd
                           if k in ad and set(ad[k]) < set(bd[k]) and not (set(bd[k]) - set(ad[k])) & std}
            if lost_custom:
                dt, tick = {}, None
                for e in tr:
                    if e["e"] == "tick":
                        tick = e["n"]
                    elif e["e"] == "deliver":
                        dt.setdefault((tuple(e["id"]), e["message"].replace("msg-", "")), tick)
                if not all(dt.get((k, o)) in crash_ticks for k, os_ in lost_custom.items() for o in os_):
                    return (f"custom output(s) lost although their messages were processed in an iteration that completed "
                            f"(and committed) before the crash: {lost_custom}")
                return ("custom output(s) lost by the crash: the job's message was accepted and processed in memory, the "
                        f"scheduler died before committing it and the job does not send it again: {lost_custom}")
            if b["submitted"] != a["submitted"]:
                missing = {tuple(x) for x in b["submitted"]} - {tuple(x) for x in a["submitted"]}
                extra = {tuple(x) for x in a["submitted"]} - {tuple(x) for x in b["submitted"]}
                g_ = S.instance_graph(scn)["inst"]

                def downstream_of_lost(m, seen=()):
                    # m itself was spawned in the crash iteration, or it can only be spawned by such an instance
                    if m in spawned_in_crash_tick:
                        return True
                    ups = {tuple(a_["id"]) for ex in g_.get(m, {}).get("prereqs", []) for a_ in S.atoms_c(ex) if not a_["pre"]}
                    return bool(ups) and any(u in missing and u not in seen and downstream_of_lost(u, seen + (m,)) for u in ups)
                if missing and not extra and all(downstream_of_lost(m) for m in missing):
                    lost = sorted(m for m in missing if m in spawned_in_crash_tick)
                    return (f"{[list(m) for m in lost]} was spawned in the main-loop iteration in which the scheduler died; "
                            f"the spawning was not (or only partly) committed and the output that spawned it is not produced again after "
                            f"the restart, so it and its descendants {[list(m) for m in sorted(missing - set(lost))]} never run")
                return (f"after the crash the run submitted {a['submitted']} but the uninterrupted run "
                        f"submitted {b['submitted']}")
            if b["outputs"] != a["outputs"]:
                bd, ad = {tuple(k): v for k, v in b["outputs"]}, {tuple(k): v for k, v in a["outputs"]}
                diff = {k: (bd.get(k), ad.get(k)) for k in set(bd) | set(ad) if bd.get(k) != ad.get(k)}
                return f"final outputs differ from the uninterrupted run (uninterrupted, crashed+restarted): {diff}"
    return None


IMPLIED = {"succeeded": {"submitted", "started"}, "failed": {"submitted", "started"}, "started": {"submitted"}}


def _ticks(trace):
    """split a trace into per-iteration slices: [(tick number, [events])]"""
    out, cur, n = [], [], None
    for e in trace:
        if e["e"] == "tick":
            if cur:
                out.append((n, cur))
            cur, n = [], e["n"]
        cur.append(e)
    if cur:
        out.append((n, cur))
    return out


def _required(scn, t):
    opt = S.optmap(scn)
    return {o for (tt, o), v in opt.items() if tt == t and not v}


def c29(scn, run):
    """cylc set: outputs + implied outputs completed, never submitted/running by force, children spawned
    with the prerequisite satisfied; --pre satisfies only prerequisites the task has"""
    g = S.instance_graph(scn)["inst"]
    tr = run["trace"]
    for e in tr:
        if e["e"] == "state" and e.get("forced") and e["new"][0] in ("submitted", "running") and e["old"][0] != e["new"][0]:
            return f"{e['id']} forced into the {e['new'][0]} state by cylc set"
        if e["e"] == "force_sat":
            inst = g.get(tuple(e["id"]))
            if inst is not None:
                have = {(a["id"][0], a["id"][1], a["out"]) for ex in inst["prereqs"] for a in S.atoms_c(ex)}
                for k in e["new"]:
                    if (k[0], k[1], _norm_out(k[2])) not in have:
                        return f"cylc set/trigger satisfied {k} on {e['id']}, which is not one of its prerequisites"
    ticks = _ticks(tr)
    for ti, (n, evs) in enumerate(ticks):
        ops = [e["op"] for e in evs if e["e"] == "op" and e["op"]["cmd"] == "set" and e["op"]["args"].get("prerequisites") is None]
        if not ops or len([e for e in evs if e["e"] == "op"]) != 1:
            continue      # keep attribution simple: one command in this iteration
        op = ops[0]
        pnt, name = op["args"]["tasks"][0].split("/")
        tid_ = [int(pnt), name]
        if tuple(tid_) not in g:
            continue
        if any(e["e"] in ("restarted", "crash", "shutdown") for e in evs):
            continue
        forced_out = [o for e in evs if e["e"] == "output" and e.get("forced") and e["id"] == tid_ for o in e["out"]]
        all_out_now = set()
        for (m, evs2) in ticks[:ti + 1]:
            for e in evs2:
                if e["e"] == "output" and e["id"] == tid_:
                    all_out_now |= {_norm_out(o) for o in e["out"]}
        want = op["args"].get("outputs")
        if want is None:
            want = sorted(_required(scn, name)) or ["submitted", "started", "succeeded"]
        # an active task with a --flow mismatch etc. may ignore the command: only judge when it acted
        acted = bool(forced_out) or all(w in all_out_now for w in want)
        if not acted:
            continue
        for w in want:
            need = {w} | IMPLIED.get(w, set())
            if not need <= all_out_now:
                return f"cylc set {tid_} --out={want}: outputs {sorted(need - all_out_now)} are not complete afterwards"
        # children of the newly completed outputs exist (or finished before) with that prerequisite satisfied
        snap = [e for e in evs if e["e"] == "tick_end"]
        if not snap:
            continue
        pool = {tuple(t["id"]): t for t in snap[-1]["snap"]["tasks"]}
        gone = {tuple(e["t"]["id"]) for (m, evs2) in ticks[:ti + 1] for e in evs2 if e["e"] == "remove"}
        none = {tuple(e["id"]) for e in evs if e["e"] == "spawn_none"}
        for o in {_norm_out(x) for x in forced_out}:
            for child in g[tuple(tid_)]["children"].get(o, []):
                c = tuple(child)
                if any(a["abs"] and tuple(a["id"]) == tuple(tid_) and a["out"] == o
                       for ex in g[c]["prereqs"] for a in S.atoms_c(ex)) and c[0] != tid_[0]:
                    continue     # dependents through an absolute trigger are satisfied when they spawn, not spawned by it
                if c in pool:
                    sat = {(k[0], k[1], _norm_out(k[2])) for pre in pool[c]["prereqs"] for k, v in pre if v}
                    if (tid_[0], tid_[1], o) not in sat:
                        return f"cylc set {tid_}:{o}: child {list(c)} is in the pool but its prerequisite on it is not satisfied"
                elif c not in gone and c not in none and c[0] <= scn["fcp"] and c[0] >= scn.get("startcp", scn["icp"]):
                    return f"cylc set {tid_}:{o}: child {list(c)} was not spawned"
    return None


def c30(scn, run):
    """cylc remove: the instance leaves the pool, naturally satisfied prerequisites of its children are unset,
    a later incarnation starts from scratch, no stale hold is left behind"""
    g = S.instance_graph(scn)["inst"]
    ticks = _ticks(run["trace"])
    # the removal erases the instance's history in EVERY flow it was asked for (all flows unless --flow is given)
    for ti, (n, evs) in enumerate(ticks):
        rm_ops = [e["op"] for e in evs if e["e"] == "op" and e["op"]["cmd"] == "remove_tasks"
                  and e["op"]["args"].get("flow") in (None, [], ["all"])]
        snap = [e for e in evs if e["e"] == "tick_end"]
        if not rm_ops or not snap or len([e for e in evs if e["e"] == "op"]) != 1:
            continue
        rows = snap[-1]["snap"].get("db_states")
        if not isinstance(rows, list):
            continue
        for x in rm_ops[0]["args"]["tasks"]:
            p_, nm_ = x.split("/")
            left = [r for r in rows if r[0] == int(p_) and r[1] == nm_ and r[2]]
            respawned = any(e["e"] == "add" and e["t"]["id"] == [int(p_), nm_] for e in evs)
            if left and not respawned:
                return (f"cylc remove {x} (all flows): the task_states table still records it in flows "
                        f"{[r[2] for r in left]} (status {[r[3] for r in left]}): it cannot run again in those flows")
    removed_ever = set()
    hold_cmds = set()
    for ti, (n, evs) in enumerate(ticks):
        for e in evs:
            if e["e"] == "cmd_hold":
                hold_cmds |= {tuple(i) for i in e["ids"]}
            elif e["e"] in ("cmd_release", ):
                hold_cmds -= {tuple(i) for i in e["ids"]}
            elif e["e"] == "cmd_release_hold_point":
                hold_cmds.clear()
        rm = [tuple(i) for e in evs if e["e"] == "cmd_remove" for i in e["ids"]]
        is_remove_cmd = any(e["e"] == "op" and e["op"]["cmd"] == "remove_tasks" for e in evs)
        if not rm or not is_remove_cmd or any(e["e"] in ("restarted", "crash", "shutdown") for e in evs):
            continue
        removed_ever |= set(rm)
        snap = [e for e in evs if e["e"] == "tick_end"]
        if not snap:
            continue
        sn = snap[-1]["snap"]
        pool = {tuple(t["id"]): t for t in sn["tasks"]}
        respawned = {tuple(e["t"]["id"]) for e in evs if e["e"] == "add"}
        for x in rm:
            if x in pool and x not in respawned:
                return f"cylc remove {list(x)}: the instance is still in the pool"
            for t in sn["tasks"]:
                if tuple(t["id"]) in respawned:
                    continue
                forced = {tuple(k) for k in t.get("fsat", [])}
                for pre in t["prereqs"]:
                    for k, v in pre:
                        if v and (k[0], k[1]) == x and tuple(k) not in forced and k[0] >= scn["icp"] \
                                and t["status"] == "waiting" and not any(
                                    ee["e"] == "output" and ee["id"] == list(x) for ee in evs
                                    if evs.index(ee) > max(i for i, q in enumerate(evs) if q["e"] == "cmd_remove")):
                            return (f"cylc remove {list(x)}: {t['id']} still has its prerequisite {k} satisfied "
                                    f"(it was satisfied naturally by the removed instance)")
            if [x[0], x[1]] in sn["to_hold"] and x not in hold_cmds and not (sn["hold_point"] is not None and x[0] > sn["hold_point"]):
                return (f"cylc remove {list(x)} (an active task) left {list(x)} in the set of held instances: "
                        f"killing the job of the already removed task holds it")
    # a command right after the removal must not see the erased history
    erased, outs_of = {}, {}
    for e in _tracked(run["trace"]):
        if e["e"] == "output":
            outs_of.setdefault(tuple(e["id"]), set()).update(_norm_out(o) for o in e["out"])
            erased.get(tuple(e["id"]), set()).difference_update(_norm_out(o) for o in e["out"])
        elif e["e"] == "cmd_remove":
            for i in e["ids"]:
                erased.setdefault(tuple(i), set()).update(outs_of.pop(tuple(i), set()))
        elif e["e"] == "transient":
            t = e["t"]
            stale = sorted({_norm_out(o) for o in t["outputs"]} & erased.get(tuple(t["id"]), set()))
            if stale:
                return (f"{t['id']} was removed (history erased) but a cylc set command processed in the same main-loop "
                        f"iteration still found its outputs {stale} recorded (the erasure is flushed to the database only at the "
                        f"end of the iteration)")
    # a later incarnation of a removed instance starts from scratch
    seen_removed = set()
    for e in run["trace"]:
        if e["e"] == "cmd_remove":
            seen_removed |= {tuple(i) for i in e["ids"]}
        elif e["e"] == "spawn" and tuple(e["t"]["id"]) in seen_removed:
            t = e["t"]
            if t["outputs"] or t["status"] != "waiting":
                return f"{t['id']} was removed (history erased) but respawned with status {t['status']} and outputs {t['outputs']}"
            seen_removed.discard(tuple(t["id"]))
    return None


def c28(scn, run):
    """group trigger: each member runs at most once per trigger; live group-start members are left alone;
    members with in-group prerequisites run only after those were satisfied after the trigger"""
    g = S.instance_graph(scn)["inst"]
    ticks = _ticks(run["trace"])
    all_ops = [e["op"] for e in run["trace"] if e["e"] == "op"]
    trig_ops = [o for o in all_ops if o["cmd"] == "force_trigger_tasks"]
    if len(trig_ops) != 1 or any(o["cmd"] in ("remove_tasks", "set", "restart", "crash") for o in all_ops):
        return None        # judged only on scenarios with a single trigger command (attribution)
    op = trig_ops[0]
    group = {(int(x.split("/")[0]), x.split("/")[1]) for x in op["args"]["tasks"]}
    group = {m for m in group if m in g}
    t_idx = next(i for i, (n, evs) in enumerate(ticks) if any(e["e"] == "op" and e["op"] is op for e in evs))
    before = {}
    for (n, evs) in ticks[:t_idx]:
        for e in evs:
            if e["e"] in ("tick_end", "started"):
                before = {tuple(t["id"]): t for t in e["snap"]["tasks"]}
    subs_after = {}
    out_after = set()
    # a group-start member with a live job is left to finish: what it had already completed counts
    for m_, t_ in before.items():
        if m_ in group and t_["status"] in ("preparing", "submitted", "running"):
            out_after |= {(m_[0], m_[1], _norm_out(o)) for o in t_["outputs"]}
    order = []
    for (n, evs) in ticks[t_idx:]:
        for e in evs:
            if e["e"] == "submit":
                for p, nme, sn in e["jobs"]:
                    subs_after[(p, nme)] = subs_after.get((p, nme), 0) + 1
                    order.append(("sub", (p, nme), set(out_after)))
            elif e["e"] == "output":
                for o in e["out"]:
                    out_after.add((e["id"][0], e["id"][1], _norm_out(o)))
            elif e["e"] == "deliver":
                # (a member re-triggered in place keeps the outputs of its earlier job: the new job's message
                # completes nothing new, yet it is what spawns / satisfies the children)
                out_after.add((e["id"][0], e["id"][1], _norm_out(e["message"])))
                for o in IMPLIED.get(_norm_out(e["message"]), ()):
                    out_after.add((e["id"][0], e["id"][1], o))
    tries = scn.get("tries", {})
    for m in group:
        in_group_parents = [a for ex in g[m]["prereqs"] for a in S.atoms_c(ex) if tuple(a["id"]) in group and not a["pre"]]
        live = m in before and before[m]["status"] in ("preparing", "submitted", "running")
        if live and not in_group_parents and subs_after.get(m, 0) > 0 and tries.get(m[1], 1) == 1:
            return f"group-start member {list(m)} had a live job ({before[m]['status']}) but was submitted again by the trigger"
        if subs_after.get(m, 0) > tries.get(m[1], 1):
            return f"member {list(m)} was submitted {subs_after[m]} times after one trigger"
    ended = run["meta"].get("stop") in ("AUTOMATIC", "quiescent")
    any_failed = any(e["e"] == "output" and ("failed" in e["out"] or "submit-failed" in e["out"]) for e in run["trace"])
    shut = [n for (n, evs) in ticks for e in evs if e["e"] == "shutdown"]
    t_tick = ticks[t_idx][0]
    acted = any(e["e"] in ("cmd_remove", "manual") for (n, evs) in ticks[t_idx:t_idx + 2] for e in evs)
    if ended and not any_failed and not scn.get("queues") and acted and (not shut or shut[0] > t_tick + 3):
        done_before = {tuple(t["id"]) for (n, evs) in ticks[:t_idx] for e in evs if e["e"] == "remove" and e["reason"] == "completed"
                       for t in [e["t"]]}
        for m in sorted(group):
            live = m in before and before[m]["status"] in ("preparing", "submitted", "running")
            due = all(S.eval_c(ex, lambda a: (tuple(a["id"]) not in group) or (a["id"][0], a["id"][1], a["out"]) in out_after)
                      for ex in g[m]["prereqs"])       # (e.g. a member waiting for a:failed need not run if a succeeded)
            if subs_after.get(m, 0) == 0 and not live and due:
                return (f"member {list(m)} of the triggered group never ran after the trigger although every job of the run "
                        f"succeeded (each member must run once more{'; it had finished before' if m in done_before else ''})")
    for kind, m, outs in order:
        if m in group:
            for ex in g[m]["prereqs"]:
                grp_atoms = [a for a in S.atoms_c(ex) if tuple(a["id"]) in group and not a["pre"]]
                if not grp_atoms:
                    continue
                ok = S.eval_c(ex, lambda a: (tuple(a["id"]) not in group) or (a["id"][0], a["id"][1], a["out"]) in outs)
                if not ok:
                    return (f"member {list(m)} was submitted before its in-group prerequisite {ex} was satisfied "
                            f"by outputs completed after the trigger")
    return None


def c05(scn, run):
    """A limited queue never holds more non-manually-triggered members in preparing/submitted/running than
    its limit (manually triggered tasks count as active but may exceed the limit; a queued task that gets held
    keeps its place in the queue and is skipped by releases); every instance belongs to the last queue listing its name, else to `default`."""
    qs = scn.get("queues", {})
    owner = {}
    for qn, qd in qs.items():
        if qn != "default":
            for m in qd["members"]:
                owner[m] = qn
    for e in run["trace"]:
        if e["e"] != "tick_end":
            continue
        count = {}
        for t in e["snap"]["tasks"]:
            if t["status"] in ("preparing", "submitted", "running") and not t["manual"]:
                qn = owner.get(t["id"][1], "default")
                count[qn] = count.get(qn, 0) + 1
        for qn, n in count.items():
            lim = qs.get(qn, {}).get("limit", 0)
            if lim and n > lim:
                return f"queue {qn} (limit {lim}) has {n} non-triggered active members at the end of an iteration"
    return None


ORACLES = {"C05": c05, "C28": c28, "C29": c29, "C30": c30, "C20": c20, "C31": c31, "C46": c46, "C45": c45, "C06": c06, "C19": c19, "C43": c43, "C01": c01, "C02": c02, "C03": c03, "C04": c04, "C07": c07, "C09": c09, "C11": c11,
           "C25": c25, "C26": c26}
