"""The shared scheduler-scenario correspondence stream.

One SchedStream instance per (property, feature set).  Scenario runs and the
Coq evaluation are cached under .cache/ keyed by the content hash of /repo's
sources, the harness sources, the Coq model and the cases, so that the many
pool-level properties sharing a feature set pay for the runs once; any edit to
/repo invalidates the cache.
"""
from __future__ import annotations

import json
import os
import random
from pathlib import Path

from vp.core import Stream
from vp.sched import oracles, scen, tocoq


class SchedStream(Stream):
    coq_import = "From Cylc Require Import Model.Pool."
    check_fn = "Pool.check_case"
    show_fn = "Pool.model_out"
    needs_scratch_home = True
    n_hashseeds = 16
    shard_size = 8
    impl_timeout = 900

    def __init__(self, pid: str, name="sched", feat=None, n_quick=32, n_thorough=800, extra_oracles=(), corpus=()):
        self.pid = pid
        self.name = name
        self.feat = feat or {}
        self.n_quick, self.n_thorough = n_quick, n_thorough
        self.cache_key = f"sched:{name}:{json.dumps(self.feat, sort_keys=True)}"
        self.oracle_ids = [pid, *extra_oracles]
        self._corpus = list(corpus)
        self.rule = (f"generated integer-cycling workflows (2-5 tasks, 1-2 recurrences from P1 P2 P3 R1 R1/$ +P1/P2, "
                     f"AND/OR/parenthesised triggers, [-P1]/[-P2] offsets incl. pre-initial, :fail?/:start/custom outputs, "
                     f"optional outputs, runahead P0-P4, features {self.feat}), job outcomes and message delivery order "
                     f"drawn from the scenario seed; each run on the real Scheduler in-process; non-trivial = "
                     f"distinct (graph, outcome) with at least 2 submissions")

    def corpus(self):
        return [dict(c) for c in self._corpus]

    def gen(self, rng, tier):
        n = self.n_quick if tier == "quick" else self.n_thorough
        # the scenario list depends only on (seed, n): properties share cached runs
        r2 = random.Random(rng.randrange(1 << 30) if self.feat.get("own_seed") else rng.getstate()[1][0])
        return [scen.gen_scenario(r2, self.feat) for _ in range(n)]

    def search(self, rng, tier):
        r2 = random.Random(rng.randrange(1 << 30))
        return [scen.gen_scenario(r2, self.feat) for _ in range(2 * self.n_quick if tier == "quick" else 200)]

    def impl(self, cases):
        from vp.sched import driver
        home = Path(os.environ["HOME"])
        return driver.run_many(cases, home)

    def coq_case(self, c, r):
        if r["meta"].get("error"):
            return None
        return tocoq.case_term(c, r["trace"])

    def oracle(self, c, r):
        if r["meta"].get("error"):
            return "scheduler run raised: " + r["meta"]["error"]
        for oid in self.oracle_ids:
            f = oracles.ORACLES[oid](c, r)
            if f:
                return f"[{oid}] {f}"
        return None

    def key(self, c, r):
        nsub = sum(len(e["jobs"]) for e in r["trace"] if e["e"] == "submit")
        if nsub < 2:
            return None
        return json.dumps([c["sections"], c["runahead"], c["fcp"], c["seed"]], sort_keys=True)

    def classify(self, c, r, failure):
        if "launched twice under the same submit number" in failure:
            return "sched:C20:double-launch-after-crash"
        if "custom output(s) lost by the crash" in failure:
            return "sched:C20:uncommitted-custom-output-lost"
        if "besides an absolute trigger (satisfied) all their parents are pre-initial" in failure:
            return "sched:C01:abs-plus-pre-initial-dependent-never-spawned"
        if "processed in the same main-loop iteration still found its outputs" in failure:
            return "sched:C30:set-after-remove-in-one-iteration-sees-erased-history"
        if "the restart re-applied the hold point to the reloaded pool and holds it again" in failure:
            return "sched:C19:released-beyond-hold-point-held-again-after-restart"
        if "was spawned in the main-loop iteration in which the scheduler died" in failure:
            return "sched:C20:child-spawned-in-crash-iteration-lost"
        if "died during its first main-loop iteration" in failure:
            return "sched:C20:crash-before-first-commit"
        if "left" in failure and "in the set of held instances" in failure:
            return "sched:C30:removed-active-task-left-held"
        if "runahead limit kept at the stop point" in failure:
            return "sched:C04:limit-not-recomputed-at-stop-point"
        return f"{self.name}:{failure.split(']')[0][1:]}:{failure.split(']')[-1].strip()[:60]}"

    def shrink(self, c):
        # drop dependency lines, then sections, then lower fcp
        for si, sec in enumerate(c["sections"]):
            for li, ln in enumerate(sec["lines"]):
                if ln["lhs"] is not None:
                    c2 = json.loads(json.dumps(c))
                    del c2["sections"][si]["lines"][li]
                    yield c2
        if c["fcp"] > max(1, c.get("startcp", 1)):
            c2 = json.loads(json.dumps(c))
            c2["fcp"] -= 1
            yield c2
