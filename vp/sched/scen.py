"""Scenario generator + reference semantics for scheduler-level properties.

No cylc import here: the *reference* instance graph (which task instances
exist, their prerequisite expressions, children of each output, which are
auto-spawned) is computed from the generator's own AST, independently of the
code under test.  Sequence point sets are taken as data (computed by the
driver from the real IntegerSequence, which C16 verifies separately) only to
cross-check this file's own enumeration.
"""
from __future__ import annotations

import random

STD = ["expired", "submitted", "submit-failed", "started", "succeeded", "failed"]
QUAL = {"succeeded": "", "failed": ":fail", "started": ":start", "submitted": ":submit",
        "submit-failed": ":submit-fail", "expired": ":expire"}


# ---- recurrences (integer cycling, icp=1) ----------------------------------
def rec_points(rec: str, icp: int, fcp: int) -> list[int]:
    """Reference enumeration of the recurrence forms the generator uses."""
    if rec == "R1":
        return [icp]
    if rec == "R1/$":
        return [fcp]
    if rec.startswith("P"):
        k = int(rec[1:])
        return list(range(icp, fcp + 1, k))
    if rec.startswith("+P"):          # "+P1/P2": start at icp+1, step 2
        off, step = rec.split("/")
        s = icp + int(off[2:])
        return list(range(s, fcp + 1, int(step[1:])))
    raise ValueError(rec)


# ---- expressions -------------------------------------------------------------
def atoms(e):
    if "task" in e:
        yield e
    else:
        for a in e["args"]:
            yield from atoms(a)


def render_expr(e, opt, top=True):
    if "task" in e:
        s = e["task"]
        if e.get("abs") is not None:
            s += "[^]" if e["abs"] == 0 else f"[^+P{e['abs']}]"
        elif e.get("off"):
            s += f"[{'-' if e['off'] < 0 else '+'}P{abs(e['off'])}]"
        out = e["out"]
        s += QUAL[out] if out in QUAL else f":{out}"
        if opt.get((e["task"], out)):
            s += "?"
        return s
    sep = " & " if e["op"] == "and" else " | "
    s = sep.join(render_expr(a, opt, False) for a in e["args"])
    return s if top else f"({s})"


def _and_only(e):
    if "task" in e:
        return e
    return {"op": "and", "args": [_and_only(a) for a in e["args"]]}


def future_offset(scn, task) -> int:
    """largest future trigger offset among the prerequisites of a task (0 if none): TaskDef.max_future_prereq_offset"""
    m = 0
    for sec in scn["sections"]:
        for ln in sec["lines"]:
            if ln["rhs"] == task and ln["lhs"] is not None:
                for a in atoms(ln["lhs"]):
                    m = max(m, a.get("off", 0) if a.get("abs") is None else 0)
    return m


# ---- scenario generation ---------------------------------------------------
def gen_scenario(rng: random.Random, feat: dict | None = None) -> dict:
    feat = feat or {}
    ntasks = rng.randint(2, feat.get("max_tasks", 5))
    tasks = [chr(ord("a") + i) for i in range(ntasks)]
    icp = 1
    fcp = rng.randint(3 if feat.get("abs") == "many" else 1, feat.get("max_fcp", 4))
    recs_all = ["P1", "P1", "P2", "R1", "P3", "+P1/P2", "R1/$"]
    nsec = rng.randint(1, 2)
    recs = []
    while len(recs) < nsec:
        r = rng.choice(recs_all)
        if r not in recs and rec_points(r, icp, fcp):
            recs.append(r)
    # custom outputs
    customs = {}
    for t in tasks:
        if rng.random() < 0.3:
            customs[t] = ["x"] if rng.random() < 0.7 else ["x", "y"]
    # optionality: (task, output) -> bool, fixed globally so every occurrence agrees
    opt = {}
    fail_used = set()
    sections = []
    home = {t: rng.randrange(len(recs)) for t in tasks}
    for si, rec in enumerate(recs):
        lines = []
        members = [t for t in tasks if home[t] == si or rng.random() < 0.3]
        for t in members:
            lines.append({"lhs": None, "rhs": t})      # bare node: puts t on this sequence
        # dependency lines
        for _ in range(rng.randint(0, 2 + len(members))):
            if not members:
                break
            rhs = rng.choice(members)
            n_at = rng.choice([2, 3, 3]) if feat.get("nest") else rng.choice([1, 1, 1, 2, 2, 3])
            ats = []
            for _ in range(n_at):
                # with future triggers every edge goes from a lower (or the same) task index to a higher one, the
                # same task only backwards in time: no dependency cycle is possible
                up = rng.choice(tasks[:tasks.index(rhs) + 1]) if feat.get("future") else rng.choice(tasks)
                same_cycle_ok = tasks.index(up) < tasks.index(rhs) and up in members
                r = rng.random()
                a = {"task": up}
                if feat.get("future") and up != rhs and up in members and rng.random() < 0.45:
                    # future trigger a[+Pn] => b: b waits for a LATER instance of a (the runahead limit is
                    # pushed out while b is pooled).  Never under an OR (see below).
                    a["off"] = rng.choice([1, 1, 2, 3])
                elif same_cycle_ok and r < 0.6:
                    a["off"] = 0
                elif feat.get("abs") and r > (0.9 - 0.4 * (feat.get("abs") == "many")) and home[up] == si and rec.startswith("P") \
                        and up != rhs:        # (t[^] => t would make the first instance depend on itself)
                    a["abs"] = 0
                else:
                    a["off"] = -rng.choice([1, 2, 2, 3] if feat.get("deep_offsets") else [1, 1, 1, 2])
                    if a["off"] == 0:
                        a["off"] = -1
                outs = ["succeeded"] * 5 + ["failed", "started"] + customs.get(up, []) * 2
                if feat.get("submit_outputs"):
                    outs += ["submitted", "submit-failed"]
                a["out"] = rng.choice(outs)
                if a["out"] == "failed":
                    fail_used.add(up)
                if a["out"] == "submit-failed":
                    opt[(up, "submit-failed")] = True
                ats.append(a)
            # dedupe identical atoms
            uniq = []
            for a in ats:
                if a not in uniq:
                    uniq.append(a)
            if len(uniq) == 1:
                e = uniq[0]
            elif len(uniq) == 2:
                e = {"op": rng.choice(["and", "or"]), "args": uniq}
            elif feat.get("nest"):
                # mixed AND/OR with the parenthesised group on either side: (x | y) & z, z & (x | y), ...
                o1 = rng.choice(["and", "or"])
                grp = {"op": "or" if o1 == "and" else "and", "args": uniq[1:]}
                e = {"op": o1, "args": [uniq[0], grp] if rng.random() < 0.5 else [grp, uniq[0]]}
            else:
                e = {"op": rng.choice(["and", "or"]),
                     "args": [uniq[0], {"op": rng.choice(["and", "or"]), "args": uniq[1:]}]}
            if any(a.get("off", 0) > 0 for a in uniq):
                # cylc does not spawn an instance with ANY prerequisite target beyond the stop point, also when
                # the atom sits under an OR; keep future atoms to conjunctions so that the logical reading agrees
                e = _and_only(e)
            lines.append({"lhs": e, "rhs": rhs})
        sections.append({"rec": rec, "lines": lines})
    # drop dependency lines that refer to instances that do not exist (off-sequence offsets such as
    # a[-P1] on a P2 sequence): cylc treats them as configuration slips (the dependent never runs)
    def _valid_points(tn):
        pts = set()
        for sec_ in sections:
            if any(l["rhs"] == tn for l in sec_["lines"]):
                pts.update(rec_points(sec_["rec"], icp, fcp))
        return pts
    n_secs_of = {}
    for sec_ in sections:
        for tn in {l["rhs"] for l in sec_["lines"]}:
            n_secs_of[tn] = n_secs_of.get(tn, 0) + 1
    for sec_ in sections:
        keep = []
        for ln in sec_["lines"]:
            ok = True
            if ln["lhs"] is not None and n_secs_of.get(ln["rhs"], 0) > 1 and any(
                    a.get("off", 0) > 0 for a in atoms(ln["lhs"])):
                # cylc learns a task's future-trigger offset lazily (when it first builds the prerequisites of an instance
                # on that recurrence), so with the task on several recurrences the runahead adjustment is history
                # dependent; the reference semantics assumes it is static: keep such tasks on one recurrence
                ok = False
            if ln["lhs"] is not None:
                for pnt in rec_points(sec_["rec"], icp, fcp):
                    for a in atoms(ln["lhs"]):
                        up = icp + a["abs"] if a.get("abs") is not None else pnt + a.get("off", 0)
                        if icp <= up <= fcp and up not in _valid_points(a["task"]):
                            ok = False
            if ok:
                keep.append(ln)
        sec_["lines"] = keep
    referenced = set()
    for sec in sections:
        for ln in sec["lines"]:
            if ln["lhs"] is not None:
                for a in atoms(ln["lhs"]):
                    referenced.add((a["task"], a["out"]))
    for t in tasks:
        so = t in fail_used or rng.random() < 0.15
        opt[(t, "succeeded")] = so
        if (t, "failed") in referenced:
            opt[(t, "failed")] = True
        for o in ["started", "submitted"] + customs.get(t, []):
            if (t, o) in referenced:
                opt[(t, o)] = rng.random() < 0.4
    # a custom/started/failed output only matters if referenced; ensure every task's
    # succeeded optionality is rendered at least once on its bare node lines.
    if feat.get("abs") == "many" and recs[0].startswith("P") and len(tasks) >= 2:
        # make sure a dependent of an absolute trigger spawns after the output completed
        up, down = tasks[0], tasks[-1]
        if {"lhs": None, "rhs": up} not in sections[0]["lines"]:
            sections[0]["lines"].insert(0, {"lhs": None, "rhs": up})
        if {"lhs": None, "rhs": down} not in sections[0]["lines"]:
            sections[0]["lines"].insert(0, {"lhs": None, "rhs": down})
        sections[0]["lines"].append({"lhs": {"task": up, "abs": 0, "out": "succeeded"}, "rhs": down})
    scn = {
        "icp": icp, "fcp": fcp, "tasks": tasks, "sections": sections,
        "customs": customs, "opt": [[t, o, v] for (t, o), v in sorted(opt.items())],
        "runahead": (rng.choice([0, 0, 1]) if feat.get("abs") == "many" else rng.choice([0, 1, 1, 2, 2, 3, 4]))
        if feat.get("runahead", True) else 5,
        "queues": {}, "seed": rng.randrange(1 << 30),
        "fail_rate": rng.choice([0.0, 0.0, 0.15, 0.3]),
        "custom_rate": rng.choice([1.0, 1.0, 0.7]),
        "disorder": rng.choice([0.0, 0.0, 0.2]) if feat.get("disorder", True) else 0.0,
        "ops": [],
    }
    if feat.get("submit_delay"):
        # job-submission commands take this many main-loop iterations (tasks stay 'preparing' meanwhile)
        scn["submit_delay"] = rng.choice([1, 2, 3])
    if feat.get("slow"):
        # some tasks' jobs take several main-loop iterations longer: separates in time the atoms of an expression
        scn["slow"] = {t: rng.choice([0, 0, 4, 7]) for t in tasks}
        scn["max_ticks"] = 110
    if feat.get("hold"):
        g = instance_graph(scn)["inst"]
        ids = sorted(g)
        nops = rng.randint(1, 4)
        for _ in range(nops):
            tick = rng.randint(0, 8)
            r = rng.random()
            if r < 0.45 and ids:
                sel = rng.sample(ids, rng.randint(1, min(3, len(ids))))
                scn["ops"].append({"tick": tick, "cmd": "hold", "args": {"tasks": [f"{p}/{t}" for p, t in sel]}})
                if rng.random() < 0.8:
                    rel = rng.sample(sel, rng.randint(1, len(sel)))
                    scn["ops"].append({"tick": tick + rng.randint(1, 6), "cmd": "release",
                                       "args": {"tasks": [f"{p}/{t}" for p, t in rel]}})
            elif r < 0.7:
                hp = rng.randint(icp, fcp)
                scn["ops"].append({"tick": tick, "cmd": "set_hold_point", "args": {"point": str(hp)}})
                if rng.random() < 0.8:
                    scn["ops"].append({"tick": tick + rng.randint(1, 6), "cmd": "release_hold_point", "args": {}})
            elif ids:
                sel = rng.sample(ids, 1)
                scn["ops"].append({"tick": tick, "cmd": "release", "args": {"tasks": [f"{p}/{t}" for p, t in sel]}})
        scn["ops"].sort(key=lambda o: o["tick"])
    if feat.get("warm") and fcp >= 2:
        scn["startcp"] = rng.randint(3, max(3, fcp - 2)) if feat.get("deep_offsets") and fcp >= 5 else rng.randint(2, fcp)
        scn["options"] = {"startcp": str(scn["startcp"])}
    if feat.get("sequential"):
        scn["sequential"] = [t for t in tasks if rng.random() < 0.5] or [tasks[0]]
    if feat.get("retries"):
        scn["retries"] = {}
        scn["tries"] = {}
        for t in tasks:
            if rng.random() < 0.5:
                n_, m_ = rng.choice([1, 1, 2]), rng.choice([0, 0, 1])
                scn["retries"][t] = [n_, m_]
                scn["tries"][t] = (n_ + 1) * (m_ + 1)
        scn["fail_rate"] = rng.choice([0.3, 0.5])
        scn["submit_fail_rate"] = rng.choice([0.0, 0.2, 0.3])
        if feat.get("retry_delay"):
            # non-zero retry delays under a virtual clock (3 s per main-loop iteration): a retrying task waits
            # two iterations for its timer
            scn["retry_delay"] = 5
            scn["clock_step"] = 3
            scn["max_ticks"] = 120
    if feat.get("bcast"):
        # broadcast commands (harmless settings: the jobs are played by the harness), to all cycles, to existing
        # cycles and to namespaces, set and cancelled, several within one main-loop iteration (one database flush)
        scn["bcast"] = True
        live = []
        for tick in sorted(rng.randint(0, 8) for _ in range(rng.randint(1, 3))):
            for _ in range(rng.choice([2, 2, 3, 4])):
                if live and rng.random() < 0.4:
                    # cancel a setting that is in force (in the same database flush as other settings that
                    # share its cycle, namespace or key, or in a later one)
                    pts, nss, st = live.pop(rng.randrange(len(live)))
                    mode = "clear"
                else:
                    mode = "put" if rng.random() < 0.9 else "clear"
                    pts = [rng.choice(["*", "*", str(fcp), str(rng.randint(icp, fcp))])]
                    nss = [rng.choice(["root", "root", "root"] + tasks)]
                    key = rng.choice(["VPA", "VPB"])
                    st = rng.choice([{"environment": {key: str(rng.randint(1, 3))}}, {"script": "true"},
                                     {"environment": {key: str(rng.randint(1, 3))}}])
                    if mode == "put":
                        live.append((pts, nss, st))
                scn["ops"].append({"tick": tick, "cmd": "broadcast", "mode": mode, "points": pts,
                                   "namespaces": nss, "settings": [st]})
        scn["ops"].sort(key=lambda o: o["tick"])
    if feat.get("restart"):
        for _ in range(rng.choice([1, 1, 2])):
            scn["ops"].append({"tick": rng.randint(0, 10), "cmd": "restart",
                               "mode": rng.choice(["now", "now", "clean", "now-now"])})
        scn["ops"].sort(key=lambda o: o["tick"])
        scn["baseline"] = True
    if feat.get("set") or feat.get("remove") or feat.get("trigger"):
        g = instance_graph(scn)["inst"]
        ids = sorted(g)
        kinds = [k for k in ("set", "remove", "trigger") if feat.get(k)]
        for _ in range(rng.randint(1, 3)):
            if not ids:
                break
            kind = rng.choice(kinds)
            tick = rng.randint(0, 10)
            pnt, t = rng.choice(ids)
            if kind == "set":
                r = rng.random()
                if r < 0.35:
                    args = {"tasks": [f"{pnt}/{t}"], "flow": ["all"], "outputs": None, "prerequisites": None}
                elif r < 0.7:
                    outs = rng.sample(["succeeded", "started", "failed", "submitted"] + customs.get(t, []),
                                      rng.randint(1, 2))
                    if "succeeded" in outs and "failed" in outs:
                        outs.remove("failed")
                    args = {"tasks": [f"{pnt}/{t}"], "flow": ["all"], "outputs": outs, "prerequisites": None}
                else:
                    keys = [a for ex in g[(pnt, t)]["prereqs"] for a in atoms_c(ex) if not a["pre"]]
                    if keys and rng.random() < 0.7:
                        a = rng.choice(keys)
                        pre = [f"{a['id'][0]}/{a['id'][1]}:{a['out']}"]
                    else:
                        pre = ["all"]
                    args = {"tasks": [f"{pnt}/{t}"], "flow": ["all"], "outputs": None, "prerequisites": pre}
                scn["ops"].append({"tick": tick, "cmd": "set", "args": args})
            elif kind == "remove":
                scn["ops"].append({"tick": tick, "cmd": "remove_tasks", "args": {"tasks": [f"{pnt}/{t}"], "flow": ["all"]}})
            else:
                sel = rng.sample(ids, rng.randint(1, min(3, len(ids))))
                scn["ops"].append({"tick": tick, "cmd": "force_trigger_tasks",
                                   "args": {"tasks": [f"{p_}/{t_}" for p_, t_ in sel], "flow": ["all"]}})
        scn["ops"].sort(key=lambda o: o["tick"])
    if feat.get("crash"):
        for _ in range(rng.choice([1, 1, 2])):
            scn["ops"].append({"tick": rng.randint(0, 10), "cmd": "crash", "stmts": rng.choice([0, 0, 1, 2, 3, 5, 8, 13])})
        scn["ops"].sort(key=lambda o: o["tick"])
        scn["baseline"] = True
    if feat.get("stop"):
        r = rng.random()
        tick = rng.randint(0, 8)
        if feat.get("stop") == "point":
            # always an early stop point strictly before the final point
            r, tick = 0.0, rng.randint(0, 2)
        if r < 0.4:
            scn["ops"].append({"tick": tick, "cmd": "stop", "args": {"mode": None, "cycle_point": str(
                rng.randint(icp, max(icp, fcp - 1)) if feat.get("stop") == "point" else rng.randint(icp, fcp))}})
        elif r < 0.65:
            g = sorted(instance_graph(scn)["inst"])
            pnt, t = rng.choice(g)
            scn["ops"].append({"tick": tick, "cmd": "stop", "args": {"mode": None, "task": f"{pnt}/{t}"}})
        else:
            scn["ops"].append({"tick": tick, "cmd": "stop", "args": {"mode": rng.choice(["REQUEST_CLEAN", "REQUEST_NOW", "REQUEST_NOW_NOW"])}})
        scn["ops"].sort(key=lambda o: o["tick"])
    if feat.get("queues") and rng.random() < 0.6:
        ms = rng.sample(tasks, rng.randint(1, len(tasks)))
        scn["queues"]["q1"] = {"limit": rng.choice([1, 1, 2]), "members": ms}
        if rng.random() < 0.3:
            scn["queues"]["default"] = {"limit": rng.choice([1, 2, 3]), "members": []}
    return scn


def optmap(scn):
    return {(t, o): v for t, o, v in scn["opt"]}


def render_flow(scn, extra_sched="", extra_runtime=None) -> str:
    opt = optmap(scn)
    out = ["[scheduler]", "    allow implicit tasks = True",
           "    [[events]]", "        stall timeout = PT0S", "        abort on stall timeout = False",
           "        inactivity timeout = PT10M",
           "[scheduling]", "    cycling mode = integer",
           f"    initial cycle point = {scn['icp']}", f"    final cycle point = {scn['fcp']}",
           f"    runahead limit = P{scn['runahead']}"]
    if extra_sched:
        out.append(extra_sched)
    if scn.get("sequential"):
        out.append("    [[special tasks]]")
        out.append(f"        sequential = {', '.join(scn['sequential'])}")
    if scn.get("queues"):
        out.append("    [[queues]]")
        for qn, q in scn["queues"].items():
            out.append(f"        [[[{qn}]]]")
            out.append(f"            limit = {q['limit']}")
            if q["members"]:
                out.append(f"            members = {', '.join(q['members'])}")
    out.append("    [[graph]]")
    for sec in scn["sections"]:
        out.append(f'        {sec["rec"]} = """')
        for ln in sec["lines"]:
            rhs = ln["rhs"] + ("?" if opt.get((ln["rhs"], "succeeded")) else "")
            if ln["lhs"] is None:
                out.append(f"            {rhs}")
            else:
                out.append(f"            {render_expr(ln['lhs'], opt)} => {rhs}")
        out.append('        """')
    out.append("[runtime]")
    out.append("    [[root]]")
    out.append("        script = true")
    for t in scn["tasks"]:
        out.append(f"    [[{t}]]")
        for k, v in (extra_runtime or {}).get(t, {}).items():
            out.append(f"        {k} = {v}")
        if t in scn.get("retries", {}):
            n_, m_ = scn["retries"][t]
            out.append(f"        execution retry delays = {n_}*PT{scn.get('retry_delay', 0)}S")
            if m_:
                out.append(f"        submission retry delays = {m_}*PT{scn.get('retry_delay', 0)}S")
        if scn["customs"].get(t):
            out.append("        [[[outputs]]]")
            for c in scn["customs"][t]:
                out.append(f"            {c} = msg-{c}")
    return "\n".join(out) + "\n"


# ---- reference semantics: the instance graph ---------------------------------
def instance_graph(scn) -> dict:
    """{(point, task): {"prereqs": [expr with concrete atoms], "valid": True}}
    plus children / parentless information.  Atom = {"id": (p, t), "out": o,
    "pre": bool (pre-initial: counts as satisfied), "abs": bool}."""
    icp, fcp = scn["icp"], scn["fcp"]
    start = scn.get("startcp", icp)
    seqs = {}          # task -> set of points
    for sec in scn["sections"]:
        pts = rec_points(sec["rec"], icp, fcp)
        for ln in sec["lines"]:
            seqs.setdefault(ln["rhs"], set()).update(pts)
    inst = {}
    for t, pts in seqs.items():
        for p in pts:
            inst[(p, t)] = {"prereqs": [], "children": {}}

    def conc(e, p):
        if "task" in e:
            if e.get("abs") is not None:
                up = icp + e["abs"]
                return {"id": [up, e["task"]], "out": e["out"], "pre": up < icp or (up < start <= p), "abs": True}
            up = p + e.get("off", 0)
            # pre-initial, or (warm start) before the start point: counts as satisfied
            return {"id": [up, e["task"]], "out": e["out"],
                    "pre": up < icp or (e.get("off", 0) != 0 and up < start <= p), "abs": False}
        return {"op": e["op"], "args": [conc(a, p) for a in e["args"]]}

    for sec in scn["sections"]:
        pts = rec_points(sec["rec"], icp, fcp)
        for ln in sec["lines"]:
            if ln["lhs"] is None:
                continue
            for p in pts:
                inst[(p, ln["rhs"])]["prereqs"].append(conc(ln["lhs"], p))
    # sequential tasks: implicit dependence on the previous instance having succeeded
    for t in scn.get("sequential", []):
        pts = sorted(seqs.get(t, ()))
        for i, p in enumerate(pts):
            if i > 0:
                inst[(p, t)]["prereqs"].append(
                    {"id": [pts[i - 1], t], "out": "succeeded", "pre": pts[i - 1] < start <= p, "abs": False})
    # children: output -> list of child ids
    for cid, d in inst.items():
        for e in d["prereqs"]:
            for a in atoms_c(e):
                if a["pre"]:
                    continue
                up = tuple(a["id"])
                if up in inst:
                    ch = inst[up]["children"].setdefault(a["out"], [])
                    if list(cid) not in ch:
                        ch.append(list(cid))
    return {"inst": inst, "seqs": {t: sorted(v) for t, v in seqs.items()}}


def atoms_c(e):
    if "id" in e:
        yield e
    else:
        for a in e["args"]:
            yield from atoms_c(a)


def eval_c(e, sat) -> bool:
    """sat: function atom -> bool"""
    if "id" in e:
        return bool(e["pre"] or sat(e))
    vals = [eval_c(a, sat) for a in e["args"]]
    return all(vals) if e["op"] == "and" else any(vals)
