"""Hand-written scenarios for the command properties (C28 trigger, C29 set, C30 remove): the shapes on which the
property clauses bite (offset in-group dependencies, held future members, forced outputs on inactive / retrying
tasks, a parent feeding several prerequisites of one child).  They run first in every check."""


def _scn(tasks, rec, lines, fcp=1, customs=None, opt_true=(), slow=None, ops=(), retries=None, runahead=2, extra=None):
    customs = customs or {}
    opt = []
    ref = {(t, "succeeded") for t in tasks}
    for ln in lines:
        if ln["lhs"] is not None:
            stack = [ln["lhs"]]
            while stack:
                e = stack.pop()
                if "task" in e:
                    ref.add((e["task"], e["out"]))
                else:
                    stack.extend(e["args"])
    for t, o in sorted(ref):
        opt.append([t, o, (t, o) in set(opt_true)])
    scn = {"icp": 1, "fcp": fcp, "tasks": list(tasks), "sections": [{"rec": rec, "lines": list(lines)}],
           "customs": customs, "opt": opt, "runahead": runahead, "queues": {}, "seed": 7, "fail_rate": 0,
           "custom_rate": 1.0, "disorder": 0, "ops": list(ops)}
    if slow:
        scn["slow"] = slow
        scn["max_ticks"] = 110
    if retries:
        scn["retries"] = retries
        scn["tries"] = {t: (n + 1) * (m + 1) for t, (n, m) in retries.items()}
    scn.update(extra or {})
    return scn


def _node(t):
    return {"lhs": None, "rhs": t}


def _at(t, out="succeeded", off=0):
    return {"task": t, "off": off, "out": out}


def c28_corpus():
    out = []
    # foo[-P1] => foo over 3 cycles, all three triggered at once: 2/foo and 3/foo must wait for their in-group parent
    out.append(_scn(["foo"], "P1", [_node("foo"), {"lhs": _at("foo", off=-1), "rhs": "foo"}], fcp=3, slow={"foo": 3},
                    ops=[{"tick": 0, "cmd": "force_trigger_tasks", "args": {"flow": ["all"], "tasks": ["1/foo", "2/foo", "3/foo"]}}]))
    # a[-P1] & b => c style: offset and same-cycle in-group parents
    out.append(_scn(["a", "b"], "P1", [_node("a"), _node("b"), {"lhs": _at("a", off=-1), "rhs": "a"},
                                       {"lhs": {"op": "and", "args": [_at("a"), _at("b", off=-1)]}, "rhs": "b"}], fcp=3,
                    slow={"a": 3},
                    ops=[{"tick": 1, "cmd": "force_trigger_tasks", "args": {"flow": ["all"], "tasks": ["2/a", "2/b", "3/b"]}}]))
    # a => b => c => z; the future member 1/b was held before the trigger: the trigger overrides the hold, each member runs
    chain = [_node("a"), _node("b"), _node("c"), _node("z"), {"lhs": _at("a"), "rhs": "b"}, {"lhs": _at("b"), "rhs": "c"},
             {"lhs": _at("c"), "rhs": "z"}]
    out.append(_scn(["a", "b", "c", "z"], "R1", chain, slow={"a": 5},
                    ops=[{"tick": 0, "cmd": "hold", "args": {"tasks": ["1/b"]}},
                         {"tick": 1, "cmd": "force_trigger_tasks", "args": {"flow": ["all"], "tasks": ["1/a", "1/b", "1/c"]}}]))
    out.append(_scn(["a", "b", "c", "z"], "R1", chain, slow={"a": 5},
                    ops=[{"tick": 0, "cmd": "hold", "args": {"tasks": ["1/c", "1/b"]}},
                         {"tick": 2, "cmd": "force_trigger_tasks", "args": {"flow": ["all"], "tasks": ["1/b", "1/c"]}}]))
    # fixed finding: a live group-start member with only 'submitted' complete must not satisfy a:succeeded => c
    out.append({'custom_rate': 1.0, 'customs': {'c': ['x', 'y']}, 'disorder': 0.2, 'fail_rate': 0.15, 'fcp': 2, 'icp': 1, 'ops': [{'args': {'tasks': ['2/b']}, 'cmd': 'release', 'tick': 4}, {'args': {'flow': ['all'], 'tasks': ['2/b', '2/c', '2/a']}, 'cmd': 'force_trigger_tasks', 'tick': 4}, {'args': {'tasks': ['2/c', '2/b']}, 'cmd': 'hold', 'tick': 7}, {'args': {'tasks': ['2/c', '2/b']}, 'cmd': 'release', 'tick': 8}], 'opt': [['a', 'succeeded', True], ['b', 'succeeded', True], ['c', 'succeeded', True]], 'queues': {'q1': {'limit': 2, 'members': ['a', 'c', 'b']}}, 'runahead': 3, 'sections': [{'lines': [{'lhs': None, 'rhs': 'a'}, {'lhs': None, 'rhs': 'b'}, {'lhs': None, 'rhs': 'c'}, {'lhs': {'off': 0, 'out': 'succeeded', 'task': 'a'}, 'rhs': 'c'}], 'rec': 'R1/$'}], 'seed': 460528142, 'tasks': ['a', 'b', 'c']})
    return out


def c29_corpus():
    out = []
    # a => b; b:started => c; b => d: set --out=succeeded on the not yet spawned 1/b: children of succeeded AND of the
    # implied started are spawned
    lines = [_node("a"), _node("b"), _node("c"), _node("d"), {"lhs": _at("a"), "rhs": "b"},
             {"lhs": _at("b", "started"), "rhs": "c"}, {"lhs": _at("b"), "rhs": "d"}]
    for outs in (["succeeded"], ["started"], None):
        out.append(_scn(["a", "b", "c", "d"], "R1", lines, slow={"a": 6},
                        ops=[{"tick": 1, "cmd": "set", "args": {"tasks": ["1/b"], "flow": ["all"], "outputs": outs,
                                                                 "prerequisites": None}}]))
    # foo:fail? => recover; foo? => archive; foo has retries left and is running: set --out=failed is definitive
    lines = [_node("foo"), _node("recover"), _node("archive"), {"lhs": _at("foo", "failed"), "rhs": "recover"},
             {"lhs": _at("foo"), "rhs": "archive"}]
    for tick in (2, 4):
        out.append(_scn(["foo", "recover", "archive"], "R1", lines, slow={"foo": 8}, retries={"foo": [2, 0]},
                        opt_true=[("foo", "succeeded"), ("foo", "failed")],
                        ops=[{"tick": tick, "cmd": "set", "args": {"tasks": ["1/foo"], "flow": ["all"], "outputs": ["failed"],
                                                                    "prerequisites": None}}]))
    # custom output set on a running task, and on a finished one
    lines = [_node("a"), _node("b"), _node("c"), {"lhs": _at("a", "x"), "rhs": "b"}, {"lhs": _at("a"), "rhs": "c"}]
    out.append(_scn(["a", "b", "c"], "R1", lines, customs={"a": ["x"]}, slow={"a": 6}, extra={"custom_rate": 0.0},
                    ops=[{"tick": 3, "cmd": "set", "args": {"tasks": ["1/a"], "flow": ["all"], "outputs": ["x"],
                                                             "prerequisites": None}}]))
    return out


def c30_corpus():
    out = []
    # a:x & a:y & z => c: removing 1/a unsets BOTH prerequisites of the waiting child
    lines = [_node("a"), _node("z"), _node("c"),
             {"lhs": {"op": "and", "args": [_at("a", "x"), {"op": "and", "args": [_at("a", "y"), _at("z")]}]}, "rhs": "c"}]
    for tick in (4, 6):
        out.append(_scn(["a", "z", "c"], "R1", lines, customs={"a": ["x", "y"]}, slow={"z": 30},
                        ops=[{"tick": tick, "cmd": "remove_tasks", "args": {"tasks": ["1/a"], "flow": ["all"]}}]))
    # two separate lines from the same parent (a:x => c ; a & z => c)
    lines = [_node("a"), _node("z"), _node("c"), {"lhs": _at("a", "x"), "rhs": "c"},
             {"lhs": {"op": "and", "args": [_at("a"), _at("z")]}, "rhs": "c"}]
    out.append(_scn(["a", "z", "c"], "R1", lines, customs={"a": ["x"]}, slow={"z": 30},
                    ops=[{"tick": 5, "cmd": "remove_tasks", "args": {"tasks": ["1/a"], "flow": ["all"]}}]))
    # remove a running task (known finding: its id stays in the hold set)
    out.append(_scn(["a", "b"], "R1", [_node("a"), _node("b"), {"lhs": _at("a"), "rhs": "b"}],
                    ops=[{"tick": 2, "cmd": "remove_tasks", "args": {"tasks": ["1/a"], "flow": ["all"]}}], runahead=1,
                    extra={"seed": 3}))
    # known finding: remove + set of the same instance in one iteration (the set sees the erased history)
    out.append({'custom_rate': 1.0, 'customs': {'a': ['x']}, 'disorder': 0.2, 'fail_rate': 0.0, 'fcp': 1, 'icp': 1, 'ops': [{'args': {'tasks': ['1/a']}, 'cmd': 'hold', 'tick': 3}, {'args': {'tasks': ['1/a']}, 'cmd': 'hold', 'tick': 4}, {'args': {'tasks': ['1/b']}, 'cmd': 'release', 'tick': 4}, {'args': {'point': '1'}, 'cmd': 'set_hold_point', 'tick': 5}, {'args': {'flow': ['all'], 'tasks': ['1/a']}, 'cmd': 'remove_tasks', 'tick': 6}, {'args': {'flow': ['all'], 'outputs': None, 'prerequisites': None, 'tasks': ['1/a']}, 'cmd': 'set', 'tick': 6}, {'args': {'flow': ['all'], 'outputs': None, 'prerequisites': ['all'], 'tasks': ['1/b']}, 'cmd': 'set', 'tick': 7}, {'args': {'tasks': ['1/a']}, 'cmd': 'release', 'tick': 8}, {'args': {'tasks': ['1/a']}, 'cmd': 'release', 'tick': 9}, {'args': {}, 'cmd': 'release_hold_point', 'tick': 10}], 'opt': [['a', 'succeeded', False], ['a', 'x', False], ['b', 'failed', True], ['b', 'succeeded', True]], 'queues': {}, 'runahead': 2, 'sections': [{'lines': [{'lhs': None, 'rhs': 'b'}, {'lhs': {'off': -1, 'out': 'succeeded', 'task': 'a'}, 'rhs': 'b'}, {'lhs': {'args': [{'off': -1, 'out': 'x', 'task': 'a'}, {'args': [{'off': -2, 'out': 'succeeded', 'task': 'a'}, {'off': -1, 'out': 'succeeded', 'task': 'a'}], 'op': 'or'}], 'op': 'and'}, 'rhs': 'b'}], 'rec': 'R1/$'}, {'lines': [{'lhs': None, 'rhs': 'a'}, {'lhs': None, 'rhs': 'b'}, {'lhs': {'off': -1, 'out': 'succeeded', 'task': 'b'}, 'rhs': 'a'}, {'lhs': {'off': -1, 'out': 'x', 'task': 'a'}, 'rhs': 'a'}, {'lhs': {'args': [{'off': -1, 'out': 'failed', 'task': 'b'}, {'off': 0, 'out': 'x', 'task': 'a'}], 'op': 'or'}, 'rhs': 'b'}], 'rec': 'P2'}], 'seed': 53602053, 'tasks': ['a', 'b']})
    # a ran in flow 1, is re-triggered in a NEW flow and then removed without --flow: the history of flow 1 goes too
    out.append(_scn(["a", "b", "z"], "R1", [_node("a"), _node("b"), _node("z"), {"lhs": _at("a"), "rhs": "b"}],
                    slow={"a": 3, "z": 40},
                    ops=[{"tick": 12, "cmd": "force_trigger_tasks", "args": {"flow": ["new"], "tasks": ["1/a"]}},
                         {"tick": 14, "cmd": "remove_tasks", "args": {"tasks": ["1/a"], "flow": []}}]))
    return out
