"""C32 extension of the shared scheduler driver (vp/sched/driver.py): clock expiry.

Nothing here edits /repo or the driver's own file; everything is done through the
driver's module globals / hook lists, once per implementation subprocess:

* **flow text**: the shared scenario generator only renders integer-cycling
  workflows; ``driver.S`` (looked up by ``run_scenario`` at call time) is replaced
  by a shim whose ``render_flow`` returns the scenario's own ``flow_text``.  The
  C32 workflows cycle over dates with ``cycle point format = CCYYMMDD`` so that the
  driver's ``int(str(point))`` conversions keep working (20000103 etc.).
* **virtual clock**: ``TaskProxy.clock_expire`` reads ``time()`` (the name imported
  into ``cylc.flow.task_proxy``).  That name is rebound to a function returning the
  scenario's clock value for the current main-loop iteration (the i-th call of
  ``TaskPool.clock_expire_tasks`` sees ``clock[i]``, seconds relative to the initial
  cycle point; the last value is kept afterwards).
* **checkpoints**: ``TaskPool.clock_expire_tasks`` and
  ``Scheduler.release_tasks_to_run`` are wrapped to record the pool in iteration
  order before the expiry pass (``expire_begin``), after it (``expire_end``) and after
  the release/submit step that follows it in the main loop (``rts_end``);
  ``TaskPool.spawn_on_output`` / ``remove_if_complete`` are wrapped with begin/end
  markers so that the spawns caused by an output can be told from the spawns caused by
  the removal of the task; ``TaskPool.queue_or_trigger`` (what `cylc trigger` does to its
  target) is wrapped to record the target before and after (``qot_begin`` / ``qot_end``).
"""
from __future__ import annotations

import calendar
import types

BASE = calendar.timegm((2000, 1, 1, 0, 0, 0))      # the initial cycle point of every C32 workflow
CLK = {"now": float(BASE), "iter": 0, "clock": [0]}
XREC: list = []      # (position in driver.REC, event): kept apart from the driver's trace so that the driver's
                     # "did anything happen in this iteration" test (quiescence) is not disturbed


def xev(kind, **kw):
    from vp.sched import driver
    kw["e"] = kind
    XREC.append((len(driver.REC), kw))


def merged_trace(trace):
    """The driver's trace with the checkpoint events put back at their positions."""
    out, j = [], 0
    for i, e in enumerate(trace):
        while j < len(XREC) and XREC[j][0] <= i:
            out.append(XREC[j][1])
            j += 1
        out.append(e)
    out.extend(x for _, x in XREC[j:])
    return out
_DONE = {"installed": False, "patched": False}


def day_of(point_int: int) -> int:
    """20000103 -> 2 (day index from the initial cycle point; January 2000 only)."""
    return int(point_int) - 20000101


def xview(pool, itask):
    """The driver's task view plus the fields of the expiry model."""
    from vp.sched import driver
    v = driver.task_view(itask)
    et = itask.expire_time
    inq = any(itask in q.deque for q in pool.task_queue_mgr.queues.values())
    try:
        nxt = itask.tdef.next_point_parentless(pool.config.start_point, itask.point)
        nxt = None if nxt is None or nxt > pool.config.final_point else int(str(nxt))
    except Exception:   # noqa
        nxt = "err"
    try:
        kids = sorted([int(str(p)), n] for n, p, _abs in itask.graph_children.get("expired", []))
    except Exception:   # noqa
        kids = "err"
    v.update({
        "expire": None if et is None else int(round(et - BASE)),
        "expire_exact": None if et is None else (float(et) == float(int(round(et)))),
        "inq": bool(inq),
        "trig": itask in pool.tasks_to_trigger_now,
        "has_flow": bool(itask.flow_nums),
        "next": nxt,
        "gkids": kids,
        "xseq": bool(itask.is_xtrigger_sequential),
    })
    del v["prereqs"], v["fsat"]
    return v


def pool_view(pool):
    return [xview(pool, t) for t in pool.get_tasks()]


def patch_expire():
    if _DONE["patched"]:
        return
    _DONE["patched"] = True
    from vp.sched import driver
    import cylc.flow.task_proxy as tp
    from cylc.flow.task_pool import TaskPool
    from cylc.flow.scheduler import Scheduler

    tp.time = lambda: CLK["now"]

    o_cet = TaskPool.clock_expire_tasks

    def n_cet(self):
        i = CLK["iter"]
        CLK["iter"] += 1
        ck = CLK["clock"]
        CLK["now"] = float(BASE + ck[min(i, len(ck) - 1)])
        xev("expire_begin", it=i, now=int(ck[min(i, len(ck) - 1)]), tasks=pool_view(self),
                  to_hold=sorted([int(str(p)), n] for n, p in self.tasks_to_hold),
                  hold_point=None if self.hold_point is None else int(str(self.hold_point)))
        try:
            return o_cet(self)
        finally:
            xev("expire_end", tasks=pool_view(self))
    TaskPool.clock_expire_tasks = n_cet

    o_rts = Scheduler.release_tasks_to_run

    def n_rts(self):
        xev("rts_begin", paused=bool(self.is_paused), stop=self.stop_mode is not None,
                  reload=bool(self.reload_pending), auto=self.auto_restart_time is not None)
        try:
            return o_rts(self)
        finally:
            xev("rts_end", tasks=pool_view(self.pool))
    Scheduler.release_tasks_to_run = n_rts

    o_soo = TaskPool.spawn_on_output

    def n_soo(self, itask, output, *a, **k):
        xev("soo_begin", id=driver.tid(itask), out=output, transient=bool(itask.transient))
        try:
            return o_soo(self, itask, output, *a, **k)
        finally:
            xev("soo_end", id=driver.tid(itask), out=output)
    TaskPool.spawn_on_output = n_soo

    o_qot = TaskPool.queue_or_trigger

    def n_qot(self, itask):
        xev("qot_begin", t=xview(self, itask), in_pool=self._get_task_by_id(itask.identity) is itask)
        try:
            return o_qot(self, itask)
        finally:
            xev("qot_end", t=xview(self, itask))
    TaskPool.queue_or_trigger = n_qot

    o_ric = TaskPool.remove_if_complete

    def n_ric(self, itask, output=None):
        xev("ric_begin", id=driver.tid(itask))
        r = o_ric(self, itask, output)
        xev("ric_end", id=driver.tid(itask), removed=bool(r))
        return r
    TaskPool.remove_if_complete = n_ric


def install(driver):
    """Hook the driver (idempotent)."""
    if _DONE["installed"]:
        return
    _DONE["installed"] = True
    driver.S = types.SimpleNamespace(render_flow=lambda scn: scn["flow_text"])
    o_qc = driver.queue_command

    async def queue_command(schd, name, kwargs):
        if name == "x_noop":
            # keeps the driver stepping (its quiescence test looks at the tick of the last operation)
            return True
        return await o_qc(schd, name, kwargs)
    driver.queue_command = queue_command
    driver.EXTRA_PATCHES.append(patch_expire)


def reset_run(clock):
    CLK.update({"now": float(BASE + clock[0]), "iter": 0, "clock": list(clock)})
    XREC.clear()


def start_info(schd):
    """Static facts of the loaded configuration (read once after start)."""
    from cylc.flow.task_outputs import get_completion_expression
    out = {}
    for name, td in schd.config.taskdefs.items():
        out[name] = {"comp": get_completion_expression(td),
                     "offset": None if td.expiration_offset is None else str(td.expiration_offset)}
    return out
