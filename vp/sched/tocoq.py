"""scenario + recorded trace  ->  Gallina term of type Pool.case"""
from __future__ import annotations

import json

from vp import coqfmt as q
from vp.sched import scen as S

STATUS = {"waiting": "Waiting", "expired": "Expired", "preparing": "Preparing",
          "submit-failed": "SubmitFailed", "submitted": "Submitted", "running": "Running",
          "failed": "Failed", "succeeded": "Succeeded"}


class Names:
    def __init__(self, scn):
        self.tasks = {t: i for i, t in enumerate(scn["tasks"])}
        self.outs = {o: i for i, o in enumerate(S.STD)}
        customs = sorted({c for cs in scn["customs"].values() for c in cs})
        for c in customs:
            self.outs[c] = len(self.outs)

    def tid(self, i):
        return f"({q.cz(int(i[0]))}, {q.cnat(self.tasks[i[1]])})"

    def out(self, o):
        if o.startswith("msg-"):
            o = o[4:]                  # prerequisite keys carry the output *message*
        if o not in self.outs:
            self.outs[o] = len(self.outs)      # unknown output name: gets a fresh number
        return q.cnat(self.outs[o])

    def key(self, k):
        return f"({self.tid(k[:2])}, {self.out(k[2])})"


def bx(e, nm: Names) -> str:
    if "id" in e:
        return f"(BAtom {nm.key([*e['id'], e['out']])} {q.cbool(e['pre'])})"
    args = [bx(a, nm) for a in e["args"]]
    ctor = "BAnd" if e["op"] == "and" else "BOr"
    t = args[-1]
    for a in reversed(args[:-1]):
        t = f"({ctor} {a} {t})"
    return t


def completion(scn, t, nm: Names) -> str:
    """Reference completion expression (the documented rule, C11), from the
    scenario's own optionality declarations."""
    opt = S.optmap(scn)
    req = sorted(o for (tt, o), v in opt.items() if tt == t and not v)
    parts = None
    if req:
        terms = [f"(CAtom {nm.out(o)})" for o in req]
        p = terms[-1]
        for a in reversed(terms[:-1]):
            p = f"(CAnd {a} {p})"
        parts = p
    succ_opt = opt.get((t, "succeeded")) is True or opt.get((t, "failed")) is True
    if succ_opt:
        if parts:
            parts = f"(COr (CAnd {parts} (CAtom {nm.out('succeeded')})) (CAtom {nm.out('failed')}))"
        else:
            parts = f"(COr (CAtom {nm.out('succeeded')}) (CAtom {nm.out('failed')}))"
    if opt.get((t, "submit-failed")) is True or opt.get((t, "submitted")) is True:
        sf = f"(CAtom {nm.out('submit-failed')})"
        parts = f"(COr {parts} {sf})" if parts else sf
    if opt.get((t, "expired")) is True:
        ex = f"(CAtom {nm.out('expired')})"
        parts = f"(COr {parts} {ex})" if parts else ex
    return parts or "CTrue"


def queue_of(scn, t):
    """queue index: 0 = default; the LAST queue listing the task wins."""
    qi = 0
    for i, (qn, qd) in enumerate(x for x in scn.get("queues", {}).items() if x[0] != "default"):
        if t in qd["members"]:
            qi = i + 1
    return qi


def cfg_term(scn, nm: Names) -> str:
    g = S.instance_graph(scn)
    insts = []
    for (p, t), d in sorted(g["inst"].items()):
        tries = scn.get("tries", {}).get(t, 1)
        insts.append(q.crecord(
            i_id=nm.tid([p, t]),
            i_pre=q.clist(bx(e, nm) for e in d["prereqs"]),
            i_comp=completion(scn, t, nm),
            i_queue=q.cnat(queue_of(scn, t)),
            i_tries=q.cnat(tries)))
    points = sorted({p for sec in scn["sections"] for p in S.rec_points(sec["rec"], scn["icp"], scn["fcp"])})
    qs = scn.get("queues", {})
    qlimits = [qs.get("default", {}).get("limit", 0)] + [qd["limit"] for qn, qd in qs.items() if qn != "default"]
    return q.crecord(
        c_insts=q.clist(insts), c_points=q.clist(q.cz(p) for p in points),
        c_runahead=q.cnat(scn["runahead"]), c_qlimits=q.clist(q.cnat(x) for x in qlimits),
        c_icp=q.cz(scn["icp"]), c_fcp=q.cz(scn["fcp"]), c_start=q.cz(scn.get("startcp", scn["icp"])),
        c_future=q.clist(q.cz(S.future_offset(scn, t)) for t in scn["tasks"]))


def sat_keys(view, icp, start=None):
    """satisfied keys of a task view that are not satisfied a priori (pre-initial, or upstream of the
    start point of a warm start for an instance at or after it)"""
    out = []
    p = view["id"][0]
    forced = view.get("fsat", [])
    for pre in view["prereqs"]:
        for k, v in pre:
            apriori = k[0] < icp or (start is not None and k[0] < start <= p and k[0] != p)
            if v and not apriori and k not in out and k not in forced:
                out.append(k)
    return out


def tview(v, nm: Names, icp, start=None) -> str:
    return q.crecord(
        v_id=nm.tid(v["id"]), v_status=STATUS[v["status"]], v_held=q.cbool(v["held"]),
        v_queued=q.cbool(v["queued"]), v_runahead=q.cbool(v["runahead"]),
        v_flows=q.clist(q.cnat(f) for f in v["flows"]),
        v_sat=q.clist(nm.key(k) for k in sat_keys(v, icp, start)),
        v_outs=q.clist(nm.out(o) for o in v["outputs"]),
        v_sn=q.cnat(v["submit_num"]),
        v_fsat=q.clist(nm.key(k) for k in v.get("fsat", [])))


def events(scn, trace, nm: Names) -> list[str]:
    icp = scn["icp"]
    start = scn.get("startcp")
    out = []
    building = None      # id of the proxy under construction inside spawn_task
    tracked = set()      # python ids of proxies returned by spawn_task (pool candidates);
                         # other TaskProxy objects (data-store ghost nodes ...) are not pool tasks
    manual_seen = set()
    removed = set()      # python ids of proxies that left the pool
    current = {}         # instance id -> python id of its latest incarnation (spawned or restored)
    loading = False      # between boot(restart) and loaded: the pool is being reloaded from the DB
    smode = {"AUTO": "SAuto", "REQUEST_CLEAN": "SClean", "REQUEST_KILL": "SKill", "REQUEST_NOW": "SNow",
             "REQUEST_NOW_NOW": "SNowNow", "AUTO_ON_TASK_FAILURE": "SAuto"}
    sreason = {"AUTOMATIC": "SAuto", "REQUEST(CLEAN)": "SClean", "REQUEST(KILL)": "SKill", "REQUEST(NOW)": "SNow",
               "REQUEST(NOW-NOW)": "SNowNow"}

    def opt_tid(x):
        if not x:
            return "None"
        pnt, name = x.split("/")
        return f"(Some {nm.tid([int(pnt), name])})"

    crashed = False
    erased = {}          # instance -> outputs whose record `cylc remove` erased (and that were not completed again)
    outs_of = {}         # instance -> outputs completed so far
    bc_ids = {"[]": 0}       # canonical broadcast table -> identifier
    bc_last = 0

    def bc_id(rows):
        return bc_ids.setdefault(json.dumps(rows, sort_keys=True), len(bc_ids))
    for e in trace:
        k = e["e"]
        if scn.get("bcast") and k == "restarted":
            bc_last = bc_id(e["snap"]["bcast"])
            out.append(f"EBcastLoaded {q.cnat(bc_last)}")
        if k == "crash":
            crashed = True
            continue
        if k == "boot" and e.get("restart"):
            loading = True
            out.append("ECrash" if crashed else "ERestart")
            continue
        if k == "loaded":
            if e.get("restart") and not crashed:
                out.append("ERestartDone")
            loading = False
            continue
        if k == "restarted" and crashed:
            sn = e["snap"]
            for key in sn.get("abs_done", []):
                out.append(f"EAbs {nm.key(key)}")        # what the database gave back
            out.append(f"EAdopt {q.clist(nm.tid(i) for i in sn['to_hold'])} {q.copt(sn['hold_point'], q.cz)} "
                       f"{q.cz(sn['stop_point'])} {opt_tid(sn.get('stop_task'))}")
            out.append("ERestartDone")
            crashed = False
        if loading and k == "add":
            tracked.add(e["t"]["obj"])
            current[tuple(e["t"]["id"])] = e["t"]["obj"]
            removed.discard(e["t"]["obj"])      # python may reuse the id of a freed object
            out.append(f"ERestore {tview(e['t'], nm, icp, start)}")
            continue
        if k == "spawn":
            tracked.add(e["t"]["obj"])
            current[tuple(e["t"]["id"])] = e["t"]["obj"]
            removed.discard(e["t"]["obj"])      # python may reuse the id of a freed object
        if k == "remove":
            removed.add(e["t"]["obj"])
            if current.get(tuple(e["t"]["id"])) == e["t"]["obj"]:
                del current[tuple(e["t"]["id"])]
        if (k in ("state", "output", "sat", "force_sat", "manual") and e.get("obj") in removed
                and current.get(tuple(e["id"]), e["obj"]) != e["obj"]):
            # a removed proxy object, while a newer incarnation of the instance exists: callbacks that kept
            # a reference to the old object (job submission / kill results) still update it
            if k == "output":
                for o in e["out"]:
                    out.append(f"EStaleOutput {nm.tid(e['id'])} {nm.out(o)}")
            elif k == "state" and e["new"][1] and not e["old"][1]:
                out.append(f"EStaleHold {nm.tid(e['id'])}")
            continue
        if k == "output" and e.get("obj") in tracked:
            outs_of.setdefault(tuple(e["id"]), set()).update(e["out"])
            erased.get(tuple(e["id"]), set()).difference_update(e["out"])
        if k == "cmd_remove":
            for i in e["ids"]:
                erased.setdefault(tuple(i), set()).update(outs_of.pop(tuple(i), set()))
        if k == "transient":
            t = e["t"]
            tracked.add(t["obj"])
            # (outputs read back from a database record that `cylc remove` erased earlier in the same iteration --
            # the erasure is only flushed at the end of the iteration -- are a known finding of C30, reported by the
            # oracle; the automaton is given the outputs that legitimately exist)
            keep = [o for o in t["outputs"] if o not in erased.get(tuple(t["id"]), set())]
            out.append(f"ETransient {nm.tid(t['id'])} {q.clist(q.cnat(f) for f in t['flows'])} "
                       f"{q.clist(nm.out(o) for o in keep)}")
            continue
        if k in ("state", "output", "sat", "force_sat", "manual") and e.get("obj") not in tracked:
            continue
        if k == "manual":
            if e["obj"] not in manual_seen:
                manual_seen.add(e["obj"])
                out.append(f"EManual {nm.tid(e['id'])}")
            continue
        if k == "state" and e.get("manual") and e["obj"] not in manual_seen:
            manual_seen.add(e["obj"])
            out.append(f"EManual {nm.tid(e['id'])}")
        if k == "force_sat":
            keys = [m for m in e["new"] if m[0] >= icp]
            if keys:
                out.append(f"EForceSat {nm.tid(e['id'])} {q.clist(nm.key(m) for m in keys)}")
            continue
        if k == "cmd_remove":
            for i in e["ids"]:
                out.append(f"ECmdRemove {nm.tid(i)}")
            continue
        if k == "spawn_begin":
            building = e["id"]
            continue
        if k in ("spawn", "spawn_none"):
            building = None
        if building is not None and k in ("state", "output") and e.get("id") == building:
            continue
        if k == "spawn":
            t = e["t"]
            out.append(f"ESpawn {nm.tid(t['id'])} {q.clist(q.cnat(f) for f in t['flows'])} "
                       f"{q.clist(nm.key(x) for x in sat_keys(t, icp, start))} {q.cbool(t['held'])}")
            if t["status"] != "waiting" or t["outputs"] or t["submit_num"]:
                out.append(f"ESpawnHist {nm.tid(t['id'])} {STATUS[t['status']]} "
                           f"{q.clist(nm.out(o) for o in t['outputs'])} {q.cnat(t['submit_num'])}")
        elif k == "add":
            out.append(f"EAdd {nm.tid(e['t']['id'])}")
        elif k == "sat":
            if e["msgs"] == "many":
                msgs = e["new"]
            else:
                msgs = e["msgs"]
            out.append(f"ESat {nm.tid(e['id'])} {q.clist(nm.key(m) for m in msgs)} "
                       f"{q.clist(nm.key(m) for m in e['new'] if m[0] >= icp)}")
        elif k == "output":
            for o in e["out"]:
                out.append(f"EOutput {nm.tid(e['id'])} {nm.out(o)}")
        elif k == "state":
            st, h, qd, r = e["new"]
            ctor = "EStateForced" if e.get("forced") else "EState"
            out.append(f"{ctor} {nm.tid(e['id'])} {STATUS[st]} {q.cbool(h)} {q.cbool(qd)} {q.cbool(r)}")
        elif k == "release_begin":
            out.append("EReleaseBegin")
        elif k == "release":
            out.append(f"ERelease {q.clist(nm.tid(i) for i in e['ids'])}")
        elif k == "submit":
            for p, n, sn in e["jobs"]:
                out.append(f"ESubmit {nm.tid([p, n])} {q.cnat(sn)}")
        elif k == "remove":
            out.append(f"ERemove {nm.tid(e['t']['id'])} {q.cbool(e['reason'] == 'completed')}")
        elif k == "limit":
            out.append(f"ELimit {q.copt(e['limit'], q.cz)}")
        elif k == "abs":
            out.append(f"EAbs {nm.key(e['key'])}")
        elif k == "merge":
            out.append(f"EMerge {nm.tid(e['id'])} {q.clist(q.cnat(f) for f in e['flows'])}")
        elif k in ("tick_end", "started", "restarted"):
            sn = e["snap"]
            if scn.get("bcast") and bc_id(sn["bcast"]) != bc_last:
                bc_last = bc_id(sn["bcast"])
                out.append(f"EBcast {q.cnat(bc_last)}")
            out.append(f"ETickEnd {q.clist(tview(v, nm, icp, start) for v in sn['tasks'])} "
                       f"{q.clist(nm.tid(i) for i in sn['to_hold'])} {q.copt(sn['hold_point'], q.cz)}")
            if sn["stop_point"] is not None:
                out.append(f"EParams {q.cz(sn['stop_point'])} {opt_tid(sn.get('stop_task'))}")
            if scn.get("bcast") and k == "tick_end" and isinstance(sn.get("bcast_db"), list):
                out.append(f"EBcastDb {q.cnat(bc_id(sn['bcast_db']))}")
        elif k == "cmd_hold":
            out.append(f"ECmdHold {q.clist(nm.tid(i) for i in e['ids'])}")
        elif k == "cmd_release":
            out.append(f"ECmdRelease {q.clist(nm.tid(i) for i in e['ids'])}")
        elif k == "cmd_hold_point":
            out.append(f"ECmdHoldPoint {q.cz(e['point'])}")
        elif k == "cmd_release_hold_point":
            out.append("ECmdReleaseHoldPoint")
        elif k == "remove_begin":
            out.append(f"ERemoveBegin {nm.tid(e['id'])}")
        elif k == "auto_shutdown_ok":
            out.append("EShutdownAuto")
        elif k == "shutdown":
            if scn.get("bcast") and "snap" in e and bc_id(e["snap"]["bcast"]) != bc_last:
                bc_last = bc_id(e["snap"]["bcast"])
                out.append(f"EBcast {q.cnat(bc_last)}")
            if e["reason"] in sreason:
                out.append(f"EShutdownReq {sreason[e['reason']]}")
        elif k == "cmd_stop":
            if e["mode"] in smode:
                out.append(f"ECmdStop {smode[e['mode']]}")
        elif k == "cmd_stop_point":
            out.append(f"ECmdStopPoint {q.cz(e['point'])}")
        elif k == "cmd_stop_task":
            out.append(f"ECmdStopTask {opt_tid(e['task'])}")
        elif k == "stop_task_done":
            out.append("EStopTaskDone")
    return out


def case_term(scn, trace) -> str:
    nm = Names(scn)
    evs = events(scn, trace, nm)          # first: may register unknown outputs
    return q.crecord(k_cfg=cfg_term(scn, nm), k_trace=q.clist(f"({x})" for x in evs))
