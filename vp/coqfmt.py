"""Printers from Python values to Gallina terms (text).

All emitters return strings that are closed Gallina terms under
`Import ListNotations. Open Scope string_scope.` with Z/N/nat scopes written
explicitly, so that mixed literals never depend on the ambient scope.
"""


def cnat(n: int) -> str:
    assert isinstance(n, int) and 0 <= n < 5000, n
    return f"{n}%nat"


def cz(n: int) -> str:
    assert isinstance(n, int)
    return f"({n})%Z"


def cN(n: int) -> str:
    assert isinstance(n, int) and n >= 0
    return f"{n}%N"


def cpos(n: int) -> str:
    assert isinstance(n, int) and n >= 1
    return f"{n}%positive"


def cbool(b) -> str:
    return "true" if b else "false"


def cstr(s: str) -> str:
    """Coq string literal. Only printable ASCII is emitted verbatim; use
    ccodes() for arbitrary text."""
    assert all(32 <= ord(ch) < 127 for ch in s), repr(s)
    return '"' + s.replace('"', '""') + '"%string'


def ccodes(s: str) -> str:
    """Arbitrary text as a list of code points (list Z)."""
    return clist(cz(ord(ch)) for ch in s)


def clist(items) -> str:
    items = list(items)
    return "[" + "; ".join(items) + "]"


def copt(x, f=None) -> str:
    if x is None:
        return "None"
    return f"(Some {f(x) if f else x})"


def cpair(a: str, b: str) -> str:
    return f"({a}, {b})"


def ctuple(*xs) -> str:
    return "(" + ", ".join(xs) + ")"


def capp(fn: str, *args) -> str:
    return "(" + " ".join([fn, *args]) + ")"


def crecord(**fields) -> str:
    return "{| " + "; ".join(f"{k} := {v}" for k, v in fields.items()) + " |}"
