#!/venv/bin/python
"""Regenerate MANIFEST.json from the property modules that exist."""
import importlib
import json
import sys
from pathlib import Path

VERIF = Path(__file__).resolve().parent.parent
sys.path.insert(0, str(VERIF))


def main():
    props = [json.loads(l) for l in (VERIF / "properties.jsonl").read_text().splitlines() if l.strip()]
    checks, na = [], []
    ready = set((VERIF / "vp" / "ready.txt").read_text().split())
    try:
        prev = {c["property_id"]: c for c in json.loads((VERIF / "MANIFEST.json").read_text())["checks"]}
    except Exception:
        prev = {}
    try:
        import subprocess
        old = json.loads(subprocess.run(["git", "-C", str(VERIF), "show", "HEAD~1:MANIFEST.json"], capture_output=True,
                                        text=True).stdout)
        for c in old.get("checks", []):
            prev.setdefault(c["property_id"], c)
    except Exception:
        pass
    for p in props:
        pid = p["id"]
        modf = VERIF / "vp" / "props" / f"{pid.lower()}.py"
        propv = VERIF / "coq" / "theories" / "Props" / f"{pid}.v"
        if modf.exists() and propv.exists() and pid in ready:
            try:
                mod = importlib.import_module(f"vp.props.{pid.lower()}")
                m = getattr(mod, "META", None)
            except Exception:
                m = None
            if m is None and pid in prev:
                # the module is being edited right now (a worker is extending it): keep the registered entry
                checks.append(prev[pid])
                continue
            if m and not m.get("disabled"):
                checks.append({
                    "property_id": pid,
                    "quick_cmd": f"./vp/check.py {pid} --tier quick",
                    "thorough_cmd": f"./vp/check.py {pid} --tier thorough",
                    "evidence_file": f"/verif/evidence/{pid}.json",
                    "replay_cmd_template": f"./vp/check.py {pid} --replay {{path}}",
                    "engine": "coq-proof+correspondence",
                    "level_claimed": {"category": "proof", "text": m["level_text"],
                                      "design_ref": m.get("design_ref", f"5/{pid}")},
                    "level_note": m["level_note"],
                    "technique": m["technique"],
                })
                continue
            reason = (m or {}).get("disabled") or "check module present but not yet registered"
        else:
            reason = "not claimed: the Coq model/theorems and correspondence stream for this property are not built yet (see DESIGN.md section 10)"
        na.append({"property_id": pid, "reason": reason})
    man = {
        "version": 1,
        "setup_cmd": "./vp/setup.sh",
        "hooks": {
            "guard": "CYLC_FLOW_VERIF",
            "enable": "no source hooks: the harness replaces attributes on live objects (process pool, clock, sqlite connection) from outside; CYLC_FLOW_VERIF=1 is set for the implementation subprocesses but nothing in /repo reads it",
            "baseline_off_cmd": "cd /repo && /venv/bin/python -m pytest -ra -q -p no:cacheprovider --timeout=900 --continue-on-collection-errors",
            "source_commits": [],
            "add_only": True,
        },
        "engines": [{
            "name": "coq-proof+correspondence",
            "path": "/verif/vp/check.py",
            "serves_properties": [c["property_id"] for c in checks],
            "kind_free_text": "Coq 8.16.1 theorems over hand-written Gallina models (coq/theories), tied to /repo on every run by differential correspondence evaluated inside Coq (vm_compute) plus a property oracle on the implementation",
        }],
        "checks": checks,
        "not_applicable": na,
        "notes": "Every check: lint (no Admitted/Axiom/...), regenerate Gen/*.v, make Props/Cxx.vo, Print Assumptions, run implementation + model on the same generated cases, oracle, known findings (known_findings.json).",
    }
    (VERIF / "MANIFEST.json").write_text(json.dumps(man, indent=1) + "\n")
    print(f"MANIFEST.json: {len(checks)} checks, {len(na)} not claimed")


if __name__ == "__main__":
    main()
