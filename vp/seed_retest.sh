#!/bin/bash
# usage: seed_retest.sh -- for every seeded/<id>/tests<k>.txt listing failures that the clean-tree baseline run did not have,
# re-run exactly those tests alone with the patch applied (and, if any still fails, on the clean tree) and append the outcome
mkdir -p /var/tmp/seedtests
for f in /verif/seeded/C*/tests*.txt; do
  grep -q "^# re-run alone" "$f" && continue
  ids=$(grep -E "^(FAILED|ERROR) " "$f" | sed 's/^[A-Z]* //' | sort -u)
  [ -z "$ids" ] && { echo "# re-run alone: nothing to re-run (no failure beyond the clean-tree baseline)" >> "$f"; continue; }
  d=$(dirname $f); id=$(basename $d); k=$(basename $f .txt | sed 's/tests//')
  wt=/var/tmp/seedtests/re$id$k
  git -C /repo worktree add --detach $wt HEAD >/dev/null 2>&1
  git -C $wt apply $d/patch$k.diff 2>/dev/null
  r1=$(cd $wt && PATH=/venv/bin:$PATH timeout 1500 /venv/bin/python -m pytest -q -p no:cacheprovider --timeout=600 -n 2 $ids 2>&1 | tail -1)
  echo "# re-run alone with the patch: $r1" >> "$f"
  if echo "$r1" | grep -q "failed\|error"; then
    git -C $wt checkout -- . >/dev/null 2>&1
    r2=$(cd $wt && PATH=/venv/bin:$PATH timeout 1500 /venv/bin/python -m pytest -q -p no:cacheprovider --timeout=600 -n 2 $ids 2>&1 | tail -1)
    echo "# re-run alone on the clean tree: $r2" >> "$f"
  fi
  git -C /repo worktree remove --force $wt
done
echo RETESTDONE
