"""C28 — commands: pool automaton + real scheduler runs with the command."""
from vp.sched.stream import SchedStream
from vp.props.c01 import TRUSTED, ASSUMES  # noqa
from vp.sched import corpora

STREAMS = [SchedStream('C28', name='sched-trigger', feat={'trigger': True, 'hold': True, 'queues': True}, n_quick=32, n_thorough=700, corpus=corpora.c28_corpus())]
META = {
    "level_text": "Partial. Coq theorems: a member not itself force-started is submitted only when every prerequisite atom is pre-initial, force-satisfied (off-group) or really completed earlier (in-group order); force-satisfaction touches only the member's own prerequisites; only manually triggered tasks override holds and queue limits; no duplicate submissions. Tie: real runs with cylc trigger on generated groups (pooled, live, finished and unspawned members, held members, limited queues) accepted by the automaton. 'Each member runs exactly once more' and 'a live group-start member is left to finish' are decided per scenario by the oracle, not by a theorem.",
    "level_note": TRUSTED[0] + " Commands use --flow=all only; new/none flows are not generated.",
    "technique": 'Coq corollaries of the pool-automaton invariant + in-Coq validation of real runs with cylc trigger + per-trigger oracle',
    "design_ref": "5/C28",
}
