"""C46 — warm starts (pool automaton + real runs started with --startcp)."""
from vp.sched.stream import SchedStream
from vp.props.c01 import TRUSTED, ASSUMES  # noqa

_DEEP = {  # foo[-P2] => foo, warm start at 4 of 1..8: 4/foo AND 5/foo have only pre-start parents
    "icp": 1, "fcp": 8, "startcp": 4, "options": {"startcp": "4"}, "tasks": ["foo"],
    "sections": [{"rec": "P1", "lines": [{"lhs": None, "rhs": "foo"},
                                          {"lhs": {"task": "foo", "off": -2, "out": "succeeded"}, "rhs": "foo"}]}],
    "customs": {}, "opt": [["foo", "succeeded", False]], "runahead": 2, "queues": {}, "seed": 9, "fail_rate": 0,
    "custom_rate": 1.0, "disorder": 0, "ops": []}
STREAMS = [SchedStream("C46", name="sched-warm", feat={"warm": True, "abs": True, "sequential": True},
                       n_quick=28, n_thorough=600, extra_oracles=["C01"]),
           # longer runs with deeper offsets: several instances after the start point whose parents are ALL before it
           SchedStream("C46", name="sched-warm-deep", feat={"warm": True, "deep_offsets": True, "max_fcp": 7},
                       n_quick=24, n_thorough=500, extra_oracles=["C01"], corpus=[_DEEP])]
META = {
    "level_text": ("Coq theorems over the pool automaton: no instance before the start point is ever spawned; a submission needs every "
                   "prerequisite true over outputs completed in the run or atoms marked pre-satisfied, and the harness marks exactly the "
                   "pre-initial atoms and (for instances at/after the start point) atoms on instances before the start point. Tie: real "
                   "runs started with --startcp at generated points over generated graphs (offsets, absolute triggers, sequential "
                   "tasks) accepted by the automaton; oracle checks pool additions, submissions and initial satisfaction directly. "
                   "Start tasks (--start-task) are not covered (partial)."),
    "level_note": TRUSTED[0],
    "technique": "Coq proof on the pool automaton + in-Coq validation of warm-start traces + oracle",
    "design_ref": "5/C46",
}
