"""C07 — scheduler-level check: pool automaton (Model/Pool.v) + real scheduler traces."""
from vp.sched.stream import SchedStream

TRUSTED = ["Model/Pool.v is a hand-written specification automaton over the workflow's instance graph; the instance graph, completion rule and runahead spec are computed by the harness from the generated graph AST independently of cylc. Trusted: Coq kernel+VM; the in-process driver (vp/sched/driver.py: fake process pool, method wrappers recording events); the scenario generator and its reference semantics (vp/sched/scen.py); integer cycling only; no datetime cycling."]
ASSUMES = ["integer cycling; no manual intervention in these scenarios; jobs are simulated by the harness (no real job runs)"]
STREAMS = [SchedStream('C07', name="sched", feat={'abs': True}, extra_oracles=[])]
META = {
    "level_text": 'Coq theorems (invariant over all accepted traces): every pooled or just-spawned task is an instance of the graph (on one of its sequences) between the initial and final points; a spawn outside is rejected; the accepted runahead limit never exceeds the stop point. Tie: real runs accepted by the automaton; oracle checks every add_to_pool and submission against the independently enumerated recurrences.',
    "level_note": "Model/Pool.v is a hand-written specification automaton over the workflow's instance graph; the instance graph, completion rule and runahead spec are computed by the harness from the generated graph AST independently of cylc. Trusted: Coq kernel+VM; the in-process driver (vp/sched/driver.py: fake process pool, method wrappers recording events); the scenario generator and its reference semantics (vp/sched/scen.py); integer cycling only; no datetime cycling.",
    "technique": 'Coq invariant proof + trace validation + independent recurrence enumeration oracle',
    "design_ref": "5/C07",
}

# the stop-point clause under the mechanisms that move the runahead limit or queue tasks: future triggers
# (limit pushed out by the offset, but never beyond the stop point) and hold/release of runahead-limited tasks
STREAMS.append(SchedStream('C07', name="sched-future-stop", feat={'future': True, 'stop': 'point', 'max_fcp': 6},
                           n_quick=28, n_thorough=500, extra_oracles=['C04']))
_QUEUED_BEYOND_STOP = {'custom_rate': 0.7, 'customs': {}, 'disorder': 0.2, 'fail_rate': 0.15, 'fcp': 4, 'icp': 1, 'ops': [{'args': {'tasks': ['4/b', '4/c', '1/c']}, 'cmd': 'hold', 'tick': 0}, {'args': {'cycle_point': '3', 'mode': None}, 'cmd': 'stop', 'tick': 0}, {'args': {'point': '3'}, 'cmd': 'set_hold_point', 'tick': 2}, {'args': {'point': '4'}, 'cmd': 'set_hold_point', 'tick': 5}, {'args': {'tasks': ['4/c']}, 'cmd': 'hold', 'tick': 6}, {'args': {'tasks': ['4/c']}, 'cmd': 'release', 'tick': 6}, {'args': {}, 'cmd': 'release_hold_point', 'tick': 7}, {'args': {'tasks': ['4/c']}, 'cmd': 'release', 'tick': 11}], 'opt': [['a', 'succeeded', False], ['b', 'succeeded', False], ['c', 'succeeded', False]], 'queues': {}, 'runahead': 2, 'sections': [{'lines': [{'lhs': None, 'rhs': 'c'}], 'rec': 'P3'}, {'lines': [{'lhs': None, 'rhs': 'a'}, {'lhs': None, 'rhs': 'b'}, {'lhs': None, 'rhs': 'c'}], 'rec': 'R1/$'}], 'seed': 550938157, 'tasks': ['a', 'b', 'c']}   # fixed finding b754f2a: a queued task beyond a newly set stop point
STREAMS.append(SchedStream('C07', name="sched-hold-stop", feat={'hold': True, 'stop': 'point'},
                           n_quick=28, n_thorough=500, extra_oracles=['C04', 'C06'], corpus=[_QUEUED_BEYOND_STOP]))
