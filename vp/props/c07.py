"""C07 — scheduler-level check: pool automaton (Model/Pool.v) + real scheduler traces."""
from vp.sched.stream import SchedStream

TRUSTED = ["Model/Pool.v is a hand-written specification automaton over the workflow's instance graph; the instance graph, completion rule and runahead spec are computed by the harness from the generated graph AST independently of cylc. Trusted: Coq kernel+VM; the in-process driver (vp/sched/driver.py: fake process pool, method wrappers recording events); the scenario generator and its reference semantics (vp/sched/scen.py); integer cycling only; no datetime cycling."]
ASSUMES = ["integer cycling; no manual intervention in these scenarios; jobs are simulated by the harness (no real job runs)"]
STREAMS = [SchedStream('C07', name="sched", feat={'abs': True}, extra_oracles=[])]
META = {
    "level_text": 'Coq theorems (invariant over all accepted traces): every pooled or just-spawned task is an instance of the graph (on one of its sequences) between the initial and final points; a spawn outside is rejected; the accepted runahead limit never exceeds the stop point. Tie: real runs accepted by the automaton; oracle checks every add_to_pool and submission against the independently enumerated recurrences.',
    "level_note": "Model/Pool.v is a hand-written specification automaton over the workflow's instance graph; the instance graph, completion rule and runahead spec are computed by the harness from the generated graph AST independently of cylc. Trusted: Coq kernel+VM; the in-process driver (vp/sched/driver.py: fake process pool, method wrappers recording events); the scenario generator and its reference semantics (vp/sched/scen.py); integer cycling only; no datetime cycling.",
    "technique": 'Coq invariant proof + trace validation + independent recurrence enumeration oracle',
    "design_ref": "5/C07",
}
