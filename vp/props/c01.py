"""C01 — scheduler-level check: pool automaton (Model/Pool.v) + real scheduler traces."""
from vp.sched.stream import SchedStream

TRUSTED = ["Model/Pool.v is a hand-written specification automaton over the workflow's instance graph; the instance graph, completion rule and runahead spec are computed by the harness from the generated graph AST independently of cylc. Trusted: Coq kernel+VM; the in-process driver (vp/sched/driver.py: fake process pool, method wrappers recording events); the scenario generator and its reference semantics (vp/sched/scen.py); integer cycling only; no datetime cycling."]
ASSUMES = ["integer cycling; no manual intervention in these scenarios; jobs are simulated by the harness (no real job runs)"]
_ABS_PREINITIAL = {'custom_rate': 1.0, 'customs': {}, 'disorder': 0.0, 'fail_rate': 0.0, 'fcp': 2, 'icp': 1, 'ops': [], 'opt': [['a', 'failed', True], ['a', 'succeeded', True], ['b', 'failed', True], ['b', 'started', False], ['b', 'succeeded', True]], 'queues': {}, 'runahead': 4, 'sections': [{'lines': [{'lhs': None, 'rhs': 'a'}, {'lhs': None, 'rhs': 'b'}, {'lhs': {'off': -2, 'out': 'failed', 'task': 'a'}, 'rhs': 'a'}, {'lhs': {'abs': 0, 'out': 'succeeded', 'task': 'b'}, 'rhs': 'a'}], 'rec': 'P1'}], 'seed': 1068482917, 'tasks': ['a', 'b']}   # known finding: absolute trigger + pre-initial offset
STREAMS = [SchedStream('C01', name="sched", feat={'abs': True}, extra_oracles=['C07'], corpus=[_ABS_PREINITIAL])]
META = {
    "level_text": 'Coq theorems over the pool automaton (Model/Pool.v), for all instance graphs and all accepted traces: a submission is accepted only for a graph instance within bounds, in the preparing state, with every prerequisite expression true over outputs actually completed earlier (induction over the trace with the invariant of Proofs/PoolProofs.v); accepted auto-shutdown leaves nothing runnable. Tie: every real scheduler run of generated workflows (outcomes and delivery orders from the seed) must be accepted by the automaton event by event, with abstract pool = real pool at each tick end. The closure-equality (completeness) half is checked per run by the oracle, not proved (partial).',
    "level_note": "Model/Pool.v is a hand-written specification automaton over the workflow's instance graph; the instance graph, completion rule and runahead spec are computed by the harness from the generated graph AST independently of cylc. Trusted: Coq kernel+VM; the in-process driver (vp/sched/driver.py: fake process pool, method wrappers recording events); the scenario generator and its reference semantics (vp/sched/scen.py); integer cycling only; no datetime cycling.",
    "technique": 'Coq invariant proof over a trace-accepting pool automaton + in-Coq trace validation of real scheduler runs + closure oracle',
    "design_ref": "5/C01",
}
# nested mixed AND/OR trigger expressions with some slow jobs: the atoms of one expression become true at
# well separated times, so a submission before the expression is true shows
STREAMS.append(SchedStream('C01', name="sched-nest", feat={'nest': True, 'slow': True}, n_quick=28, n_thorough=600))
