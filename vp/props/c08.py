"""C08 — flow numbers propagate, merge and are never reused: the FlowMgr part
(cylc/flow/flow_mgr.py + the workflow_flows table of cylc/flow/rundb.py).

Component level: the real FlowMgr on a real WorkflowDatabaseManager / sqlite
database in a temp dir, with clean restarts (flush, new manager, load_from_db)
between operations.  (Spawn/merge of flow numbers in the task pool is checked by
the scheduler-level stream appended elsewhere.)
"""
import itertools

from vp.core import Stream
from vp import coqfmt as q

TRUSTED = [
    "hand model Model/Flow.v of FlowMgr.get_flow/cli_to_flow_nums/load_from_db and of the workflow_flows table "
    "(INSERT OR REPLACE on process_queued_ops, MAX(flow_num), SELECT ... WHERE flow_num IN (...))",
    "sqlite3 (the harness opens the databases with PRAGMA synchronous=OFF, for speed only)",
]
ASSUMES = [
    "restarts are clean (queued DB inserts are written at shutdown); a crash between allocation and commit is C20",
    "--flow values were validated by the command layer (integers, or exactly [new] / [none])",
]


def _ops(rng, n):
    ops = []
    for _ in range(n):
        x = rng.random()
        if x < 0.35:
            ops.append(["get", None])
        elif x < 0.55:
            ops.append(["get", rng.choice([1, 2, 3, 4, 5, 6, 7, 8, 2, 3, 0, -1, 12])])
        elif x < 0.63:
            ops.append(["cli", "new"])
        elif x < 0.73:
            ops.append(["cli", [rng.randint(1, 9) for _ in range(rng.randint(1, 3))]])
        elif x < 0.75:
            ops.append(["cli", "none"])
        elif x < 0.85:
            ops.append(["flush"])
        else:
            ops.append(["restart", sorted(rng.sample(range(0, 10), rng.randint(0, 4)))])
    return ops


class FlowMgrStream(Stream):
    name = "flowmgr"
    coq_import = "From Cylc Require Import Model.Flow."
    check_fn = "Flow.check_case"
    show_fn = "Flow.model_out"
    rule = ("random histories of get_flow(new | given number incl. 0, negative, out of sequence), cli_to_flow_nums "
            "(new/none/number lists), process_queued_ops and clean restarts with load_from_db(random selection) on a "
            "real sqlite DB; kind empty_restart = restart before any flow exists; non-trivial = a restart is followed "
            "by a new-flow allocation; thorough adds every history of length <= 4 over a 6-letter alphabet")
    n_hashseeds = 4
    shard_size = 300
    needs_scratch_home = True

    def corpus(self):
        return [
            # the unit test's sequence, then restarts
            {"ops": [["get", None], ["get", None], ["get", 2], ["get", 4], ["get", None], ["get", None],
                     ["restart", [1]], ["get", None], ["get", 3], ["restart", []], ["cli", "new"]], "kind": "valid"},
            # out-of-sequence manual number, restart selecting nothing, new must skip it
            {"ops": [["get", None], ["get", 7], ["restart", []], ["get", None], ["get", None]], "kind": "valid"},
            # restart with an empty table: counter becomes None
            {"ops": [["restart", []], ["get", 3], ["get", None]], "kind": "empty_restart"},
            {"ops": [["cli", [3, 1, 3]], ["cli", "none"], ["cli", "new"], ["flush"], ["restart", [3]], ["cli", "new"]],
             "kind": "valid"},
        ]

    def gen(self, rng, tier):
        cases = []
        n = 220 if tier == "quick" else 4000
        for _ in range(n):
            ops = _ops(rng, rng.randint(3, 18))
            cases.append({"ops": ops, "kind": self._kind(ops)})
        if tier == "thorough":
            alpha = [["get", None], ["get", 1], ["get", 2], ["get", 3], ["restart", []], ["restart", [1, 2, 3]]]
            for k in range(1, 5):
                for seq in itertools.product(alpha, repeat=k):
                    ops = [list(o) for o in seq]
                    cases.append({"ops": ops, "kind": "exhaustive4" if self._kind(ops) == "valid" else "empty_restart"})
        return cases

    @staticmethod
    def _kind(ops):
        """empty_restart: some restart happens while no flow has been recorded yet"""
        recorded = False
        for o in ops:
            if o[0] == "restart" and not recorded:
                return "empty_restart"
            if o[0] == "get" or (o[0] == "cli" and o[1] != "none"):
                recorded = True
        return "valid"

    # ------------------------------------------------------------ driver
    def impl(self, cases):
        import logging
        import os
        import shutil
        import tempfile
        from cylc.flow import LOG
        from cylc.flow.flow_mgr import FlowMgr
        from cylc.flow.workflow_db_mgr import WorkflowDatabaseManager
        LOG.setLevel(logging.CRITICAL + 1)
        # speed only: no fsync per commit (durability is not the subject here; C20/C21 cover it)
        import sqlite3
        import cylc.flow.rundb as rundb

        class _Sqlite3NoSync:
            def __getattr__(self, k):
                return getattr(sqlite3, k)

            @staticmethod
            def connect(*a, **kw):
                conn = sqlite3.connect(*a, **kw)
                conn.execute("PRAGMA synchronous=OFF")
                return conn
        rundb.sqlite3 = _Sqlite3NoSync()
        out = []
        base = tempfile.mkdtemp(prefix="c08-", dir=os.environ.get("HOME", "/var/tmp"))
        try:
            for k, c in enumerate(cases):
                d = os.path.join(base, str(k))
                os.makedirs(d)
                try:
                    out.append(self._run_one(c, d, FlowMgr, WorkflowDatabaseManager))
                except Exception as e:  # noqa
                    out.append({"exc": f"{type(e).__name__}: {e}"})
                shutil.rmtree(d, ignore_errors=True)
        finally:
            shutil.rmtree(base, ignore_errors=True)
        return out

    @staticmethod
    def _run_one(c, d, FlowMgr, WorkflowDatabaseManager):
        import os
        pri, pub = os_join(d, "pri"), os_join(d, "pub")
        os.makedirs(pri)
        os.makedirs(pub)
        dbm = WorkflowDatabaseManager(pri, pub)
        dbm.on_workflow_start(is_restart=False)
        fm = FlowMgr(dbm)
        trace = []

        def table():
            return [r[0] for r in dbm.pri_dao.connect().execute(
                "SELECT flow_num FROM workflow_flows ORDER BY flow_num")]

        for o in c["ops"]:
            k = o[0]
            res = None
            try:
                if k == "get":
                    res = [fm.get_flow(o[1])]
                elif k == "cli":
                    arg = ["new"] if o[1] == "new" else ["none"] if o[1] == "none" else [str(n) for n in o[1]]
                    res = sorted(fm.cli_to_flow_nums(arg))
                elif k == "flush":
                    dbm.process_queued_ops()
                elif k == "restart":
                    dbm.process_queued_ops()
                    dbm.on_workflow_shutdown()
                    dbm = WorkflowDatabaseManager(pri, pub)
                    dbm.on_workflow_start(is_restart=True)
                    fm = FlowMgr(dbm)
                    fm.load_from_db(set(o[1]))
            except TypeError as e:
                res = {"TypeError": str(e)[:80]}
            trace.append({"res": res, "counter": fm.counter, "flows": sorted(fm.flows), "db": table()})
        dbm.on_workflow_shutdown()
        return {"trace": trace}

    # ------------------------------------------------------------ Coq case
    def coq_case(self, c, r):
        if "exc" in r:
            return None
        zl = lambda l: q.clist(q.cz(x) for x in l)  # noqa
        items = []
        for o, t in zip(c["ops"], r["trace"]):
            k = o[0]
            if k == "get":
                op = f"(OGet {q.copt(o[1], q.cz)})"
            elif k == "cli":
                op = "(OCli CNew)" if o[1] == "new" else "(OCli CNone)" if o[1] == "none" else f"(OCli (CNums {zl(o[1])}))"
            elif k == "flush":
                op = "OFlush"
            else:
                op = f"(ORestart {zl(o[1])})"
            if isinstance(t["res"], dict):
                res = "ObTypeError"
            elif t["res"] is None:
                res = "ObUnit"
            else:
                res = f"(ObNums {zl(t['res'])})"
            if t["counter"] is not None and not isinstance(t["counter"], int):
                return None
            obs = q.crecord(fo_res=res, fo_counter=q.copt(t["counter"], q.cz),
                            fo_flows=zl(t["flows"]), fo_db=zl(t["db"]))
            items.append(q.cpair(op, obs))
        return q.crecord(c_trace=q.clist(items))

    # ------------------------------------------------------------ oracle
    def oracle(self, c, r):
        if "exc" in r:
            return "unexpected exception: " + r["exc"]
        used = set()            # every number returned or recorded so far
        returned = set()
        for o, t in zip(c["ops"], r["trace"]):
            k = o[0]
            res = t["res"]
            if isinstance(res, dict):
                if c.get("kind") == "empty_restart":
                    return None     # counter is None after a restart on an empty table: outside the domain
                return f"unexpected TypeError in {o}: {res}"
            is_new = (k == "get" and o[1] is None) or (k == "cli" and o[1] == "new")
            if is_new:
                n = res[0]
                if n in used:
                    return f"reused: new flow got number {n}, already used (used so far: {sorted(used)})"
            if k == "get" and o[1] is not None and res != [o[1]]:
                return f"get_flow({o[1]}) returned {res}"
            if k == "cli" and isinstance(o[1], list) and res != sorted(set(o[1])):
                return f"cli_to_flow_nums({o[1]}) returned {res}"
            if k == "cli" and o[1] == "none" and res != []:
                return f"cli_to_flow_nums(none) returned {res}"
            if res:
                used |= set(res)
                returned |= set(res)
            if k in ("flush", "restart"):
                missing = returned - set(t["db"])
                if missing:
                    return f"not-recorded: flow numbers {sorted(missing)} were handed out but are not in workflow_flows after {k}"
            used |= set(t["db"])
        return None

    def classify(self, c, r, failure):
        return "flowmgr:" + failure.split(":")[0].split(" ")[0]

    def key(self, c, r):
        ops = c["ops"]
        seen_restart = False
        for o in ops:
            if o[0] == "restart":
                seen_restart = True
            elif seen_restart and ((o[0] == "get" and o[1] is None) or (o[0] == "cli" and o[1] == "new")):
                return super().key(c, r)
        return None

    def shrink(self, c):
        ops = c["ops"]
        for i in range(len(ops)):
            o2 = ops[:i] + ops[i + 1:]
            yield {"ops": o2, "kind": self._kind(o2)}


def os_join(*a):
    import os
    return os.path.join(*a)


STREAMS = [FlowMgrStream()]

META = {
    "level_text": (
        "Coq theorems over Model/Flow.v for every history of get_flow(new|given)/cli_to_flow_nums/flush/clean restart "
        "(load_from_db with any selection): a number returned for a NEW flow was never returned or recorded before "
        "(state invariant: every recorded number is <= counter or a key of .flows; recorded numbers only grow; every "
        "returned number is recorded), the skip loop terminates within the fuel the model gives it, and list-level "
        "lemmas for the flow-set union used when flows merge (result is exactly the union, hence a superset of the "
        "parent's flows). The model is tied to the real FlowMgr + sqlite table by differential histories compared in Coq."),
    "level_note": (
        "Hand model; the FlowMgr part of C08 only: spawn_on_output/merge_flows and 'no re-run of a complete task in a "
        "flow' are scheduler-level (other stream / C02). Restarts are clean; uniqueness across a crash is C20. "
        "Restart on an empty workflow_flows table leaves counter=None (next --flow=new raises TypeError): modelled, "
        "excluded from the theorem by hypothesis. Trusted: Coq kernel+VM, harness, sqlite."),
    "technique": "Coq proof (state invariant by induction over histories) + in-Coq differential correspondence on a real DB + freshness oracle",
    "design_ref": "5/C08",
}
