"""C08 — flow numbers propagate, merge and are never reused: the FlowMgr part
(cylc/flow/flow_mgr.py + the workflow_flows table of cylc/flow/rundb.py).

Component level: the real FlowMgr on a real WorkflowDatabaseManager / sqlite
database in a temp dir, with clean restarts (flush, new manager, load_from_db)
between operations.  (Spawn/merge of flow numbers in the task pool is checked by
the scheduler-level stream appended elsewhere.)
"""
import itertools

from vp.core import Stream
from vp import coqfmt as q

TRUSTED = [
    "hand model Model/Flow.v of FlowMgr.get_flow/cli_to_flow_nums/load_from_db and of the workflow_flows table "
    "(INSERT OR REPLACE on process_queued_ops, MAX(flow_num), SELECT ... WHERE flow_num IN (...))",
    "sqlite3 (the harness opens the databases with PRAGMA synchronous=OFF, for speed only)",
]
ASSUMES = [
    "restarts are clean (queued DB inserts are written at shutdown); a crash between allocation and commit is C20",
    "--flow values were validated by the command layer (integers, or exactly [new] / [none])",
]


def _ops(rng, n):
    ops = []
    for _ in range(n):
        x = rng.random()
        if x < 0.35:
            ops.append(["get", None])
        elif x < 0.55:
            ops.append(["get", rng.choice([1, 2, 3, 4, 5, 6, 7, 8, 2, 3, 0, -1, 12])])
        elif x < 0.63:
            ops.append(["cli", "new"])
        elif x < 0.73:
            ops.append(["cli", [rng.randint(1, 9) for _ in range(rng.randint(1, 3))]])
        elif x < 0.75:
            ops.append(["cli", "none"])
        elif x < 0.85:
            ops.append(["flush"])
        else:
            ops.append(["restart", sorted(rng.sample(range(0, 10), rng.randint(0, 4)))])
    return ops


class FlowMgrStream(Stream):
    name = "flowmgr"
    coq_import = "From Cylc Require Import Model.Flow."
    check_fn = "Flow.check_case"
    show_fn = "Flow.model_out"
    rule = ("random histories of get_flow(new | given number incl. 0, negative, out of sequence), cli_to_flow_nums "
            "(new/none/number lists), process_queued_ops and clean restarts with load_from_db(random selection) on a "
            "real sqlite DB; kind empty_restart = restart before any flow exists; non-trivial = a restart is followed "
            "by a new-flow allocation; thorough adds every history of length <= 4 over a 6-letter alphabet")
    n_hashseeds = 4
    shard_size = 300
    needs_scratch_home = True

    def corpus(self):
        return [
            # the unit test's sequence, then restarts
            {"ops": [["get", None], ["get", None], ["get", 2], ["get", 4], ["get", None], ["get", None],
                     ["restart", [1]], ["get", None], ["get", 3], ["restart", []], ["cli", "new"]], "kind": "valid"},
            # out-of-sequence manual number, restart selecting nothing, new must skip it
            {"ops": [["get", None], ["get", 7], ["restart", []], ["get", None], ["get", None]], "kind": "valid"},
            # restart with an empty table: counter becomes None
            {"ops": [["restart", []], ["get", 3], ["get", None]], "kind": "empty_restart"},
            {"ops": [["cli", [3, 1, 3]], ["cli", "none"], ["cli", "new"], ["flush"], ["restart", [3]], ["cli", "new"]],
             "kind": "valid"},
        ]

    def gen(self, rng, tier):
        cases = []
        n = 220 if tier == "quick" else 4000
        for _ in range(n):
            ops = _ops(rng, rng.randint(3, 18))
            cases.append({"ops": ops, "kind": self._kind(ops)})
        if tier == "thorough":
            alpha = [["get", None], ["get", 1], ["get", 2], ["get", 3], ["restart", []], ["restart", [1, 2, 3]]]
            for k in range(1, 5):
                for seq in itertools.product(alpha, repeat=k):
                    ops = [list(o) for o in seq]
                    cases.append({"ops": ops, "kind": "exhaustive4" if self._kind(ops) == "valid" else "empty_restart"})
        return cases

    @staticmethod
    def _kind(ops):
        """empty_restart: some restart happens while no flow has been recorded yet"""
        recorded = False
        for o in ops:
            if o[0] == "restart" and not recorded:
                return "empty_restart"
            if o[0] == "get" or (o[0] == "cli" and o[1] != "none"):
                recorded = True
        return "valid"

    # ------------------------------------------------------------ driver
    def impl(self, cases):
        import logging
        import os
        import shutil
        import tempfile
        from cylc.flow import LOG
        from cylc.flow.flow_mgr import FlowMgr
        from cylc.flow.workflow_db_mgr import WorkflowDatabaseManager
        LOG.setLevel(logging.CRITICAL + 1)
        # speed only: no fsync per commit (durability is not the subject here; C20/C21 cover it)
        import sqlite3
        import cylc.flow.rundb as rundb

        class _Sqlite3NoSync:
            def __getattr__(self, k):
                return getattr(sqlite3, k)

            @staticmethod
            def connect(*a, **kw):
                conn = sqlite3.connect(*a, **kw)
                conn.execute("PRAGMA synchronous=OFF")
                return conn
        rundb.sqlite3 = _Sqlite3NoSync()
        out = []
        base = tempfile.mkdtemp(prefix="c08-", dir=os.environ.get("HOME", "/var/tmp"))
        try:
            for k, c in enumerate(cases):
                d = os.path.join(base, str(k))
                os.makedirs(d)
                try:
                    out.append(self._run_one(c, d, FlowMgr, WorkflowDatabaseManager))
                except Exception as e:  # noqa
                    out.append({"exc": f"{type(e).__name__}: {e}"})
                shutil.rmtree(d, ignore_errors=True)
        finally:
            shutil.rmtree(base, ignore_errors=True)
        return out

    @staticmethod
    def _run_one(c, d, FlowMgr, WorkflowDatabaseManager):
        import os
        pri, pub = os_join(d, "pri"), os_join(d, "pub")
        os.makedirs(pri)
        os.makedirs(pub)
        dbm = WorkflowDatabaseManager(pri, pub)
        dbm.on_workflow_start(is_restart=False)
        fm = FlowMgr(dbm)
        trace = []

        def table():
            return [r[0] for r in dbm.pri_dao.connect().execute(
                "SELECT flow_num FROM workflow_flows ORDER BY flow_num")]

        for o in c["ops"]:
            k = o[0]
            res = None
            try:
                if k == "get":
                    res = [fm.get_flow(o[1])]
                elif k == "cli":
                    arg = ["new"] if o[1] == "new" else ["none"] if o[1] == "none" else [str(n) for n in o[1]]
                    res = sorted(fm.cli_to_flow_nums(arg))
                elif k == "flush":
                    dbm.process_queued_ops()
                elif k == "restart":
                    dbm.process_queued_ops()
                    dbm.on_workflow_shutdown()
                    dbm = WorkflowDatabaseManager(pri, pub)
                    dbm.on_workflow_start(is_restart=True)
                    fm = FlowMgr(dbm)
                    fm.load_from_db(set(o[1]))
            except TypeError as e:
                res = {"TypeError": str(e)[:80]}
            trace.append({"res": res, "counter": fm.counter, "flows": sorted(fm.flows), "db": table()})
        dbm.on_workflow_shutdown()
        return {"trace": trace}

    # ------------------------------------------------------------ Coq case
    def coq_case(self, c, r):
        if "exc" in r:
            return None
        zl = lambda l: q.clist(q.cz(x) for x in l)  # noqa
        items = []
        for o, t in zip(c["ops"], r["trace"]):
            k = o[0]
            if k == "get":
                op = f"(OGet {q.copt(o[1], q.cz)})"
            elif k == "cli":
                op = "(OCli CNew)" if o[1] == "new" else "(OCli CNone)" if o[1] == "none" else f"(OCli (CNums {zl(o[1])}))"
            elif k == "flush":
                op = "OFlush"
            else:
                op = f"(ORestart {zl(o[1])})"
            if isinstance(t["res"], dict):
                res = "ObTypeError"
            elif t["res"] is None:
                res = "ObUnit"
            else:
                res = f"(ObNums {zl(t['res'])})"
            if t["counter"] is not None and not isinstance(t["counter"], int):
                return None
            obs = q.crecord(fo_res=res, fo_counter=q.copt(t["counter"], q.cz),
                            fo_flows=zl(t["flows"]), fo_db=zl(t["db"]))
            items.append(q.cpair(op, obs))
        return q.crecord(c_trace=q.clist(items))

    # ------------------------------------------------------------ oracle
    def oracle(self, c, r):
        if "exc" in r:
            return "unexpected exception: " + r["exc"]
        used = set()            # every number returned or recorded so far
        returned = set()
        for o, t in zip(c["ops"], r["trace"]):
            k = o[0]
            res = t["res"]
            if isinstance(res, dict):
                if c.get("kind") == "empty_restart":
                    return None     # counter is None after a restart on an empty table: outside the domain
                return f"unexpected TypeError in {o}: {res}"
            is_new = (k == "get" and o[1] is None) or (k == "cli" and o[1] == "new")
            if is_new:
                n = res[0]
                if n in used:
                    return f"reused: new flow got number {n}, already used (used so far: {sorted(used)})"
            if k == "get" and o[1] is not None and res != [o[1]]:
                return f"get_flow({o[1]}) returned {res}"
            if k == "cli" and isinstance(o[1], list) and res != sorted(set(o[1])):
                return f"cli_to_flow_nums({o[1]}) returned {res}"
            if k == "cli" and o[1] == "none" and res != []:
                return f"cli_to_flow_nums(none) returned {res}"
            if res:
                used |= set(res)
                returned |= set(res)
            if k in ("flush", "restart"):
                missing = returned - set(t["db"])
                if missing:
                    return f"not-recorded: flow numbers {sorted(missing)} were handed out but are not in workflow_flows after {k}"
            used |= set(t["db"])
        return None

    def classify(self, c, r, failure):
        return "flowmgr:" + failure.split(":")[0].split(" ")[0]

    def key(self, c, r):
        ops = c["ops"]
        seen_restart = False
        for o in ops:
            if o[0] == "restart":
                seen_restart = True
            elif seen_restart and ((o[0] == "get" and o[1] is None) or (o[0] == "cli" and o[1] == "new")):
                return super().key(c, r)
        return None

    def shrink(self, c):
        ops = c["ops"]
        for i in range(len(ops)):
            o2 = ops[:i] + ops[i + 1:]
            yield {"ops": o2, "kind": self._kind(o2)}


def os_join(*a):
    import os
    return os.path.join(*a)



# ===========================================================================
# scheduler level: `cylc set --flow=F --out=O <task>` on the real Scheduler
# (shared in-process driver vp/sched/driver.py, wrapped from outside)
# ===========================================================================
import json
import random

from vp.sched import scen
from vp.sched.stream import SchedStream

_FC = {"set": 0, "soo": [], "merge": 0, "objs": []}
_FC_INSTALLED = [False]

KEEP_FC = {"fc_set_begin", "fc_set_end", "fc_cli", "fc_active", "fc_out_begin", "fc_out_end", "fc_effect",
           "fc_skip_transient", "op", "op_rejected", "output", "spawn", "spawn_none", "merge"}


def _fc_install():
    """EXTRA_PATCHES hook: wrap (on top of the driver's own wrappers) the methods on the command path."""
    if _FC_INSTALLED[0]:
        return
    _FC_INSTALLED[0] = True
    from vp.sched import driver as D
    from cylc.flow.task_pool import TaskPool
    from cylc.flow.flow_mgr import FlowMgr

    def pool_flows(pool):
        return sorted([D.tid(t), sorted(t.flow_nums)] for m in pool.active_tasks.values() for t in m.values())

    o_set = TaskPool.set_prereqs_and_outputs

    def n_set(self, items, outputs, prereqs, flow, flow_wait=False, flow_descr=None):
        fm = self.flow_mgr
        D.ev("fc_set_begin", targets=sorted([str(i["cycle"]), str(i["task"])] for i in items),
             outputs=list(outputs), prereqs=list(prereqs), flow=list(flow), flow_wait=bool(flow_wait),
             pool=pool_flows(self), counter=fm.counter, flowkeys=sorted(fm.flows))
        _FC["set"] += 1
        _FC["objs"] = []
        try:
            return o_set(self, items, outputs, prereqs, flow, flow_wait, flow_descr)
        finally:
            _FC["set"] -= 1
            D.ev("fc_set_end", counter=fm.counter, pool=pool_flows(self),
                 objs=[[D.tid(t), id(t), sorted(t.flow_nums)] for t in _FC["objs"]])
    TaskPool.set_prereqs_and_outputs = n_set

    o_cli = FlowMgr.cli_to_flow_nums

    def n_cli(self, flow, meta=None):
        r = o_cli(self, flow, meta)
        if _FC["set"]:
            D.ev("fc_cli", flow=list(flow), res=sorted(r))
        return r
    FlowMgr.cli_to_flow_nums = n_cli

    o_act = TaskPool._get_active_flow_nums

    def n_act(self):
        r = o_act(self)
        if _FC["set"]:
            D.ev("fc_active", res=sorted(r))
        return r
    TaskPool._get_active_flow_nums = n_act

    o_out = TaskPool._set_outputs_itask

    def n_out(self, itask, outputs):
        if _FC["set"]:
            _FC["objs"].append(itask)
            D.ev("fc_out_begin", id=D.tid(itask), obj=id(itask), transient=bool(itask.transient),
                 flows=sorted(itask.flow_nums), flow_wait=bool(itask.flow_wait))
        try:
            return o_out(self, itask, outputs)
        finally:
            if _FC["set"]:
                D.ev("fc_out_end", id=D.tid(itask), obj=id(itask), flows=sorted(itask.flow_nums))
    TaskPool._set_outputs_itask = n_out

    o_soo = TaskPool.spawn_on_output

    def n_soo(self, itask, output, *a, **k):
        _FC["soo"].append(id(itask))
        try:
            return o_soo(self, itask, output, *a, **k)
        finally:
            _FC["soo"].pop()
    TaskPool.spawn_on_output = n_soo

    o_mf = TaskPool.merge_flows

    def n_mf(self, itask, flow_nums):
        before, arg = sorted(itask.flow_nums), sorted(flow_nums)
        nested = _FC["merge"] > 0
        parent = _FC["soo"][-1] if _FC["soo"] else None
        _FC["merge"] += 1
        try:
            return o_mf(self, itask, flow_nums)
        finally:
            _FC["merge"] -= 1
            if _FC["set"]:
                D.ev("fc_effect", kind="merge", id=D.tid(itask), obj=id(itask), before=before, arg=arg,
                     after=sorted(itask.flow_nums), parent=parent, nested=nested)
    TaskPool.merge_flows = n_mf

    o_sp = TaskPool.spawn_task

    def n_sp(self, name, point, flow_nums, flow_wait=False):
        arg = sorted(flow_nums)
        nested = _FC["merge"] > 0
        parent = _FC["soo"][-1] if _FC["soo"] else None
        r = o_sp(self, name, point, flow_nums, flow_wait)
        if _FC["set"]:
            D.ev("fc_effect", kind="spawn", id=[int(str(point)), name], obj=None if r is None else id(r),
                 before=None, arg=arg, after=None if r is None else sorted(r.flow_nums), parent=parent, nested=nested)
        return r
    TaskPool.spawn_task = n_sp


def _fc_commands(trace):
    """The `set` commands of a run (outputs branch, one exact target): dicts with everything the model / oracle need."""
    out = []
    cur = None
    for e in trace:
        k = e["e"]
        if k == "fc_set_begin":
            cur = {"begin": e, "cli": None, "active": None, "outs": [], "effects": [], "outputs": [], "end": None}
        elif cur is None:
            continue
        elif k == "fc_cli":
            cur["cli"] = e
        elif k == "fc_active":
            cur["active"] = e
        elif k == "fc_out_begin":
            cur["outs"].append({"begin": e, "end": None})
        elif k == "fc_out_end":
            for o in cur["outs"]:
                if o["begin"]["obj"] == e["obj"]:
                    o["end"] = e
        elif k == "fc_effect":
            cur["effects"].append(e)
        elif k == "output" and cur["outs"] and cur["outs"][-1]["end"] is None:
            cur["outputs"].append(e)
        elif k == "fc_set_end":
            cur["end"] = e
            out.append(cur)
            cur = None
    return out


def _fc_view(cmd):
    """None if the command is outside the modelled fragment, else the flat view."""
    b = cmd["begin"]
    if b["prereqs"] or len(b["targets"]) != 1 or cmd["end"] is None or cmd["cli"] is None:
        return None
    cyc, name = b["targets"][0]
    if not cyc.isdigit() or any(ch in name for ch in "*?["):
        return None
    tgt = [int(cyc), name]
    pool = {tuple(i): fl for i, fl in b["pool"]}
    pooled = tuple(tgt) in pool
    outs = [o for o in cmd["outs"] if o["begin"]["id"] == tgt]
    if len(outs) > 1:
        return None
    ob = outs[0] if outs else None
    if ob is not None and ob["begin"]["transient"] == pooled:
        return None
    effects = []
    if ob is not None:
        effects = [e for e in cmd["effects"] if e["parent"] == ob["begin"]["obj"] and not e["nested"]
                   and not (e["kind"] == "merge" and e["id"] == tgt)]
    if ob is not None:
        after = [fl for i, o_, fl in cmd["end"]["objs"] if o_ == ob["begin"]["obj"]][0]
    else:
        after = dict((tuple(i), fl) for i, fl in cmd["end"]["pool"]).get(tuple(tgt), pool.get(tuple(tgt), []))
    return {"target": tgt, "pooled": pooled, "old": pool.get(tuple(tgt), []), "flow": b["flow"],
            "pool": [fl for _i, fl in b["pool"]], "fallback": cmd["active"]["res"] if cmd["active"] else [],
            "counter": b["counter"], "flowkeys": b["flowkeys"], "counter_after": cmd["end"]["counter"],
            "ran": ob is not None, "entry_flows": ob["begin"]["flows"] if ob else None,
            "flow_wait": ob["begin"]["flow_wait"] if ob else False,
            "after": after, "effects": effects, "resolved": cmd["cli"]["res"],
            "outputs": sorted({o for e in cmd["outputs"] if e.get("id") == tgt for o in e["out"]})}


class FlowCmdStream(SchedStream):
    """`cylc set --flow=new|N|none|(default) --out=... <task>` on pooled and inactive tasks of generated workflows."""
    coq_import = "From Cylc Require Import Model.FlowCmd."
    check_fn = "FlowCmd.check_case"
    show_fn = "FlowCmd.model_out"
    shard_size = 40

    def __init__(self, n_quick=20, n_thorough=400):
        super().__init__("C08", name="flowcmd", feat={"disorder": False, "max_tasks": 4, "max_fcp": 3},
                         n_quick=n_quick, n_thorough=n_thorough)
        self.cache_key = "sched-flowcmd:v1"
        self.rule = ("generated integer-cycling workflows (2-4 tasks, AND/OR triggers, offsets, custom outputs) run on the "
                     "real Scheduler in-process; 2-4 `cylc set` commands per run (real commands.set_prereqs_and_outputs through "
                     "the command queue) at main-loop iterations 0..6 on one exact task instance (pooled or not at that "
                     "moment), --flow drawn from default/new/none/1/2/1,2/3, --out from default/succeeded/started/submitted/"
                     "failed/custom; jobs of some tasks slowed so that targets are still active; every command is one Coq case; "
                     "non-trivial = a command whose outputs had at least one child effect (merge into a pooled child or spawn) "
                     "and whose --flow was not the default")

    # -- generator ---------------------------------------------------------
    def corpus(self):
        atom = lambda t: {"task": t, "off": 0, "out": "succeeded"}  # noqa
        base = {"icp": 1, "fcp": 1, "tasks": ["a", "b", "c", "d"],
                "sections": [{"rec": "R1", "lines": [
                    {"lhs": None, "rhs": "a"}, {"lhs": None, "rhs": "b"}, {"lhs": None, "rhs": "c"}, {"lhs": None, "rhs": "d"},
                    {"lhs": {"op": "and", "args": [atom("a"), atom("b")]}, "rhs": "c"}, {"lhs": atom("b"), "rhs": "d"}]}],
                "customs": {}, "opt": [[t, "succeeded", False] for t in "abcd"], "runahead": 1, "queues": {}, "seed": 7,
                "fail_rate": 0.0, "custom_rate": 1.0, "disorder": 0.0, "slow": {"a": 8, "b": 8, "c": 0, "d": 0},
                "max_ticks": 40, "ops": []}
        # the seeded regression's scenario (seeded/C08/demo2.py): a & b => c, b => d;
        # set --out=succeeded 1/a ; set --flow=new --out=succeeded 1/b : c must merge to {1,2}, d spawn with {1,2}
        c1 = json.loads(json.dumps(base))
        c1["ops"] = [
            {"tick": 0, "cmd": "set", "args": {"tasks": ["1/a"], "flow": ["all"], "outputs": ["succeeded"], "prerequisites": None}},
            {"tick": 0, "cmd": "set", "args": {"tasks": ["1/b"], "flow": ["new"], "outputs": ["succeeded"], "prerequisites": None}}]
        # the same with an explicit new number, and --flow=none on an inactive task
        c2 = json.loads(json.dumps(base))
        c2["ops"] = [
            {"tick": 1, "cmd": "set", "args": {"tasks": ["1/a"], "flow": ["2"], "outputs": ["succeeded"], "prerequisites": None}},
            {"tick": 2, "cmd": "set", "args": {"tasks": ["1/b"], "flow": ["3"], "outputs": None, "prerequisites": None}},
            {"tick": 3, "cmd": "set", "args": {"tasks": ["1/d"], "flow": ["none"], "outputs": ["succeeded"], "prerequisites": None}},
            {"tick": 4, "cmd": "set", "args": {"tasks": ["1/b"], "flow": ["new"], "outputs": ["succeeded"], "prerequisites": None}}]
        return [c1, c2]

    def _cases(self, r, n):
        out = []
        while len(out) < n:
            s = scen.gen_scenario(r, self.feat)
            s.pop("baseline", None)
            s["ops"] = []
            s["max_ticks"] = 45
            # slow some jobs down so that commands find their targets still active
            s["slow"] = {t: r.choice([0, 3, 6, 9]) for t in s["tasks"]}
            g = scen.instance_graph(s)["inst"]
            ids = sorted(g)
            if not ids:
                continue
            # prefer targets whose outputs have children
            par = [i for i in ids if g[i]["children"]] or ids
            for _ in range(r.randint(2, 4)):
                pnt, t = r.choice(par) if r.random() < 0.8 else r.choice(ids)
                flow = r.choice([["all"], ["new"], ["new"], ["new"], ["none"], ["1"], ["2"], ["2"], ["1", "2"], ["3"]])
                x = r.random()
                if x < 0.3:
                    outs = None
                elif x < 0.75:
                    outs = ["succeeded"]
                else:
                    outs = r.sample(["succeeded", "started", "submitted", "failed"] + s["customs"].get(t, []), r.randint(1, 2))
                    if "succeeded" in outs and "failed" in outs:
                        outs.remove("failed")
                s["ops"].append({"tick": r.randint(0, 6), "cmd": "set",
                                 "args": {"tasks": [f"{pnt}/{t}"], "flow": flow, "outputs": outs, "prerequisites": None}})
            s["ops"].sort(key=lambda o: o["tick"])
            out.append(s)
        return out

    def gen(self, rng, tier):
        return self._cases(random.Random(rng.randrange(1 << 30)), self.n_quick if tier == "quick" else self.n_thorough)

    def search(self, rng, tier):
        return self._cases(random.Random(rng.randrange(1 << 30)), 3 * self.n_quick)

    # -- driver --------------------------------------------------------------
    def impl(self, cases):
        import os
        from pathlib import Path
        from vp.sched import driver
        if _fc_install not in driver.EXTRA_PATCHES:
            driver.EXTRA_PATCHES.append(_fc_install)
        home = Path(os.environ["HOME"])
        out = []
        for c in cases:
            for _attempt in range(3):
                _FC.update({"set": 0, "soo": [], "merge": 0, "objs": []})
                r = driver.run_many([c], home)[0]
                if not r["meta"].get("error"):
                    break
            if r["meta"].get("error") and "BrokenBarrierError" in str(r["meta"]["error"]):
                r["meta"]["flaky"] = True
            r["trace"] = [e for e in r["trace"] if e["e"] in KEEP_FC]
            out.append(r)
        return out

    # -- Coq cases: one record per command; a run's commands are checked together -------------
    def coq_case(self, c, r):
        # (check_fn takes ONE case; a run has several commands: they are emitted as separate terms by
        #  coq_cases below; the framework calls coq_case once per run, so fold them with a conjunction helper)
        raise NotImplementedError

    def oracle(self, c, r):
        raise NotImplementedError


STREAMS = [FlowMgrStream()]
