"""C08 — flow numbers propagate, merge and are never reused: the FlowMgr part
(cylc/flow/flow_mgr.py + the workflow_flows table of cylc/flow/rundb.py).

Component level: the real FlowMgr on a real WorkflowDatabaseManager / sqlite
database in a temp dir, with clean restarts (flush, new manager, load_from_db)
between operations.  (Spawn/merge of flow numbers in the task pool is checked by
the scheduler-level stream appended elsewhere.)
"""
import itertools

from vp.core import Stream
from vp import coqfmt as q

TRUSTED = [
    "hand model Model/Flow.v of FlowMgr.get_flow/cli_to_flow_nums/load_from_db and of the workflow_flows table "
    "(INSERT OR REPLACE on process_queued_ops, MAX(flow_num), SELECT ... WHERE flow_num IN (...))",
    "sqlite3 (the harness opens the databases with PRAGMA synchronous=OFF, for speed only)",
    "hand model Model/FlowCmd.v of the flow-number side of TaskPool.set_prereqs_and_outputs (outputs branches), "
    "merge_flows and spawn_on_output; the shared in-process scheduler driver vp/sched/driver.py (fake process pool) and "
    "the wrappers this module puts around set_prereqs_and_outputs/_set_outputs_itask/spawn_on_output/merge_flows/"
    "spawn_task/cli_to_flow_nums/_get_active_flow_nums to record each command",
]
ASSUMES = [
    "restarts are clean (queued DB inserts are written at shutdown); a crash between allocation and commit is C20",
    "--flow values were validated by the command layer (integers, or exactly [new] / [none])",
]


def _ops(rng, n):
    ops = []
    for _ in range(n):
        x = rng.random()
        if x < 0.35:
            ops.append(["get", None])
        elif x < 0.55:
            ops.append(["get", rng.choice([1, 2, 3, 4, 5, 6, 7, 8, 2, 3, 0, -1, 12])])
        elif x < 0.63:
            ops.append(["cli", "new"])
        elif x < 0.73:
            ops.append(["cli", [rng.randint(1, 9) for _ in range(rng.randint(1, 3))]])
        elif x < 0.75:
            ops.append(["cli", "none"])
        elif x < 0.85:
            ops.append(["flush"])
        else:
            ops.append(["restart", sorted(rng.sample(range(0, 10), rng.randint(0, 4)))])
    return ops


class FlowMgrStream(Stream):
    name = "flowmgr"
    coq_import = "From Cylc Require Import Model.Flow."
    check_fn = "Flow.check_case"
    show_fn = "Flow.model_out"
    rule = ("random histories of get_flow(new | given number incl. 0, negative, out of sequence), cli_to_flow_nums "
            "(new/none/number lists), process_queued_ops and clean restarts with load_from_db(random selection) on a "
            "real sqlite DB; kind empty_restart = restart before any flow exists; non-trivial = a restart is followed "
            "by a new-flow allocation; thorough adds every history of length <= 4 over a 6-letter alphabet")
    n_hashseeds = 4
    shard_size = 300
    needs_scratch_home = True

    def corpus(self):
        return [
            # the unit test's sequence, then restarts
            {"ops": [["get", None], ["get", None], ["get", 2], ["get", 4], ["get", None], ["get", None],
                     ["restart", [1]], ["get", None], ["get", 3], ["restart", []], ["cli", "new"]], "kind": "valid"},
            # out-of-sequence manual number, restart selecting nothing, new must skip it
            {"ops": [["get", None], ["get", 7], ["restart", []], ["get", None], ["get", None]], "kind": "valid"},
            # restart with an empty table: counter becomes None
            {"ops": [["restart", []], ["get", 3], ["get", None]], "kind": "empty_restart"},
            {"ops": [["cli", [3, 1, 3]], ["cli", "none"], ["cli", "new"], ["flush"], ["restart", [3]], ["cli", "new"]],
             "kind": "valid"},
        ]

    def gen(self, rng, tier):
        cases = []
        n = 220 if tier == "quick" else 4000
        for _ in range(n):
            ops = _ops(rng, rng.randint(3, 18))
            cases.append({"ops": ops, "kind": self._kind(ops)})
        if tier == "thorough":
            alpha = [["get", None], ["get", 1], ["get", 2], ["get", 3], ["restart", []], ["restart", [1, 2, 3]]]
            for k in range(1, 5):
                for seq in itertools.product(alpha, repeat=k):
                    ops = [list(o) for o in seq]
                    cases.append({"ops": ops, "kind": "exhaustive4" if self._kind(ops) == "valid" else "empty_restart"})
        return cases

    @staticmethod
    def _kind(ops):
        """empty_restart: some restart happens while no flow has been recorded yet"""
        recorded = False
        for o in ops:
            if o[0] == "restart" and not recorded:
                return "empty_restart"
            if o[0] == "get" or (o[0] == "cli" and o[1] != "none"):
                recorded = True
        return "valid"

    # ------------------------------------------------------------ driver
    def impl(self, cases):
        import logging
        import os
        import shutil
        import tempfile
        from cylc.flow import LOG
        from cylc.flow.flow_mgr import FlowMgr
        from cylc.flow.workflow_db_mgr import WorkflowDatabaseManager
        LOG.setLevel(logging.CRITICAL + 1)
        # speed only: no fsync per commit (durability is not the subject here; C20/C21 cover it)
        import sqlite3
        import cylc.flow.rundb as rundb

        class _Sqlite3NoSync:
            def __getattr__(self, k):
                return getattr(sqlite3, k)

            @staticmethod
            def connect(*a, **kw):
                conn = sqlite3.connect(*a, **kw)
                conn.execute("PRAGMA synchronous=OFF")
                return conn
        rundb.sqlite3 = _Sqlite3NoSync()
        out = []
        base = tempfile.mkdtemp(prefix="c08-", dir=os.environ.get("HOME", "/var/tmp"))
        try:
            for k, c in enumerate(cases):
                d = os.path.join(base, str(k))
                os.makedirs(d)
                try:
                    out.append(self._run_one(c, d, FlowMgr, WorkflowDatabaseManager))
                except Exception as e:  # noqa
                    out.append({"exc": f"{type(e).__name__}: {e}"})
                shutil.rmtree(d, ignore_errors=True)
        finally:
            shutil.rmtree(base, ignore_errors=True)
        return out

    @staticmethod
    def _run_one(c, d, FlowMgr, WorkflowDatabaseManager):
        import os
        pri, pub = os_join(d, "pri"), os_join(d, "pub")
        os.makedirs(pri)
        os.makedirs(pub)
        dbm = WorkflowDatabaseManager(pri, pub)
        dbm.on_workflow_start(is_restart=False)
        fm = FlowMgr(dbm)
        trace = []

        def table():
            return [r[0] for r in dbm.pri_dao.connect().execute(
                "SELECT flow_num FROM workflow_flows ORDER BY flow_num")]

        for o in c["ops"]:
            k = o[0]
            res = None
            try:
                if k == "get":
                    res = [fm.get_flow(o[1])]
                elif k == "cli":
                    arg = ["new"] if o[1] == "new" else ["none"] if o[1] == "none" else [str(n) for n in o[1]]
                    res = sorted(fm.cli_to_flow_nums(arg))
                elif k == "flush":
                    dbm.process_queued_ops()
                elif k == "restart":
                    dbm.process_queued_ops()
                    dbm.on_workflow_shutdown()
                    dbm = WorkflowDatabaseManager(pri, pub)
                    dbm.on_workflow_start(is_restart=True)
                    fm = FlowMgr(dbm)
                    fm.load_from_db(set(o[1]))
            except TypeError as e:
                res = {"TypeError": str(e)[:80]}
            trace.append({"res": res, "counter": fm.counter, "flows": sorted(fm.flows), "db": table()})
        dbm.on_workflow_shutdown()
        return {"trace": trace}

    # ------------------------------------------------------------ Coq case
    def coq_case(self, c, r):
        if "exc" in r:
            return None
        zl = lambda l: q.clist(q.cz(x) for x in l)  # noqa
        items = []
        for o, t in zip(c["ops"], r["trace"]):
            k = o[0]
            if k == "get":
                op = f"(OGet {q.copt(o[1], q.cz)})"
            elif k == "cli":
                op = "(OCli CNew)" if o[1] == "new" else "(OCli CNone)" if o[1] == "none" else f"(OCli (CNums {zl(o[1])}))"
            elif k == "flush":
                op = "OFlush"
            else:
                op = f"(ORestart {zl(o[1])})"
            if isinstance(t["res"], dict):
                res = "ObTypeError"
            elif t["res"] is None:
                res = "ObUnit"
            else:
                res = f"(ObNums {zl(t['res'])})"
            if t["counter"] is not None and not isinstance(t["counter"], int):
                return None
            obs = q.crecord(fo_res=res, fo_counter=q.copt(t["counter"], q.cz),
                            fo_flows=zl(t["flows"]), fo_db=zl(t["db"]))
            items.append(q.cpair(op, obs))
        return q.crecord(c_trace=q.clist(items))

    # ------------------------------------------------------------ oracle
    def oracle(self, c, r):
        if "exc" in r:
            return "unexpected exception: " + r["exc"]
        used = set()            # every number returned or recorded so far
        returned = set()
        for o, t in zip(c["ops"], r["trace"]):
            k = o[0]
            res = t["res"]
            if isinstance(res, dict):
                if c.get("kind") == "empty_restart":
                    return None     # counter is None after a restart on an empty table: outside the domain
                return f"unexpected TypeError in {o}: {res}"
            is_new = (k == "get" and o[1] is None) or (k == "cli" and o[1] == "new")
            if is_new:
                n = res[0]
                if n in used:
                    return f"reused: new flow got number {n}, already used (used so far: {sorted(used)})"
            if k == "get" and o[1] is not None and res != [o[1]]:
                return f"get_flow({o[1]}) returned {res}"
            if k == "cli" and isinstance(o[1], list) and res != sorted(set(o[1])):
                return f"cli_to_flow_nums({o[1]}) returned {res}"
            if k == "cli" and o[1] == "none" and res != []:
                return f"cli_to_flow_nums(none) returned {res}"
            if res:
                used |= set(res)
                returned |= set(res)
            if k in ("flush", "restart"):
                missing = returned - set(t["db"])
                if missing:
                    return f"not-recorded: flow numbers {sorted(missing)} were handed out but are not in workflow_flows after {k}"
            used |= set(t["db"])
        return None

    def classify(self, c, r, failure):
        return "flowmgr:" + failure.split(":")[0].split(" ")[0]

    def key(self, c, r):
        ops = c["ops"]
        seen_restart = False
        for o in ops:
            if o[0] == "restart":
                seen_restart = True
            elif seen_restart and ((o[0] == "get" and o[1] is None) or (o[0] == "cli" and o[1] == "new")):
                return super().key(c, r)
        return None

    def shrink(self, c):
        ops = c["ops"]
        for i in range(len(ops)):
            o2 = ops[:i] + ops[i + 1:]
            yield {"ops": o2, "kind": self._kind(o2)}


def os_join(*a):
    import os
    return os.path.join(*a)



# ===========================================================================
# scheduler level: `cylc set --flow=F --out=O <task>` on the real Scheduler
# (shared in-process driver vp/sched/driver.py, wrapped from outside)
# ===========================================================================
import json
import random

from vp.sched import scen
from vp.sched.stream import SchedStream

_FC = {"set": 0, "soo": [], "merge": 0, "objs": []}
_FC_INSTALLED = [False]

KEEP_FC = {"fc_set_error", "fc_set_begin", "fc_set_end", "fc_cli", "fc_active", "fc_out_begin", "fc_out_end", "fc_effect",
           "fc_skip_transient", "op", "op_rejected", "output", "spawn", "spawn_none", "merge"}


def _fc_install():
    """EXTRA_PATCHES hook: wrap (on top of the driver's own wrappers) the methods on the command path."""
    if _FC_INSTALLED[0]:
        return
    _FC_INSTALLED[0] = True
    from vp.sched import driver as D
    from cylc.flow.task_pool import TaskPool
    from cylc.flow.flow_mgr import FlowMgr

    def pool_flows(pool):
        return sorted([D.tid(t), sorted(t.flow_nums)] for m in pool.active_tasks.values() for t in m.values())

    o_set = TaskPool.set_prereqs_and_outputs

    def n_set(self, items, outputs, prereqs, flow, flow_wait=False, flow_descr=None):
        fm = self.flow_mgr
        D.ev("fc_set_begin", targets=sorted([str(i["cycle"]), str(i["task"])] for i in items),
             outputs=list(outputs), prereqs=list(prereqs), flow=list(flow), flow_wait=bool(flow_wait),
             pool=pool_flows(self), counter=fm.counter, flowkeys=sorted(fm.flows))
        _FC["set"] += 1
        _FC["objs"] = []
        try:
            return o_set(self, items, outputs, prereqs, flow, flow_wait, flow_descr)
        except Exception as exc:     # (the command runner would log and swallow it)
            D.ev("fc_set_error", exc=f"{type(exc).__name__}: {exc}")
            raise
        finally:
            _FC["set"] -= 1
            D.ev("fc_set_end", counter=fm.counter, pool=pool_flows(self),
                 objs=[[D.tid(t), id(t), sorted(t.flow_nums)] for t in _FC["objs"]])
    TaskPool.set_prereqs_and_outputs = n_set

    o_cli = FlowMgr.cli_to_flow_nums

    def n_cli(self, flow, meta=None):
        r = o_cli(self, flow, meta)
        if _FC["set"]:
            D.ev("fc_cli", flow=list(flow), res=sorted(r))
        return r
    FlowMgr.cli_to_flow_nums = n_cli

    o_act = TaskPool._get_active_flow_nums

    def n_act(self):
        r = o_act(self)
        if _FC["set"]:
            D.ev("fc_active", res=sorted(r))
        return r
    TaskPool._get_active_flow_nums = n_act

    o_out = TaskPool._set_outputs_itask

    def n_out(self, itask, outputs):
        if _FC["set"]:
            _FC["objs"].append(itask)
            D.ev("fc_out_begin", id=D.tid(itask), obj=id(itask), transient=bool(itask.transient),
                 flows=sorted(itask.flow_nums), flow_wait=bool(itask.flow_wait))
        try:
            return o_out(self, itask, outputs)
        finally:
            if _FC["set"]:
                D.ev("fc_out_end", id=D.tid(itask), obj=id(itask), flows=sorted(itask.flow_nums))
    TaskPool._set_outputs_itask = n_out

    o_soo = TaskPool.spawn_on_output

    def n_soo(self, itask, output, *a, **k):
        _FC["soo"].append(id(itask))
        try:
            return o_soo(self, itask, output, *a, **k)
        finally:
            _FC["soo"].pop()
    TaskPool.spawn_on_output = n_soo

    o_mf = TaskPool.merge_flows

    def n_mf(self, itask, flow_nums):
        before, arg = sorted(itask.flow_nums), sorted(flow_nums)
        nested = _FC["merge"] > 0
        parent = _FC["soo"][-1] if _FC["soo"] else None
        _FC["merge"] += 1
        try:
            return o_mf(self, itask, flow_nums)
        finally:
            _FC["merge"] -= 1
            if _FC["set"]:
                D.ev("fc_effect", what="merge", id=D.tid(itask), obj=id(itask), before=before, arg=arg,
                     after=sorted(itask.flow_nums), parent=parent, nested=nested)
    TaskPool.merge_flows = n_mf

    o_sp = TaskPool.spawn_task

    def n_sp(self, name, point, flow_nums, flow_wait=False):
        arg = sorted(flow_nums)
        nested = _FC["merge"] > 0
        parent = _FC["soo"][-1] if _FC["soo"] else None
        r = o_sp(self, name, point, flow_nums, flow_wait)
        if _FC["set"]:
            D.ev("fc_effect", what="spawn", id=[int(str(point)), name], obj=None if r is None else id(r),
                 before=None, arg=arg, after=None if r is None else sorted(r.flow_nums), parent=parent, nested=nested)
        return r
    TaskPool.spawn_task = n_sp


def _fc_commands(trace):
    """The `set` commands of a run (outputs branch, one exact target): dicts with everything the model / oracle need."""
    out = []
    cur = None
    for e in trace:
        k = e["e"]
        if k == "fc_set_begin":
            cur = {"begin": e, "cli": None, "active": None, "outs": [], "effects": [], "outputs": [], "end": None}
        elif cur is None:
            continue
        elif k == "fc_cli":
            cur["cli"] = e
        elif k == "fc_active":
            cur["active"] = e
        elif k == "fc_out_begin":
            cur["outs"].append({"begin": e, "end": None})
        elif k == "fc_out_end":
            for o in cur["outs"]:
                if o["begin"]["obj"] == e["obj"]:
                    o["end"] = e
        elif k == "fc_effect":
            cur["effects"].append(e)
        elif k == "output" and cur["outs"] and cur["outs"][-1]["end"] is None:
            cur["outputs"].append(e)
        elif k == "fc_set_error":
            cur["error"] = e["exc"]
        elif k == "fc_set_end":
            cur["end"] = e
            out.append(cur)
            cur = None
    return out


def _fc_view(cmd):
    """None if the command is outside the modelled fragment, else the flat view."""
    b = cmd["begin"]
    if b["prereqs"] or len(b["targets"]) != 1 or cmd["end"] is None or cmd["cli"] is None:
        return None
    cyc, name = b["targets"][0]
    if not cyc.isdigit() or any(ch in name for ch in "*?["):
        return None
    tgt = [int(cyc), name]
    pool = {tuple(i): fl for i, fl in b["pool"]}
    pooled = tuple(tgt) in pool
    outs = [o for o in cmd["outs"] if o["begin"]["id"] == tgt]
    if len(outs) > 1:
        return None
    ob = outs[0] if outs else None
    if ob is not None and ob["begin"]["transient"] == pooled:
        return None
    effects = []
    if ob is not None:
        effects = [e for e in cmd["effects"] if e["parent"] == ob["begin"]["obj"] and not e["nested"]
                   and not (e["what"] == "merge" and e["id"] == tgt)]
    if ob is not None:
        after = [fl for i, o_, fl in cmd["end"]["objs"] if o_ == ob["begin"]["obj"]][0]
    else:
        after = dict((tuple(i), fl) for i, fl in cmd["end"]["pool"]).get(tuple(tgt), pool.get(tuple(tgt), []))
    return {"target": tgt, "pooled": pooled, "old": pool.get(tuple(tgt), []), "flow": b["flow"],
            "pool": [fl for _i, fl in b["pool"]], "fallback": cmd["active"]["res"] if cmd["active"] else [],
            "counter": b["counter"], "flowkeys": b["flowkeys"], "counter_after": cmd["end"]["counter"],
            "ran": ob is not None, "entry_flows": ob["begin"]["flows"] if ob else None,
            "flow_wait": ob["begin"]["flow_wait"] if ob else False,
            "after": after, "effects": effects, "resolved": cmd["cli"]["res"],
            "outputs": sorted({o for e in cmd["outputs"] if e.get("id") == tgt for o in e["out"]})}


class FlowCmdStream(SchedStream):
    """`cylc set --flow=new|N|none|(default) --out=... <task>` on pooled and inactive tasks of generated workflows."""
    coq_import = "From Cylc Require Import Model.Flow Model.FlowCmd."
    check_fn = "FlowCmd.check_case"
    show_fn = "FlowCmd.model_out"
    shard_size = 40

    def __init__(self, n_quick=20, n_thorough=400):
        super().__init__("C08", name="flowcmd", feat={"disorder": False, "max_tasks": 4, "max_fcp": 3},
                         n_quick=n_quick, n_thorough=n_thorough)
        self.cache_key = "sched-flowcmd:v1"
        self.rule = ("generated integer-cycling workflows (2-4 tasks, AND/OR triggers, offsets, custom outputs) run on the "
                     "real Scheduler in-process; 2-4 `cylc set` commands per run (real commands.set_prereqs_and_outputs through "
                     "the command queue) at main-loop iterations 0..6 on one exact task instance (pooled or not at that "
                     "moment), --flow drawn from default/new/none/1/2/1,2/3, --out from default/succeeded/started/submitted/"
                     "failed/custom; jobs of some tasks slowed so that targets are still active; every command is one Coq case; "
                     "non-trivial = a command whose outputs had at least one child effect (merge into a pooled child or spawn) "
                     "and whose --flow was not the default")

    # -- generator ---------------------------------------------------------
    def corpus(self):
        atom = lambda t: {"task": t, "off": 0, "out": "succeeded"}  # noqa
        base = {"icp": 1, "fcp": 1, "tasks": ["a", "b", "c", "d"],
                "sections": [{"rec": "R1", "lines": [
                    {"lhs": None, "rhs": "a"}, {"lhs": None, "rhs": "b"}, {"lhs": None, "rhs": "c"}, {"lhs": None, "rhs": "d"},
                    {"lhs": {"op": "and", "args": [atom("a"), atom("b")]}, "rhs": "c"}, {"lhs": atom("b"), "rhs": "d"}]}],
                "customs": {}, "opt": [[t, "succeeded", False] for t in "abcd"], "runahead": 1, "queues": {}, "seed": 7,
                "fail_rate": 0.0, "custom_rate": 1.0, "disorder": 0.0, "slow": {"a": 8, "b": 8, "c": 0, "d": 0},
                "max_ticks": 40, "ops": []}
        # the seeded regression's scenario (seeded/C08/demo2.py): a & b => c, b => d;
        # set --out=succeeded 1/a ; set --flow=new --out=succeeded 1/b : c must merge to {1,2}, d spawn with {1,2}
        c1 = json.loads(json.dumps(base))
        c1["ops"] = [
            {"tick": 0, "cmd": "set", "args": {"tasks": ["1/a"], "flow": ["all"], "outputs": ["succeeded"], "prerequisites": None}},
            {"tick": 0, "cmd": "set", "args": {"tasks": ["1/b"], "flow": ["new"], "outputs": ["succeeded"], "prerequisites": None}}]
        # the same with an explicit new number, and --flow=none on an inactive task
        c2 = json.loads(json.dumps(base))
        c2["ops"] = [
            {"tick": 1, "cmd": "set", "args": {"tasks": ["1/a"], "flow": ["2"], "outputs": ["succeeded"], "prerequisites": None}},
            {"tick": 2, "cmd": "set", "args": {"tasks": ["1/b"], "flow": ["3"], "outputs": None, "prerequisites": None}},
            {"tick": 3, "cmd": "set", "args": {"tasks": ["1/d"], "flow": ["none"], "outputs": ["succeeded"], "prerequisites": None}},
            {"tick": 4, "cmd": "set", "args": {"tasks": ["1/b"], "flow": ["new"], "outputs": ["succeeded"], "prerequisites": None}}]
        return [c1, c2]

    def _cases(self, r, n):
        out = []
        while len(out) < n:
            s = scen.gen_scenario(r, self.feat)
            s.pop("baseline", None)
            s["ops"] = []
            s["max_ticks"] = 45
            # slow some jobs down so that commands find their targets still active
            s["slow"] = {t: r.choice([0, 3, 6, 9]) for t in s["tasks"]}
            g = scen.instance_graph(s)["inst"]
            ids = sorted(g)
            if not ids:
                continue
            # prefer targets whose outputs have children
            par = [i for i in ids if g[i]["children"]] or ids
            for _ in range(r.randint(2, 4)):
                pnt, t = r.choice(par) if r.random() < 0.8 else r.choice(ids)
                flow = r.choice([["all"], ["new"], ["new"], ["new"], ["none"], ["1"], ["2"], ["2"], ["1", "2"], ["3"]])
                x = r.random()
                if x < 0.3:
                    outs = None
                elif x < 0.75:
                    outs = ["succeeded"]
                else:
                    outs = r.sample(["succeeded", "started", "submitted", "failed"] + s["customs"].get(t, []), r.randint(1, 2))
                    if "succeeded" in outs and "failed" in outs:
                        outs.remove("failed")
                s["ops"].append({"tick": r.randint(0, 6), "cmd": "set",
                                 "args": {"tasks": [f"{pnt}/{t}"], "flow": flow, "outputs": outs, "prerequisites": None}})
            s["ops"].sort(key=lambda o: o["tick"])
            out.append(s)
        return out

    def gen(self, rng, tier):
        return self._cases(random.Random(rng.randrange(1 << 30)), self.n_quick if tier == "quick" else self.n_thorough)

    def search(self, rng, tier):
        return self._cases(random.Random(rng.randrange(1 << 30)), 3 * self.n_quick)

    # -- driver --------------------------------------------------------------
    def impl(self, cases):
        import os
        from pathlib import Path
        from vp.sched import driver
        if _fc_install not in driver.EXTRA_PATCHES:
            driver.EXTRA_PATCHES.append(_fc_install)
        home = Path(os.environ["HOME"])
        out = []
        for c in cases:
            for _attempt in range(3):
                _FC.update({"set": 0, "soo": [], "merge": 0, "objs": []})
                r = driver.run_many([c], home)[0]
                if not r["meta"].get("error"):
                    break
            if r["meta"].get("error") and "BrokenBarrierError" in str(r["meta"]["error"]):
                r["meta"]["flaky"] = True
            r["trace"] = [e for e in r["trace"] if e["e"] in KEEP_FC]
            out.append(r)
        return out

    # -- Coq case: the list of the run's modelled commands ----------------------------------
    def coq_case(self, c, r):
        if r["meta"].get("error") or r["meta"].get("flaky"):
            return None
        zl = lambda l: q.clist(q.cz(x) for x in l)  # noqa
        recs = []
        for cmd in _fc_commands(r["trace"]):
            v = _fc_view(cmd)
            if v is None or cmd.get("error"):
                continue
            fl = v["flow"]
            cli = "CNew" if fl == ["new"] else "CNone" if fl == ["none"] else f"(CNums {zl([int(x) for x in fl])})"
            if not isinstance(v["counter"], int) or not isinstance(v["counter_after"], int):
                return None
            effs = q.clist(q.crecord(eo_before=q.copt(e["before"], zl), eo_arg=zl(e["arg"]), eo_after=q.copt(e["after"], zl))
                           for e in v["effects"])
            recs.append(q.crecord(
                k_counter=q.copt(v["counter"], q.cz), k_flowkeys=zl(v["flowkeys"]), k_cli=cli,
                k_pool=q.clist(zl(f) for f in v["pool"]), k_fallback=zl(v["fallback"]),
                k_pooled=q.cbool(v["pooled"]), k_old=zl(v["old"]), k_loaded=q.cbool(v["ran"] and not v["pooled"]),
                k_counter_after=q.copt(v["counter_after"], q.cz), k_ran=q.cbool(v["ran"]),
                k_target_after=zl(v["after"]), k_effects=effs))
        if not recs:
            return None
        return q.clist(recs)

    # -- oracle: the clause, stated on the trace ----------------------------------------------
    def oracle(self, c, r):
        if r["meta"].get("flaky"):
            return None
        if r["meta"].get("error"):
            return "error: scheduler run raised " + r["meta"]["error"]
        for e in r["trace"]:
            if e["e"] == "op_rejected":
                return f"error: command rejected: {e}"
        g = scen.instance_graph(c)["inst"]
        seen = set()        # every flow number seen so far (pool, FlowMgr, results)
        for cmd in _fc_commands(r["trace"]):
            b = cmd["begin"]
            for _i, fl in b["pool"]:
                seen |= set(fl)
            seen |= set(b["flowkeys"])
            if cmd.get("error"):
                return f"error: set {b['targets']} --flow={b['flow']} raised {cmd['error']}"
            v = _fc_view(cmd)
            if v is None:
                continue
            w = f"set --flow={','.join(v['flow']) or '(default)'} --out={','.join(b['outputs']) or '(default)'} " \
                f"{v['target'][0]}/{v['target'][1]}: "
            F = set(v["resolved"])
            if v["flow"] == ["new"]:
                if len(F) != 1 or F & seen:
                    return w + f"new-flow-not-fresh: --flow=new gave {sorted(F)}; numbers already in use: {sorted(seen)}"
            elif v["flow"] == ["none"]:
                if F:
                    return w + f"target-flows: --flow=none resolved to {sorted(F)}"
            elif v["flow"]:
                if F != {int(x) for x in v["flow"]}:
                    return w + f"target-flows: --flow={v['flow']} resolved to {sorted(F)}"
            else:
                F = set(v["fallback"])
                act = set().union(*[set(fl) for fl in v["pool"]]) if v["pool"] else set()
                if act and F != act:
                    return w + f"target-flows: default flows {sorted(F)}, the active flows are {sorted(act)}"
            seen |= F
            old = set(v["old"])
            if v["pooled"] and v["flow"] == ["none"] and old:
                if v["ran"] or set(v["after"]) != old:
                    return w + "target-flows: --flow=none on an active task with flows must be ignored"
                continue
            if not v["ran"]:
                if v["pooled"]:
                    return w + "target-flows: outputs of the pooled target were not set"
                continue
            post = set(v["after"])
            want = (old | F) if v["pooled"] else F
            if post != want:
                return w + (f"target-flows: the task had flows {sorted(old)}, the command's flows are {sorted(F)}: "
                            f"it ends with {sorted(post)}, expected {sorted(want)}")
            # children of the outputs completed by this command carry the setter's (post-command) flows
            for e in v["effects"]:
                cid = f"{e['id'][0]}/{e['id'][1]}"
                if set(e["arg"]) != post:
                    return w + (f"children-flows: child {cid} was {'merged' if e['what'] == 'merge' else 'spawned'} with "
                                f"flows {e['arg']} but the task now belongs to {sorted(post)}")
                if e["after"] is not None:
                    exp = post | set(e["before"] or [])
                    if set(e["after"]) != exp:
                        return w + f"children-flows: child {cid} has flows {e['after']}, expected the union {sorted(exp)}"
            endpool = {tuple(i): set(fl) for i, fl in cmd["end"]["pool"]}
            if post and not v["flow_wait"]:
                touched = {tuple(e["id"]) for e in v["effects"]}
                for o in v["outputs"]:
                    for ch in g.get(tuple(v["target"]), {}).get("children", {}).get(o, []):
                        ch = tuple(ch)
                        if ch == tuple(v["target"]):
                            continue
                        if ch in endpool and not endpool[ch] >= post:
                            return w + (f"children-flows: child {ch[0]}/{ch[1]} of output :{o} is in the pool with flows "
                                        f"{sorted(endpool[ch])}, the task belongs to {sorted(post)}")
                        if ch not in endpool and ch not in touched:
                            return w + f"child-missing: child {ch[0]}/{ch[1]} of output :{o} was neither spawned nor merged"
        return None

    def classify(self, c, r, failure):
        for tag in ("new-flow-not-fresh", "target-flows", "children-flows", "child-missing"):
            if f": {tag}:" in failure:
                return "flowcmd:" + tag
        return "flowcmd:" + failure.split(":")[0].split(" ")[0]

    def key(self, c, r):
        if not isinstance(r, dict) or "trace" not in r:
            return None
        n = 0
        for cmd in _fc_commands(r["trace"]):
            v = _fc_view(cmd)
            if v and v["effects"] and v["flow"]:
                n += 1
        if not n:
            return None
        return json.dumps([c["sections"], c["seed"], c["ops"]], sort_keys=True)

    def shrink(self, c):
        ops = c.get("ops", [])
        for i in range(len(ops)):
            c2 = json.loads(json.dumps(c))
            del c2["ops"][i]
            yield c2
        yield from super().shrink(c)


STREAMS = [FlowMgrStream(), FlowCmdStream()]

META = {
    "level_text": (
        "Coq theorems over Model/Flow.v for every history of get_flow(new|given)/cli_to_flow_nums/flush/clean restart "
        "(load_from_db with any selection): a number returned for a NEW flow was never returned or recorded before "
        "(state invariant: every recorded number is <= counter or a key of .flows; recorded numbers only grow; every "
        "returned number is recorded), the skip loop terminates within the fuel the model gives it. Over Model/FlowCmd.v "
        "(`cylc set --flow=F --out=O t` on pooled and inactive tasks): the target ends with exactly old ∪ F (F = the new "
        "fresh number / the given numbers / all active flows / nothing), every child of the outputs it completes is "
        "spawned with, or merged to the union with, the target's NEW flows, and a --flow=new number is in no pooled "
        "task's flows. Both models are tied to the code by differential runs compared in Coq: the real FlowMgr + sqlite "
        "table (stream flowmgr), and the real Scheduler in-process with real set commands (stream flowcmd)."),
    "level_note": (
        "Hand models. FlowCmd.v models flow numbers only: which children an output has and whether they are pooled is "
        "data observed on the run (the oracle recomputes the children from the generator's own instance graph); the "
        "prerequisite branch of `cylc set`, flow-wait, and retro-spawning inside merge_flows are outside the model. "
        "'No re-run of a complete task in a flow' is C02. Restarts are clean; uniqueness across a crash is C20. Restart on "
        "an empty workflow_flows table leaves counter=None (next --flow=new raises TypeError): modelled, excluded from the "
        "theorem by hypothesis. Trusted: Coq kernel+VM, harness (vp/sched/driver.py + the wrappers in this file), sqlite."),
    "technique": "Coq proof (state invariant by induction over histories; set-command lemmas) + in-Coq differential correspondence (real DB; real Scheduler in-process) + freshness / children-carry-flows oracles",
    "design_ref": "5/C08",
}
