"""C41 — literal task environment values reach the job unchanged
(cylc/flow/job_file.py: JobFileWriter._write_runtime_environment,
_get_variable_value_definition), evaluated by the real /bin/bash."""
import re

from vp.core import Stream
from vp import coqfmt as q

TRUSTED = [
    "hand model Model/EnvFilter.v of WorkflowConfig.filter_env and of environment inheritance (replicate over the "
    "linearised ancestors) on [environment] / [environment filter] items",
    "hand model Model/Shell.v of _write_runtime_environment/_get_variable_value_definition (compared as text with "
    "what the real JobFileWriter writes) and of the bash fragment that evaluates it (double-quote rules, $NAME/${NAME}, "
    "tilde-prefix); the bash part is validated by sourcing the written section in the real /bin/bash on every run",
    "Python 3 regex semantics of \\s, '.', '$' modelled by hand (is_space table, final-newline rule)",
    "bash lexing of the emitted text into (tilde-prefix, double-quoted string) is not modelled separately: the "
    "structured word and its rendering are tied by the text comparison and the bash run",
]
ASSUMES = [
    "cfgenv stream: the linearised ancestor list is taken from the real config (C35 covers it); values there are plain "
    "(no quotes / '#' / backslash), so parsec validation leaves them unchanged",
    "no task parameters (job_conf['param_var'] empty), so no %(param)s interpolation of values",
    "env stream: job_conf['environment'] is given as a dict in configuration order (the cfgenv stream checks that "
    "WorkflowConfig delivers it in that order)",
    "bash is not in posix mode, history expansion off (non-interactive), no `set -u`; UTF-8 or C locale",
    "values without NUL",
]

def ctext(s):
    """text as `TextCodec.dec "<literal>"` (see Model/TextCodec.v)"""
    out = []
    for ch in s:
        o = ord(ch)
        if ch == '"':
            out.append('""')
        elif 32 <= o < 127 and ch != "\\":
            out.append(ch)
        else:
            out.append("\\%d;" % o)
    return '(TextCodec.dec "' + "".join(out) + '"%string)'


SPECIAL = set('$`\\"')
LIT_CH = "abXY019 '#=~!*?[]{}();&|<>%:,./-+@^_éß日本 　😀"
NAMES = ["A", "B", "FOO", "BAR_1", "_x", "v0", "HOME", "PATH_TO", "Z9", "PRE", "cylc_var", "LongerVariableName"]
HOMES = ["/var/tmp/vp home", "/home/user", "/h'q/é", "", "/a//b/", "/x#y=z"]
EXOTIC = ["$(printf hi)", "`printf x`", "${PRE:-dflt}", "$((1+2))", "$", "$1", "${#PRE}", "$ x", "$'a'", "${PRE}$", "\\"]


def _lit(rng, lo=0, hi=8, first_ok=True):
    n = rng.randint(lo, hi)
    s = "".join(rng.choice(LIT_CH) for _ in range(n))
    if rng.random() < 0.04:
        i = rng.randint(0, len(s))
        s = s[:i] + "\n" + s[i:]
    return s


def _parts(rng, earlier, exotic=False, malformed=False):
    """value as parts: ["lit", text] | ["ref", name, braced] | ["esc", ch] | ["raw", text]"""
    parts = []
    n = rng.choice([1, 1, 1, 2, 3, 4])
    for _ in range(n):
        r = rng.random()
        if r < 0.55 or not earlier and r < 0.7:
            parts.append(["lit", _lit(rng, 0, 7)])
        elif r < 0.8:
            name = rng.choice(earlier) if earlier and rng.random() < 0.85 else rng.choice(NAMES + ["UNSET_VAR"])
            parts.append(["ref", name, rng.random() < 0.5])
        elif r < 0.9:
            parts.append(["esc", rng.choice('$`"\\nx \'~')])
        else:
            parts.append(["lit", _lit(rng, 1, 3)])
    if exotic:
        parts.insert(rng.randint(0, len(parts)), ["raw", rng.choice(EXOTIC)])
    if malformed:
        parts.insert(rng.randint(0, len(parts)), ["raw", rng.choice(['"', 'a"b', '"$(', "`", "${", "$("])])
    return parts


def _name_char(ch):
    return ch.isascii() and (ch.isalnum() or ch == "_")


def _value(parts):
    """render the parts as the configured value string"""
    out = []
    for i, p in enumerate(parts):
        if p[0] in ("lit", "raw"):
            out.append(p[1])
        elif p[0] == "esc":
            out.append("\\" + p[1])
        else:
            rest = _value(parts[i + 1:])
            if p[2] or (rest[:1] and _name_char(rest[:1])):
                out.append("${" + p[1] + "}")
            else:
                out.append("$" + p[1])
    return "".join(out)


def _gen_conf(rng, kind):
    nvars = rng.choice([1, 2, 2, 3, 3, 4, 5, 6])
    names = rng.sample(NAMES, nvars)
    conf = []
    bad_at = rng.randrange(nvars) if kind in ("exotic", "malformed") else -1
    for i, name in enumerate(names):
        earlier = names[:i]
        r = rng.random()
        parts = _parts(rng, earlier, exotic=(kind == "exotic" and i == bad_at),
                       malformed=(kind == "malformed" and i == bad_at))
        tilde = None
        if r < 0.3:
            login = rng.choice(["", "", "", "root", "nobody", "daemon", "nosuchuser", "no.such-user", "_u1",
                                "ro ot", "games"]
                               + (["+", "-", "1", "a:b", "é", "root;x", "*"] if kind == "exotic" else []))
            form = rng.choice(["only", "slash", "slash", "space", "nl"])
            tilde = [login, form]
        if tilde is None and kind == "valid" and _value(parts).startswith("~"):
            # a leading '~' only through the structured tilde shapes (others are 'exotic')
            parts = [["lit", "="]] + parts
        conf.append({"name": name, "tilde": tilde, "parts": parts})
    return conf


def value_of(var):
    v = _value(var["parts"])
    t = var.get("tilde")
    if t:
        login, form = t
        if form == "only":
            return "~" + login
        if form == "slash":
            return "~" + login + "/" + v
        if form == "nl":
            return "~" + login + "\n"
        return "~" + login + " " + v
    return v


SAFE_LOGIN = re.compile(r"[A-Za-z_][A-Za-z0-9_.-]*\Z")


def _expect(case, users):
    """Independent expectation from the *structure* of the generated values:
    None where this reference does not predict the value."""
    env = {"HOME": case["home"], "PRE": case["pre"]}
    known = {"HOME": True, "PRE": True}
    out = []
    for var in case["conf"]:
        ok, val = True, []
        for p in var["parts"]:
            if p[0] == "lit":
                val.append(p[1])
            elif p[0] == "esc":
                val.append(p[1] if p[1] in '$`"\\' else "\\" + p[1])
            elif p[0] == "ref":
                if known.get(p[1], True) is False:
                    ok = False
                val.append(env.get(p[1], ""))
            else:
                ok = False
        body = "".join(val)
        t = var.get("tilde")
        if not t and _value(var["parts"]).startswith("~"):
            ok = False
        if t:
            login, form = t
            head = None
            if login == "":
                head = env["HOME"] if known["HOME"] else None
            elif SAFE_LOGIN.match(login):
                head = users.get(login, "~" + login)
            if form == "space":
                body = "~" + login + " " + body          # quoted as a whole: no expansion
            elif head is None or "\n" in _value(var["parts"]):
                ok = False
            elif form == "only" or form == "nl":
                body = head
            else:
                body = head + "/" + body
        out.append(body if ok else None)
        env[var["name"]] = body if ok else ""
        known[var["name"]] = ok
    return out


class EnvStream(Stream):
    name = "env"
    coq_import = "From Cylc Require Import Model.TextCodec Model.Shell."
    check_fn = "Shell.check_case"
    show_fn = "Shell.model_out"
    needs_scratch_home = True
    n_hashseeds = 4
    shard_size = 60
    rule = ("environment sections of 1-6 variables written by the real JobFileWriter._write_runtime_environment and "
            "sourced by /bin/bash (env -i, HOME and locale chosen per case); values built from literal text over "
            "printable ASCII (space ' # = ~ ! * ? [ ] { } ( ) ; & | < > ...), unicode incl. NBSP/ideographic space, "
            "rare newlines, references $NAME/${NAME} to earlier/later/unset variables, backslash escapes, and the "
            "tilde shapes ~ ~/x ~login ~login/x '~login x'; kinds: valid (modelled), exotic (command substitution etc.: "
            "oracle only), malformed (unbalanced quote: robustness only); non-trivial = every case with >= 1 variable")

    def corpus(self):
        mk = lambda name, parts, tilde=None: {"name": name, "tilde": tilde, "parts": parts}
        return [
            {"kind": "valid", "home": "/var/tmp/h", "pre": "outer", "locale": "C.utf8", "conf": [
                mk("A", [["lit", "plain value with spaces  and 'single' #hash =eq"]]),
                mk("B", [["lit", "x"], ["ref", "A", True], ["lit", "y"]]),
                mk("C", [["lit", "file name"]], ["", "slash"]),
                mk("D", [], ["", "only"]),
                mk("E", [], ["root", "only"]),
                mk("F", [["lit", "d"]], ["nosuchuser", "slash"]),
                mk("G", [["lit", "two"]], ["one", "space"])]},
            {"kind": "valid", "home": "/h 1", "pre": "", "locale": "C", "conf": [
                mk("HOME", [["lit", "/new home"]]),
                mk("X", [["lit", "a~b é日本 !"]], ["", "slash"]),
                mk("Y", [["esc", "$"], ["lit", "HOME "], ["esc", "\\"], ["esc", "n"], ["ref", "X", False]])]},
            {"kind": "valid", "home": "/h", "pre": "p", "locale": "C.utf8", "conf": []},
        ]

    def gen(self, rng, tier):
        n = 220 if tier == "quick" else 4000
        cases = []
        for i in range(n):
            kind = "valid" if i % 10 < 8 else ("exotic" if i % 10 == 8 else "malformed")
            cases.append({"kind": kind, "home": rng.choice(HOMES), "pre": rng.choice(["outer", "", "a b"]),
                          "locale": rng.choice(["C", "C.utf8"]), "conf": _gen_conf(rng, kind)})
        return cases

    def impl(self, cases):
        import io
        import os
        import pwd
        import shutil
        import subprocess
        import tempfile
        from cylc.flow.job_file import JobFileWriter
        users = {p.pw_name: p.pw_dir for p in pwd.getpwall()}
        d = tempfile.mkdtemp(prefix="c41-", dir=os.environ.get("TMPDIR") or "/var/tmp")
        out = []
        try:
            for c in cases:
                try:
                    envconf = {v["name"]: value_of(v) for v in c["conf"]}
                    handle = io.StringIO()
                    JobFileWriter._write_runtime_environment(
                        handle, {"environment": envconf, "param_var": {}})
                    text = handle.getvalue()
                    script = text + "\n"
                    if envconf:
                        script += "cylc__job__inst__user_env\n"
                    for n in envconf:
                        script += "printf '%%s\\0' \"${%s}\"\n" % n
                    script += "printf 'OK'\n"
                    path = os.path.join(d, "env.sh")
                    with open(path, "w", encoding="utf-8") as fh:
                        fh.write(script)
                    p = subprocess.run(
                        ["/usr/bin/env", "-i", "HOME=" + c["home"], "PRE=" + c["pre"], "LC_ALL=" + c["locale"],
                         "PATH=/usr/bin:/bin", "/bin/bash", "--noprofile", "--norc", path],
                        stdout=subprocess.PIPE, stderr=subprocess.PIPE, stdin=subprocess.DEVNULL, timeout=20,
                        cwd=d)
                    fields = p.stdout.split(b"\0")
                    vals = None
                    if p.returncode == 0 and fields[-1] == b"OK" and len(fields) == len(envconf) + 1:
                        vals = [f.decode("utf-8", "surrogateescape") for f in fields[:-1]]
                    out.append({"text": text, "vals": vals, "rc": p.returncode,
                                "err": p.stderr.decode("utf-8", "replace")[-300:],
                                "users": {k: v for k, v in users.items()
                                          if any((x.get("tilde") or [None])[0] == k for x in c["conf"])}})
                except Exception as e:  # noqa
                    out.append({"exc": f"{type(e).__name__}: {e}"})
        finally:
            shutil.rmtree(d, ignore_errors=True)
        return out

    # ---- Gallina ----
    def coq_case(self, c, r):
        if c["kind"] != "valid" or "exc" in r:
            return None
        if r["vals"] is not None and any(any(0xDC80 <= ord(ch) <= 0xDCFF for ch in v) for v in r["vals"]):
            return None
        pair = lambda a, b: q.cpair(ctext(a), ctext(b))
        return q.crecord(
            c_env0=q.clist([pair("HOME", c["home"]), pair("PRE", c["pre"])]),
            c_users=q.clist(pair(k, v) for k, v in sorted(r["users"].items())),
            c_conf=q.clist(pair(v["name"], value_of(v)) for v in c["conf"]),
            c_text=ctext(r["text"]),
            c_vals=q.copt(r["vals"], lambda l: q.clist(ctext(x) for x in l)))

    # ---- oracle ----
    def oracle(self, c, r):
        if "exc" in r:
            return "unexpected exception: " + r["exc"]
        if c["kind"] == "malformed":
            return None
        if r["vals"] is None:
            if c["kind"] == "exotic":
                return None
            return f"bash failed on the written environment section (rc={r['rc']}): {r['err']}"
        names = [v["name"] for v in c["conf"]]
        values = [value_of(v) for v in c["conf"]]
        # literal values arrive unchanged
        for n, v, got in zip(names, values, r["vals"]):
            if not (set(v) & SPECIAL) and not v.startswith("~") and got != v:
                return f"literal value of {n} changed: configured {v!r}, job sees {got!r}"
        # references / escapes / tilde shapes, from the structure of the generated values
        exp = _expect(c, r["users"])
        for n, e, got in zip(names, exp, r["vals"]):
            if e is not None and got != e:
                return f"value of {n}: expected {e!r} (definitions evaluated in configuration order), job sees {got!r}"
        # emission order (only when no value contains a newline)
        if names and not any("\n" in v for v in values):
            lines = r["text"].split("\n")
            exports = [ln for ln in lines if ln.startswith("    export")]
            if len(exports) != 1 or exports[0].split()[1:] != names:
                return f"export line {exports} does not list the variables in configuration order {names}"
            assigned = [ln[4:].split("=", 1)[0] for ln in lines
                        if ln.startswith("    ") and "=" in ln and not ln.startswith("    export")
                        and not ln.startswith("    #")]
            if assigned != names:
                return f"definitions emitted in order {assigned}, configured order {names}"
        return None

    def key(self, c, r):
        if not c["conf"]:
            return None
        return super().key(c, r)

    def shrink(self, c):
        conf = c["conf"]
        for i in range(len(conf)):
            yield dict(c, conf=conf[:i] + conf[i + 1:])
        for i, v in enumerate(conf):
            if len(v["parts"]) > 1:
                for j in range(len(v["parts"])):
                    nv = dict(v, parts=v["parts"][:j] + v["parts"][j + 1:])
                    yield dict(c, conf=conf[:i] + [nv] + conf[i + 1:])
            if v.get("tilde"):
                yield dict(c, conf=conf[:i] + [dict(v, tilde=None)] + conf[i + 1:])


# ---------------------------------------------------------------------------
# environment assembled by the real WorkflowConfig (inheritance + environment filter)
# ---------------------------------------------------------------------------
CFG_LIT = "abXY019 =~!*?[]{}();&|<>%:./-+@^_éß日"
CFG_NAMES = ["A", "B", "FOO", "BAR_1", "_x", "v0", "PATH_TO", "Z9", "OUT", "cylc_var", "LongerVariableName", "HOME"]


def _cfg_lit(rng, lo, hi):
    return "".join(rng.choice(CFG_LIT) for _ in range(rng.randint(lo, hi)))


def _cfg_parts(rng, known):
    """value parts for a flow.cylc environment item: no quotes, '#', backslash, leading/trailing blanks"""
    parts = []
    for _ in range(rng.choice([1, 1, 2, 3])):
        if known and rng.random() < 0.45:
            parts.append(["ref", rng.choice(known), rng.random() < 0.6])
        else:
            parts.append(["lit", _cfg_lit(rng, 0, 6)])
    v = _value(parts)
    if v != v.strip() or v.startswith("~") or "  " in v:
        parts = [["lit", "v"]] + parts + [["lit", "."]]
    return parts


def _gen_cfg(rng):
    fams = rng.choice([[], ["F1"], ["F1", "F2"]])
    inherit = {"root": []}
    if "F1" in fams:
        inherit["F1"] = []
    if "F2" in fams:
        inherit["F2"] = rng.choice([[], ["F1"]])
    if fams == ["F1", "F2"]:
        opts = [["F1"], ["F2"], ["F2", "F1"]] + ([["F1", "F2"]] if not inherit["F2"] else [])
    elif fams:
        opts = [["F1"], []]
    else:
        opts = [[]]
    inherit["t"] = rng.choice(opts)
    pool = rng.sample(CFG_NAMES, rng.randint(3, 7))
    nss, defined = {}, []
    for name in ["root"] + fams + ["t"]:
        n = {"inherit": inherit[name], "env": None, "incl": None, "excl": None}
        if rng.random() < (0.85 if name in ("root", "t") else 0.6):
            env = []
            for var in rng.sample(pool, rng.randint(0, min(4, len(pool)))):
                env.append({"name": var, "tilde": None, "parts": _cfg_parts(rng, defined + [e["name"] for e in env])})
            n["env"] = env
            defined += [e["name"] for e in env if e["name"] not in defined]
        r = rng.random()
        if r < (0.55 if name == "t" else 0.25):
            cand = pool + ["NOT_DEFINED"]
            n["incl"] = rng.sample(cand, rng.randint(0 if r < 0.05 else 1, min(5, len(cand))))
        if rng.random() < 0.3:
            n["excl"] = rng.sample(pool, rng.randint(0, 2))
        nss[name] = n
    return {"kind": "valid", "nss": nss, "order": ["root"] + fams + ["t"],
            "target": rng.choice(["t", "t", "t"] + fams + ["root"]),
            "home": rng.choice(HOMES), "pre": "outer", "locale": rng.choice(["C", "C.utf8"])}


def _flow_text(c):
    out = ["[scheduling]", "    [[graph]]", "        R1 = t", "[runtime]"]
    for name in c["order"]:
        n = c["nss"][name]
        out.append(f"    [[{name}]]")
        if name == "t":
            out.append("        script = true")
        if n["inherit"]:
            out.append("        inherit = " + ", ".join(n["inherit"]))
        if n["incl"] is not None or n["excl"] is not None:
            out.append("        [[[environment filter]]]")
            if n["incl"] is not None:
                out.append("            include = " + ", ".join(n["incl"]))
            if n["excl"] is not None:
                out.append("            exclude = " + ", ".join(n["excl"]))
        if n["env"] is not None:
            out.append("        [[[environment]]]")
            for v in n["env"]:
                out.append(f"            {v['name']} = {value_of(v)}")
    return "\n".join(out) + "\n"


def _ref_env(c, ancestors):
    """reference: configured environment of the target in definition order, then the filter"""
    env, incl, excl, have_env = {}, None, None, False
    by_name = {}
    for name in reversed(ancestors):              # root first
        n = c["nss"][name]
        if n["env"] is not None:
            have_env = True
            for v in n["env"]:
                env[v["name"]] = value_of(v)       # dict: overridden keys keep their place
                by_name[v["name"]] = v
        if n["incl"] is not None:
            incl = n["incl"]
        if n["excl"] is not None:
            excl = n["excl"]
    if not have_env:
        return []
    incl, excl = incl or [], excl or []
    return [by_name[k] for k in env if (not incl or k in incl) and k not in excl]


class CfgEnvStream(Stream):
    name = "cfgenv"
    coq_import = "From Cylc Require Import Model.TextCodec Model.Shell Model.EnvFilter."
    check_fn = "EnvFilter.check_case"
    show_fn = "EnvFilter.model_out"
    needs_scratch_home = True
    n_hashseeds = 4
    shard_size = 30
    impl_timeout = 1200
    rule = ("generated flow.cylc files (root, 0-2 families, task t; each namespace with an optional [[[environment]]] of "
            "0-4 variables whose values refer to variables defined earlier, and an optional [[[environment filter]]] with "
            "include / exclude lists in random order) parsed by the real WorkflowConfig; the environment of one namespace "
            "is written with the real JobFileWriter and evaluated in /bin/bash; every case is non-trivial")

    def corpus(self):
        mk = lambda name, parts: {"name": name, "tilde": None, "parts": parts}
        ns = lambda inherit=(), env=None, incl=None, excl=None: {"inherit": list(inherit), "env": env,
                                                                   "incl": incl, "excl": excl}
        base = {"kind": "valid", "home": "/h", "pre": "outer", "locale": "C.utf8", "target": "t"}
        return [
            # the seeded scenario: include list in a different order than the definitions
            dict(base, order=["root", "t"], nss={
                "root": ns(env=[mk("C41_BASE", [["lit", "/data/run 1"]]), mk("C41_NAME", [["lit", "file (v2) 3.txt"]]),
                                mk("C41_SCRATCH", [["lit", "not wanted by t"]]), mk("C41_LABEL", [["lit", "label=grüße"]])]),
                "t": ns(env=[mk("C41_OUT", [["ref", "C41_BASE", True], ["lit", "/"], ["ref", "C41_NAME", True]])],
                        incl=["C41_OUT", "C41_LABEL", "C41_NAME", "C41_BASE"])}),
            dict(base, order=["root", "F1", "F2", "t"], nss={
                "root": ns(env=[mk("A", [["lit", "1"]]), mk("B", [["lit", "b"], ["ref", "A", False]])]),
                "F1": ns(env=[mk("C", [["ref", "B", True], ["lit", "-c"]]), mk("A", [["lit", "one"]])], excl=["B"]),
                "F2": ns(inherit=["F1"], incl=["C", "A", "D"]),
                "t": ns(inherit=["F2"], env=[mk("D", [["ref", "C", True], ["ref", "A", True]])])}),
        ]

    def gen(self, rng, tier):
        n = 90 if tier == "quick" else 1500
        return [_gen_cfg(rng) for _ in range(n)]

    def impl(self, cases):
        import io
        import os
        import shutil
        import subprocess
        import tempfile
        from types import SimpleNamespace
        from cylc.flow.config import WorkflowConfig
        from cylc.flow.job_file import JobFileWriter
        base = tempfile.mkdtemp(prefix="c41cfg-", dir=os.environ.get("TMPDIR") or "/var/tmp")
        cwd = os.getcwd()
        out = []
        try:
            for i, c in enumerate(cases):
                d = os.path.join(base, "w%d" % i)
                run_dir = os.path.join(d, "cylc-run", "c41")
                try:
                    os.makedirs(run_dir)
                    flow = os.path.join(run_dir, "flow.cylc")
                    with open(flow, "w", encoding="utf-8") as fh:
                        fh.write(_flow_text(c))
                    config = WorkflowConfig("c41", flow, SimpleNamespace(), run_dir=run_dir)
                    tgt = c["target"]
                    anc = list(config.runtime["linearized ancestors"][tgt])
                    envd = config.cfg["runtime"][tgt].get("environment", {})
                    env = [[str(k), str(v)] for k, v in envd.items()]
                    handle = io.StringIO()
                    JobFileWriter._write_runtime_environment(handle, {"environment": envd, "param_var": {}})
                    text = handle.getvalue()
                    script = text + "\n" + ("cylc__job__inst__user_env\n" if env else "")
                    for k, _ in env:
                        script += "printf '%%s\\0' \"${%s}\"\n" % k
                    script += "printf 'OK'\n"
                    path = os.path.join(d, "env.sh")
                    with open(path, "w", encoding="utf-8") as fh:
                        fh.write(script)
                    p = subprocess.run(
                        ["/usr/bin/env", "-i", "HOME=" + c["home"], "PRE=" + c["pre"], "LC_ALL=" + c["locale"],
                         "PATH=/usr/bin:/bin", "/bin/bash", "--noprofile", "--norc", path],
                        stdout=subprocess.PIPE, stderr=subprocess.PIPE, stdin=subprocess.DEVNULL, timeout=20, cwd=d)
                    fields = p.stdout.split(b"\0")
                    vals = None
                    if p.returncode == 0 and fields[-1] == b"OK" and len(fields) == len(env) + 1:
                        vals = [f.decode("utf-8", "surrogateescape") for f in fields[:-1]]
                    out.append({"ancestors": anc, "env": env, "text": text, "vals": vals, "rc": p.returncode,
                                "err": p.stderr.decode("utf-8", "replace")[-300:]})
                except Exception as e:  # noqa
                    out.append({"exc": f"{type(e).__name__}: {e}"[:400]})
                finally:
                    os.chdir(cwd)
                    shutil.rmtree(d, ignore_errors=True)
        finally:
            shutil.rmtree(base, ignore_errors=True)
        return out

    def coq_case(self, c, r):
        if "exc" in r or r["vals"] is None:
            return None
        pair = lambda a, b: q.cpair(ctext(a), ctext(b))
        names = lambda l: q.copt(l, lambda x: q.clist(ctext(k) for k in x))
        conf_t = "(list (Shell.str * Shell.str))"
        hier = q.clist(
            q.capp("EnvFilter.Build_ns",
                   q.copt(c["nss"][n]["env"], lambda e: q.clist(pair(v["name"], value_of(v)) for v in e)),
                   names(c["nss"][n]["incl"]), names(c["nss"][n]["excl"]))
            for n in reversed(r["ancestors"]))
        env = q.clist(pair(k, v) for k, v in r["env"])
        shell = q.capp("Shell.Build_case",
                       q.clist([pair("HOME", c["home"]), pair("PRE", c["pre"])]), "(@nil (Shell.str * Shell.str))",
                       env, ctext(r["text"]), q.copt(r["vals"], lambda l: q.clist(ctext(x) for x in l)))
        return q.capp("EnvFilter.Build_case", hier, env, shell)

    def oracle(self, c, r):
        if "exc" in r:
            return "unexpected exception: " + r["exc"]
        ref = _ref_env(c, r["ancestors"])
        want_names = [v["name"] for v in ref]
        got_names = [k for k, _ in r["env"]]
        if got_names != want_names:
            return (f"environment of {c['target']} reaches the job file writer as {got_names}; configured "
                    f"(definition order, after include/exclude) is {want_names}")
        for (k, v), var in zip(r["env"], ref):
            if v != value_of(var):
                return f"configured value of {k} changed: {value_of(var)!r} -> {v!r}"
        if r["vals"] is None:
            return f"bash failed on the written environment section (rc={r['rc']}): {r['err']}"
        exp = _expect({"home": c["home"], "pre": c["pre"], "conf": ref}, {})
        for k, e, got in zip(got_names, exp, r["vals"]):
            if e is not None and got != e:
                return f"value of {k}: expected {e!r} (expansion in definition order), job sees {got!r}"
        return None

    def shrink(self, c):
        for name in c["order"]:
            n = c["nss"][name]
            if n["env"]:
                for i in range(len(n["env"])):
                    yield dict(c, nss=dict(c["nss"], **{name: dict(n, env=n["env"][:i] + n["env"][i + 1:])}))
            for f in ("incl", "excl"):
                if n[f]:
                    for i in range(len(n[f])):
                        yield dict(c, nss=dict(c["nss"], **{name: dict(n, **{f: n[f][:i] + n[f][i + 1:]})}))


STREAMS = [EnvStream(), CfgEnvStream()]

META = {
    "level_text": (
        "Coq theorems over Model/Shell.v for all values, environments and passwd tables: a value without $ ` \\ \" "
        "that does not start with '~' is emitted as one double-quoted word and bash evaluates it to exactly that value "
        "(c41_literal); the tilde shapes (~, ~/x, ~login, ~login/x) evaluate to HOME / the login's home directory "
        "followed by the literal rest, and '~login x' stays literal (c41_tilde_*); assignments are emitted in "
        "configuration order and evaluated sequentially, so a later value ${x} sees the earlier literal value of x "
        "(c41_order, c41_later_refers_earlier); WorkflowConfig.filter_env returns the order-preserving sub-sequence of "
        "the configured environment with exactly the included-and-not-excluded variables, values untouched, and "
        "inheritance keeps the order of variables already present (c41_filter_env_*, c41_inherit_keeps_order). "
        "The writer model is compared as text with the real JobFileWriter "
        "output and the bash model with the variable values after sourcing that output in the real /bin/bash; the environment "
        "assembly model (Model/EnvFilter.v) is compared with the real WorkflowConfig on generated flow.cylc files with "
        "families and environment filters."),
    "level_note": (
        "bash itself is modelled by hand for the emitted fragment only (double-quote specials, $NAME/${NAME}, "
        "tilde-prefix) and validated differentially; command substitution and other expansions are outside the model "
        "(oracle-only 'exotic' cases). Parameter templates (%(x)s) are excluded."),
    "technique": "Coq proof (induction over the double-quote scanner) + text and bash differential correspondence + structural oracle",
    "design_ref": "5/C41",
}
