"""C14 — graph parsing is faithful and insensitive to presentation
(cylc/flow/graph_parser.py: parse_graph, _proc_dep_pair, _compute_triggers,
_set_output_opt)."""
import hashlib
import itertools
import json

from vp.core import Stream
from vp import coqfmt as q
from vp.props import graphlib_c14c15 as G

GEN = ["famtables"]

TRUSTED = [
    "hand model Model/GraphParse.v (parse_graph stages) + Model/GraphBase.v (_proc_dep_pair, _compute_triggers, "
    "_set_triggers, _set_output_opt) at token level: a node NAME[OFFSET]:QUAL? is one token, blanks/comments/newlines are "
    "tokens; the regular expressions are modelled as token classes",
    "the harness's tokens -> text printer and its reading of stored trigger expressions (truth tables by Python eval)",
    "Gen/FamTables.v printed from the imported tables (ALT_QUALIFIERS used for qualifier standardisation)",
]
ASSUMES = [
    "no task name is a word-delimited part of another node's text (names t<i>); corpus cases of kind 'names' probe this "
    "assumption on the implementation and report the known finding",
    "no parameters, xtriggers, workflow-state polling nodes, families (C15), offsets on the right of an arrow",
    "cylc7 back-compat mode off",
]

ALIAS = {"succeed": "succeeded", "fail": "failed", "finish": "finished", "start": "started",
         "submit": "submitted", "submit-fail": "submit-failed", "expire": "expired"}
OPPOSITE = {"succeeded": "failed", "failed": "succeeded", "submitted": "submit-failed", "submit-failed": "submitted"}
FAMQ = {b + "-" + x for b in ALIAS for x in ("all", "any")}
CUSTOM = ["x", "y1", "out-a"]

SIG_EOC = "c14:plain-node-ends-one-chain-and-is-inside-another"
SIG_BADNODE = "c14:bad-node-on-non-last-line-accepted"
SIG_NAMES = "c14:name-is-word-part-of-another-node"
SIG_EMPTYCOND = "c14:dangling-operator-in-conditional-left-accepted"
SIG_RESUB = "c14:offset-node-with-alias-qualifier-substituted-twice"


# ------------------------------------------------------------------ AST helpers
def rn(node, s=False):
    return {"s": bool(s), "node": node}


def group_tokens(g):
    toks = []
    for i, r in enumerate(g):
        if i:
            toks.append("&")
        if r["s"]:
            toks.append("!")
        toks.append(["N", r["node"]])
    return toks


def chain_tokens(ch):
    toks = G.expr_tokens(ch["head"])
    for g in ch["groups"]:
        toks = toks + ["=>"] + group_tokens(g)
    return toks


def group_as_expr(g):
    """a group used as the left side of the next pair / head of a cut line"""
    e = ["N", g[-1]["node"]]
    for r in reversed(g[:-1]):
        e = ["&", ["N", r["node"]], e]
    return e


def has_or_or_paren(e):
    if e[0] == "N":
        return False
    if e[0] in ("|", "()"):
        return True
    return has_or_or_paren(e[1]) or has_or_or_paren(e[2])


def and_pieces(e):
    if e[0] == "&":
        return and_pieces(e[1]) + and_pieces(e[2])
    return [e]


def std(qual):
    return "succeeded" if qual is None else ALIAS.get(qual, qual)


def node_txt(n):
    return G.node_text(n, ())


# ------------------------------------------------------------------ reference semantics
class RefError(Exception):
    pass


def norm_piece(e):
    """(normalised text, atoms sorted, truth table) of a left piece"""
    def txt(x):
        if x[0] == "N":
            n = x[1]
            o = std(n["q"])
            base = G.name_text(n["n"], ()) + G.OFFS[n["off"]]
            if o == "finished":
                return "(%s:succeeded|%s:failed)" % (base, base)
            return base + ":" + o
        if x[0] == "()":
            return "(" + txt(x[1]) + ")"
        return txt(x[1]) + x[0] + txt(x[2])
    t = txt(e)
    tt = G.truth_table(t)
    if tt is None:
        raise RefError("reference cannot read " + t)
    return t, tt[0], tt[1]


def ref_semantics(lines, infer):
    """Reference meaning of a list of chains.
    infer(rnode_text, is_final_group) -> bool: is ':succeeded' inferred for a plain right-hand node.
    Returns canonical dict or raises RefError (graph must be rejected)."""
    asserts = {}
    trig = {}
    tasks = set()

    def add_assert(t, out, optional):
        if out in FAMQ:
            raise RefError("family qualifier on a task")
        if out == "finished":
            if optional:
                raise RefError("finish can't be optional")
            add_assert(t, "succeeded", True)
            add_assert(t, "failed", True)
            return
        if out in ("expired", "submit-failed") and not optional:
            raise RefError("%s must be optional" % out)
        if asserts.setdefault((t, out), optional) != optional:
            raise RefError("t%d:%s both optional and required" % (t, out))

    for ch in lines:
        for n in G.expr_nodes(ch["head"]):
            add_assert(n["n"], std(n["q"]), n["opt"])
            if not n["off"]:
                tasks.add(n["n"])
        prev = ch["head"]
        for i, g in enumerate(ch["groups"]):
            if i > 0:
                if any(r["s"] for r in ch["groups"][i - 1]):
                    raise RefError("suicide on the left")
                prev = group_as_expr(ch["groups"][i - 1])
            for n in G.expr_nodes(prev):
                if std(n["q"]) in FAMQ:
                    raise RefError("family qualifier on a task")
            pieces = [prev] if has_or_or_paren(prev) else and_pieces(prev)
            final = i == len(ch["groups"]) - 1
            for p in pieces:
                text, atoms, tt = norm_piece(p)
                for r in g:
                    n = r["node"]
                    if n["off"]:
                        raise RefError("offset on the right (outside the reference)")
                    tasks.add(n["n"])
                    d = trig.setdefault(n["n"], {})
                    if text in d and d[text][2] != r["s"]:
                        raise RefError("same trigger for t and !t")
                    d[text] = [atoms, tt, r["s"]]
                    if r["s"]:
                        continue
                    if n["q"] is not None:
                        add_assert(n["n"], std(n["q"]), n["opt"])
                    elif n["opt"]:
                        add_assert(n["n"], "succeeded", True)
                    elif infer(node_txt(n), final):
                        add_assert(n["n"], "succeeded", False)
    for (t, out), optional in asserts.items():
        opp = OPPOSITE.get(out)
        if opp is not None and (t, opp) in asserts and not (optional and asserts[(t, opp)]):
            raise RefError("opposite outputs t%d:%s/%s must both be optional" % (t, out, opp))
    return {"tasks": sorted(tasks),
            "trigs": {str(t): sorted(d.values()) for t, d in trig.items() if d},
            "opt": sorted([t, o, [b, b, True]] for (t, o), b in asserts.items())}


def reference(ast):
    return ref_semantics(ast, lambda txt, final: not final)


def impl_like_reference(lines):
    """what the code computes for this particular decomposition into lines: a plain
    right-hand node gets ':succeeded' unless its text ends SOME line's chain"""
    eoc = set()
    for ch in lines:
        last = ch["groups"][-1] if ch["groups"] else None
        if last is None:
            eoc.update(G.detok(G.expr_tokens(p), ()) for p in and_pieces(ch["head"]))
        else:
            eoc.update(("!" if r["s"] else "") + node_txt(r["node"]) for r in last)
    return ref_semantics(lines, lambda txt, final: txt not in eoc)


def eoc_unsafe(ast):
    """plain node texts that end one chain, are inside another, and are nobody's head"""
    finals, mids, heads = set(), set(), set()
    for ch in ast:
        heads.update(node_txt(n) for n in G.expr_nodes(ch["head"]))
        for i, g in enumerate(ch["groups"]):
            for r in g:
                n = r["node"]
                if r["s"] or n["q"] is not None or n["opt"]:
                    continue
                (finals if i == len(ch["groups"]) - 1 else mids).add(node_txt(n))
    return (finals & mids) - heads


def resub_prone(ast):
    """some head expression has NAME[OFF]:alias next to another node NAME[OFF] whose output is that alias's standard name"""
    for ch in ast:
        ns = G.expr_nodes(ch["head"])
        for a in ns:
            if a["off"] and a["q"] in ALIAS:
                for b in ns:
                    if b is not a and b["n"] == a["n"] and b["off"] == a["off"] and b["q"] != a["q"] \
                            and std(b["q"]) == ALIAS[a["q"]]:
                        return True
    return False


# ------------------------------------------------------------------ rendering
def cut_lines(ast, rng, mode):
    """chains -> list of chains (lines): cut chains at groups, shuffle, duplicate"""
    lines = []
    for ch in ast:
        cur = {"head": ch["head"], "groups": []}
        gs = ch["groups"]
        for i, g in enumerate(gs):
            cur["groups"].append(g)
            cuttable = i < len(gs) - 1 and not any(r["s"] for r in g)
            cut = cuttable and (mode == "pairs" or (mode == "random" and rng.random() < 0.5))
            if cut:
                lines.append(cur)
                cur = {"head": group_as_expr(g), "groups": []}
        lines.append(cur)
    if mode != "chains":
        rng.shuffle(lines)
        for _ in range(rng.randint(0, 2)):
            lines.insert(rng.randrange(len(lines) + 1), rng.choice(lines))
    return lines


def phys_tokens(lines_toks, rng, style):
    """logical lines (token lists) -> physical token list with blanks, comments,
    blank lines and continuation breaks"""
    ws_p = {"tight": 0.0, "plain": 1.0, "heavy": 0.8, "cont": 0.5, "wild": 0.5}[style]
    com_p = {"tight": 0.0, "plain": 0.0, "heavy": 0.5, "cont": 0.3, "wild": 0.4}[style]
    brk_p = {"tight": 0.0, "plain": 0.0, "heavy": 0.0, "cont": 0.6, "wild": 0.4}[style]

    def ws():
        return ["ws", 0 if style == "plain" else rng.randrange(len(G.WS))]

    def eol(out):
        if rng.random() < ws_p / 2:
            out.append(ws())
        if rng.random() < com_p:
            out.append(["com", rng.randrange(len(G.COMS))])
        out.append("nl")

    def filler(out):
        while rng.random() < com_p / 2:
            if rng.random() < 0.5:
                out.append(ws())
            if rng.random() < 0.6:
                out.append(["com", rng.randrange(len(G.COMS))])
            out.append("nl")

    out = []
    filler(out)
    for toks in lines_toks:
        if rng.random() < ws_p / 2:
            out.append(ws())
        for i, t in enumerate(toks):
            op = t in ("=>", "&", "|")
            if op and 0 < i and rng.random() < brk_p / 2:
                # break BEFORE the operator: next physical line starts with it
                eol(out)
                filler(out)
                out.append(t)
                if rng.random() < ws_p:
                    out.append(ws())
                continue
            out.append(t)
            if op and i < len(toks) - 1 and rng.random() < brk_p / 2:
                # break AFTER the operator
                eol(out)
                filler(out)
                if rng.random() < ws_p / 2:
                    out.append(ws())
                continue
            if i < len(toks) - 1:
                nxt = toks[i + 1]
                opn = nxt in ("=>", "&", "|")
                if style == "plain":
                    if op or opn:
                        out.append(ws())
                elif rng.random() < ws_p and (op or opn or t in ("(", "!") or nxt == ")" or rng.random() < 0.3):
                    # never a blank between two node texts (there is none in a well-formed line anyway)
                    out.append(ws())
        eol(out)
        filler(out)
    while out and out[-1] == "nl" and rng.random() < 0.5:
        out.pop()
    return out


STYLES = [("chains", "plain"), ("pairs", "plain"), ("random", "tight"), ("chains", "heavy"),
          ("random", "cont"), ("random", "wild"), ("pairs", "wild"), ("chains", "cont")]


def renderings(ast, rng, n=8):
    out = []
    for mode, style in STYLES[:n]:
        lines = cut_lines(ast, rng, mode)
        toks = phys_tokens([chain_tokens(l) for l in lines], rng, style)
        out.append({"lines": lines, "toks": toks, "style": mode + "/" + style})
    return out


# ------------------------------------------------------------------ generators
def gen_profiles(rng, ntasks):
    prof = {}
    for t in range(ntasks):
        prof[t] = {"succ_opt": rng.random() < 0.35, "started_opt": rng.random() < 0.5,
                   "submit_opt": rng.random() < 0.4,
                   "custom": {c: rng.random() < 0.4 for c in CUSTOM}}
    return prof


def gen_node(rng, t, prof, side, final=False):
    """a node for task t consistent with its profile; side in {'L','R'}"""
    p = prof[t]
    k = rng.random()
    if k < 0.5:
        if p["succ_opt"]:
            # plain name for an optional-success task only where nothing is inferred
            node = G.mknode(t, 0, None, not (side == "R" and final and rng.random() < 0.5))
        else:
            node = G.mknode(t, 0, None, False)
    elif k < 0.62:
        node = G.mknode(t, 0, rng.choice(["succeed", "succeeded"]), p["succ_opt"])
    elif k < 0.72 and p["succ_opt"]:
        node = G.mknode(t, 0, rng.choice(["fail", "failed"]), True)
    elif k < 0.78 and p["succ_opt"]:
        node = G.mknode(t, 0, rng.choice(["finish", "finished"]), False)
    elif k < 0.84:
        node = G.mknode(t, 0, rng.choice(["start", "started"]), p["started_opt"])
    elif k < 0.88:
        node = G.mknode(t, 0, rng.choice(["submit", "submitted"]), p["submit_opt"])
    elif k < 0.91 and p["submit_opt"]:
        node = G.mknode(t, 0, rng.choice(["submit-fail", "submit-failed"]), True)
    elif k < 0.93:
        node = G.mknode(t, 0, rng.choice(["expire", "expired"]), True)
    else:
        c = rng.choice(CUSTOM)
        node = G.mknode(t, 0, c, p["custom"][c])
    if side == "L" and rng.random() < 0.2:
        node["off"] = rng.randrange(1, len(G.OFFS))
    return node


def gen_head(rng, prof, tasks, depth):
    def leaf():
        return gen_node(rng, rng.choice(tasks), prof, "L")

    def ge(depth, lvl):
        if lvl == 0:
            a = ge(depth, 1)
            if depth > 0 and rng.random() < 0.35:
                return ["|", a, ge(depth - 1, 0)]
            return a
        if lvl == 1:
            a = ge(depth, 2)
            if depth > 0 and rng.random() < 0.4:
                return ["&", a, ge(depth - 1, 1)]
            return a
        if depth > 0 and rng.random() < 0.2:
            return ["()", ge(depth - 1, 0)]
        return ["N", leaf()]
    return ge(depth, 0)


def gen_ast(rng, size):
    ntasks = rng.randint(2, 4 + size)
    prof = gen_profiles(rng, ntasks)
    tasks = list(range(ntasks))
    ast = []
    for _ in range(rng.randint(1, 2 + size)):
        head = gen_head(rng, prof, tasks, rng.randint(0, 2))
        ngroups = rng.choice([0, 1, 1, 2, 2, 3])
        groups = []
        for gi in range(ngroups):
            final = gi == ngroups - 1
            g = []
            for t in rng.sample(tasks, rng.randint(1, min(3, ntasks))):
                s = final and rng.random() < 0.15
                g.append(rn(gen_node(rng, t, prof, "R", final), s))
            groups.append(g)
        ast.append({"head": head, "groups": groups})
    return ast


def small_enough(ast):
    for ch in ast:
        if len({(n["n"], n["off"], std(n["q"])) for n in G.expr_nodes(ch["head"])}) > 7:
            return False
    return True


def make_valid_case(rng, size, nrend):
    for _ in range(50):
        ast = gen_ast(rng, size)
        if not small_enough(ast):
            continue
        try:
            reference(ast)
        except RefError:
            kind = "inconsistent"
        else:
            kind = "eoc-unsafe" if eoc_unsafe(ast) else "valid"
        return {"kind": kind, "ast": ast, "rend": renderings(ast, rng, nrend)}
    raise RuntimeError("generator stuck")


def make_inconsistent_case(rng, size, nrend):
    """a well-formed AST with one '?' flipped (or one qualifier changed to the opposite
    output) so that the reference rejects it: every rendering must be rejected"""
    import copy
    for _ in range(200):
        ast = gen_ast(rng, size)
        if not small_enough(ast) or eoc_unsafe(ast):
            continue
        try:
            reference(ast)
        except RefError:
            continue
        a2 = copy.deepcopy(ast)
        nodes = [n for ch in a2 for n in G.expr_nodes(ch["head"])]
        nodes += [r["node"] for ch in a2 for g in ch["groups"] for r in g if not r["s"]]
        n = rng.choice(nodes)
        k = rng.random()
        if k < 0.6:
            n["opt"] = not n["opt"]
        elif k < 0.8:
            n["q"] = rng.choice(["fail", "failed"])
            n["opt"] = False
        else:
            n["q"] = rng.choice(["expire", "submit-fail", "finish"])
            n["opt"] = n["q"] == "finish"
        if eoc_unsafe(a2):
            continue
        try:
            reference(a2)
        except RefError:
            return {"kind": "inconsistent", "ast": a2, "rend": renderings(a2, rng, nrend)}
    raise RuntimeError("generator stuck")


# ---- malformed renderings: one mutation of a well-formed line list
def mutate(rng, ast):
    lines = cut_lines(ast, rng, "chains")
    ltoks = [chain_tokens(l) for l in lines]
    kinds = ["andand", "oror", "dangling", "leading", "or-right", "suicide-left", "paren", "empty", "nospace-op"]
    rng.shuffle(kinds)
    for kind in kinds:
        cand = [i for i, l in enumerate(lines) if l["groups"]]
        if kind == "andand":
            pos = [(i, j) for i, t in enumerate(ltoks) for j, x in enumerate(t) if x == "&"]
            if pos:
                i, j = rng.choice(pos)
                ltoks[i] = ltoks[i][:j] + ["&"] + ltoks[i][j:]
            else:
                ltoks[0] = ltoks[0] + ["&", "&", ["N", G.mknode(40)]]
        elif kind == "oror":
            pos = [(i, j) for i, t in enumerate(ltoks) for j, x in enumerate(t) if x == "|"]
            if pos:
                i, j = rng.choice(pos)
                ltoks[i] = ltoks[i][:j] + ["|"] + ltoks[i][j:]
            else:
                ltoks[0] = [["N", G.mknode(40)], "|", "|"] + ltoks[0]
        elif kind == "dangling":
            ltoks[-1] = ltoks[-1] + [rng.choice(["=>", "&", "|"])]
        elif kind == "leading":
            ltoks[0] = [rng.choice(["=>", "&", "|"])] + ltoks[0]
        elif kind == "or-right":
            if not cand:
                continue
            i = rng.choice(cand)
            ltoks[i] = ltoks[i] + ["|", ["N", G.mknode(41)]]
        elif kind == "suicide-left":
            if not cand:
                continue
            i = rng.choice(cand)
            j = next(k for k, x in enumerate(ltoks[i]) if isinstance(x, list))
            ltoks[i] = ltoks[i][:j] + ["!"] + ltoks[i][j:]
        elif kind == "paren":
            if not cand:
                continue
            i = rng.choice(cand)
            a = ltoks[i].index("=>")
            k = rng.randrange(4)
            if k == 0:
                ltoks[i] = ["("] + ltoks[i]
            elif k == 1:
                ltoks[i] = ltoks[i][:a] + [")"] + ltoks[i][a:]
            elif k == 2:
                ltoks[i] = ltoks[i] + [")"]
            else:
                ltoks[i] = ltoks[i][:a + 1] + ["("] + ltoks[i][a + 1:]
        elif kind == "empty":
            if not cand:
                continue
            i = rng.choice(cand)
            a = ltoks[i].index("=>")
            k = rng.randrange(3)
            if k == 0:
                ltoks[i] = ltoks[i][:a] + ["=>"] + ltoks[i][a:]          # a => => b
            elif k == 1 and not has_or_or_paren(lines[i]["head"]):
                # (with | or parentheses on the left this is accepted: separate finding, see corpus)
                ltoks[i] = ltoks[i][:a] + ["&"] + ltoks[i][a:]           # a & => b
            else:
                ltoks[i] = ltoks[i][:a + 1] + ["&"] + ltoks[i][a + 1:]   # a => & b
        elif kind == "nospace-op":
            # "a b => c": two names separated by blanks only
            ltoks[0] = [["N", G.mknode(42)], ["ws", 0]] + ltoks[0]
            if not (isinstance(ltoks[0][2], list) and ltoks[0][2][0] == "N"):
                continue
        return kind, ltoks
    return None


def make_malformed_case(rng, size, nrend):
    for _ in range(50):
        ast = gen_ast(rng, size)
        try:
            reference(ast)
        except RefError:
            continue
        m = mutate(rng, ast)
        if m is None:
            continue
        kind, ltoks = m
        rend = []
        for style in ["plain", "tight", "heavy", "cont", "wild", "wild"][:max(3, nrend - 2)]:
            rend.append({"toks": phys_tokens(ltoks, rng, style), "style": "mut/" + style})
        return {"kind": "malformed", "mutation": kind, "ast": ast, "rend": rend}
    raise RuntimeError("generator stuck")


# ---- corpus: witnesses of the findings
def _n(i, qual=None, opt=False, off=0):
    return G.mknode(i, off, qual, opt)


def corpus_cases():
    import random
    rng = random.Random(14)
    out = []
    # finding: end-of-chain inference is per node text, not per pair
    ast = [{"head": ["N", _n(0)], "groups": [[rn(_n(1))]]},
           {"head": ["N", _n(2)], "groups": [[rn(_n(1))], [rn(_n(3))]]}]
    out.append({"kind": "eoc-unsafe", "ast": ast, "rend": renderings(ast, rng, 8)})
    ast = [{"head": ["N", _n(0)], "groups": [[rn(_n(1))]]},
           {"head": ["N", _n(2)], "groups": [[rn(_n(1))], [rn(_n(3))]]},
           {"head": ["N", _n(1, "fail")], "groups": [[rn(_n(4))]]}]
    out.append({"kind": "eoc-unsafe", "ast": ast, "rend": renderings(ast, rng, 8)})
    # finding: bad node text on a line that is not the last one
    for texts in (["t0? t1 => t2\n t3 => t4", "t3 => t4\n t0? t1 => t2"],
                  ["t0:x:y => t2\n t3 => t4", "t3 => t4\n t0:x:y => t2"],
                  ["t0[-P1]t1 => t2\n t3 => t4", "t3 => t4\n t0[-P1]t1 => t2"]):
        out.append({"kind": "badnode", "texts": texts})
    # finding: name collisions in the regular-expression substitutions
    for texts in (["t1 | t1-b => t2", "t1-b | t1 => t2"],
                  ["t1:fail | t1:fail-x => t2", "t1:fail-x | t1:fail => t2"]):
        out.append({"kind": "names", "texts": texts})
    # finding: empty operand before the arrow when the left side has | or ( )
    out.append({"kind": "emptycond", "texts": ["t0 | => t2", "t0 | t1 & => t2", "(t0 & ) => t2", "( | t0) => t2"]})
    # finding: NAME[OFFSET]:alias is substituted inside an already standardised NAME[OFFSET]:output
    out.append({"kind": "resub", "texts": ["t1[-P1] | t1[-P1]:succeed => t2",
                                           "t1[-P1]:failed & t1[-P1]:fail | t3 => t2"]})
    # regression: a well-formed graph in all styles
    ast = [{"head": ["|", ["&", ["N", _n(0, "fail", True)], ["N", _n(1, None, False, 1)]], ["()", ["|", ["N", _n(2, "finish")], ["N", _n(3, "x")]]]],
            "groups": [[rn(_n(4)), rn(_n(5, "y1", True))], [rn(_n(6)), rn(_n(7), True)]]},
           {"head": ["N", _n(8)], "groups": []}]
    out.append({"kind": "valid", "ast": ast, "rend": renderings(ast, rng, 8)})
    return out


def coq_expr(e):
    if e[0] == "N":
        return "(LN %s)" % G.coq_node(e[1])
    if e[0] == "()":
        return "(LPar %s)" % coq_expr(e[1])
    return "(%s %s %s)" % ("LAnd" if e[0] == "&" else "LOr", coq_expr(e[1]), coq_expr(e[2]))


def coq_graph(ast):
    return q.clist("(mkChain %s %s)" % (
        coq_expr(ch["head"]),
        q.clist(q.clist("(mkR %s %s)" % (q.cbool(r["s"]), G.coq_node(r["node"])) for r in g) for g in ch["groups"]))
        for ch in ast)


# ------------------------------------------------------------------ the stream
def same_result(a, b):
    return all(a.get(k) == b.get(k) for k in ("tasks", "trigs", "opt"))


class GraphStream(Stream):
    name = "graph"
    coq_import = "From Cylc Require Import Model.GraphBase Model.GraphExpr Model.GraphParse Model.GraphAst."
    check_fn = "GraphAst.check_acase"
    show_fn = "GraphAst.acase_model"
    rule = ("generated graph ASTs (chains with &,|,() head expressions, &-groups, qualifiers/aliases/custom outputs, ?, "
            "suicide, left offsets; optionality consistent per task profile) each rendered in 8 styles (chains vs pairs vs "
            "random cuts, line order, duplicated lines, no/heavy whitespace, comments, blank lines, continuation breaks "
            "before/after => & |) through the real GraphParser; plus malformed renderings (&&, ||, dangling/leading "
            "operator, OR on the right, suicide on the left, unbalanced parentheses, empty node, name<blank>name); "
            "non-trivial = AST with at least one arrow")
    n_hashseeds = 4
    shard_size = 12

    def corpus(self):
        return corpus_cases()

    def gen(self, rng, tier):
        n_valid, n_mal = (64, 36) if tier == "quick" else (2500, 1200)
        cases = []
        for i in range(n_valid):
            cases.append(make_valid_case(rng, rng.choice([0, 1, 1, 2]), 8))
        for i in range(n_valid // 4):
            cases.append(make_inconsistent_case(rng, rng.choice([0, 1]), 6))
        for i in range(n_mal):
            cases.append(make_malformed_case(rng, rng.choice([0, 1]), 6))
        return cases

    def impl(self, cases):
        out = []
        for c in cases:
            if "texts" in c:
                res = []
                for t in c["texts"]:
                    r = G.run_graph(t, {}, ())
                    r.pop("calls", None)
                    r["text"] = t
                    res.append(r)
            else:
                res = []
                for rd in c["rend"]:
                    t = G.detok(rd["toks"], ())
                    r = G.run_graph(t, {}, ())
                    r.pop("calls", None)
                    r["text"] = t
                    res.append(r)
            out.append({"results": res})
        return out

    def coq_case(self, c, r):
        if "texts" in c:
            return None
        items = []
        for rd, res in zip(c["rend"], r["results"]):
            if "garbled" in res or ("exc" in res and res["exc"] != "GraphParseError"):
                continue
            items.append(q.cpair(G.coq_toks(rd["toks"]), G.coq_outcome(res)))
        if not items:
            return None
        ast = "None"
        if c["kind"] in ("valid", "inconsistent", "eoc-unsafe"):
            # valid: the Coq-side wf_graph/eoc_safe must hold and every rendering must mean the AST;
            # inconsistent / eoc-unsafe: the Coq-side predicates must reject the AST
            ast = "(Some (%s, %s))" % (coq_graph(c["ast"]), q.cbool(c["kind"] == "valid"))
        return "(mkAcase %s %s)" % (ast, q.clist(items))

    # ---- oracle
    def oracle(self, c, r):
        res = r["results"]
        for x in res:
            if "exc" in x and x["exc"] != "GraphParseError":
                return "unexpected exception %s on %r" % (x["exc"], x["text"])
        if c["kind"] in ("malformed", "badnode", "emptycond"):
            for x in res:
                if "exc" not in x:
                    return "malformed graph accepted: %r" % x["text"]
            return None
        if c["kind"] in ("names", "resub"):
            for x in res:
                if "garbled" in x:
                    return "stored trigger expression is not the one written: %r -> %s" % (x["text"], x["garbled"])
                if "exc" in x:
                    return "valid graph rejected: %r" % x["text"]
            return None
        for x in res:
            if "garbled" in x:
                return "unreadable parser result for %r: %s" % (x["text"], x["garbled"])
        try:
            ref = reference(c["ast"])
        except RefError as e:
            ref = None
            why = str(e)
        for x in res:
            if ref is None:
                if "exc" not in x:
                    return "graph that must be rejected (%s) was accepted in the rendering %r" % (why, x["text"])
                continue
            if "exc" in x:
                return "rendering rejected although the graph is well formed: %r" % x["text"]
            if not same_result(x, ref):
                return "rendering %r does not mean what is written: %s" % (x["text"], self._diff(x, ref))
        return None

    @staticmethod
    def _diff(x, ref):
        for k in ("tasks", "trigs", "opt"):
            if x.get(k) != ref.get(k):
                a, b = x.get(k), ref.get(k)
                if k == "opt":
                    a, b = [e for e in a if e not in b], [e for e in b if e not in a]
                return "%s: parser %s, written %s" % (k, json.dumps(a)[:300], json.dumps(b)[:300])
        return "?"

    def key(self, c, r):
        if "ast" not in c or not any(ch["groups"] for ch in c["ast"]):
            return None
        return json.dumps([c["kind"], c.get("mutation"), c["ast"]], sort_keys=True)

    def classify(self, c, r, failure):
        res = r["results"]
        if c["kind"] == "badnode" and all(
                ("exc" in x) == (i % 2 == 1) for i, x in enumerate(res)):
            # the same two lines: rejected when the bad node is on the last line, accepted otherwise
            return SIG_BADNODE
        if c["kind"] == "names" and all("garbled" in x or "exc" not in x for x in res):
            return SIG_NAMES
        if c["kind"] == "emptycond" and all("garbled" in x for x in res):
            return SIG_EMPTYCOND
        if c["kind"] == "resub" and all("garbled" in x for x in res):
            return SIG_RESUB
        if "ast" in c and c["kind"] != "malformed" and resub_prone(c["ast"]) and all(
                "exc" in x or any("ed&" in m or "ed|" in m or "ed'" in m or "ed)" in m for m in x.get("garbled", ["ed'"]))
                for x in res) and any("garbled" in x for x in res):
            # generated AST that happens to contain the pattern: the only defect seen is the doubled suffix
            return SIG_RESUB
        if c["kind"] in ("eoc-unsafe", "inconsistent") and eoc_unsafe(c["ast"]):
            # narrow: every rendering behaves exactly like the reference with the code's
            # per-node-text end-of-chain rule applied to that rendering's own lines
            ok = True
            for rd, x in zip(c["rend"], res):
                try:
                    want = impl_like_reference(rd["lines"])
                except RefError:
                    want = None
                if want is None:
                    ok = ok and "exc" in x
                else:
                    ok = ok and "exc" not in x and "garbled" not in x and same_result(x, want)
            if ok:
                return SIG_EOC
        return "c14:" + hashlib.sha1(json.dumps(c, sort_keys=True, default=str).encode()).hexdigest()[:12]

    def shrink(self, c):
        if "ast" not in c or c["kind"] == "malformed":
            return
        import random
        ast = c["ast"]
        for i in range(len(ast)):
            if len(ast) > 1:
                a2 = ast[:i] + ast[i + 1:]
                yield self._rebuild(c, a2)
        for i, ch in enumerate(ast):
            if ch["groups"]:
                a2 = ast[:i] + [{"head": ch["head"], "groups": ch["groups"][:-1]}] + ast[i + 1:]
                yield self._rebuild(c, a2)
            if ch["head"][0] != "N":
                for sub in ch["head"][1:]:
                    a2 = ast[:i] + [{"head": sub, "groups": ch["groups"]}] + ast[i + 1:]
                    yield self._rebuild(c, a2)
            for gi, g in enumerate(ch["groups"]):
                if len(g) > 1:
                    for k in range(len(g)):
                        gs = ch["groups"][:gi] + [g[:k] + g[k + 1:]] + ch["groups"][gi + 1:]
                        yield self._rebuild(c, ast[:i] + [{"head": ch["head"], "groups": gs}] + ast[i + 1:])

    @staticmethod
    def _rebuild(c, ast):
        import random
        rng = random.Random(len(json.dumps(ast)))
        try:
            reference(ast)
            kind = "eoc-unsafe" if eoc_unsafe(ast) else "valid"
        except RefError:
            kind = "inconsistent"
        return {"kind": kind, "ast": ast, "rend": renderings(ast, rng, 8)}


STREAMS = [GraphStream()]

META = {
    "level_text": (
        "Coq theorems over the token-level model of parse_graph (Model/GraphParse.v + Model/GraphBase.v) and the graph AST / "
        "reference semantics / renderers of Model/GraphAst.v, for ALL graphs and presentations (no bounds): "
        "c14_parse_render - for every well-formed graph (consistent optionality, Coq predicate wf_graph) that is eoc_safe, every "
        "presentation (each chain cut into pairs/sub-chains anywhere, lines in any order, any line duplicated; each line laid out "
        "on physical lines broken only next to => & |, arbitrary blanks between tokens, comments, blank and comment-only lines) "
        "is accepted and the parser state contains exactly the graph's triggers (the written expressions with qualifiers "
        "standardised, :succeeded explicit, finish expanded), optionality assertions (with the end-of-chain rule) and tasks; "
        "presentation-insensitivity is the corollary c14_presentation_insensitive; c14_malformed_rejected - anything accepted has no "
        "leading/dangling operator, no && / ||, and no pair with OR on the right, suicide on the left, unbalanced parentheses or an "
        "empty node (plain AND lists / right side). Without eoc_safe the theorem is false in the faithful model "
        "(c14_chains_vs_pairs_refuted) and an empty operand in a conditional left side is accepted "
        "(c14_empty_operand_conditional_refuted): both are listed findings. "
        "The model is tied to graph_parser.py by differential runs (each generated AST in 8 renderings, inconsistent ASTs, "
        "10 malformed mutation classes) compared inside Coq on truth tables of the stored expressions and the optionality map; "
        "the same Coq run also evaluates the theorem's statement (wf_graph, eoc_safe, state_means) on every generated case; a "
        "Python reference semantics is the independent oracle on the implementation."),
    "level_note": (
        "token-level hand model: a node NAME[OFFSET]:QUAL? is one token, regexes are token classes, so character-level effects "
        "are outside the theorems and are probed on the implementation by corpus cases: two further findings live there (bad node "
        "text accepted on non-last lines; names that are word-parts of other node texts are substituted inside them). Not "
        "modelled: parameters, xtriggers, workflow-state nodes, families (C15), right-hand offsets, redundant parentheses on the "
        "right, WorkflowConfig/TaskDef level. Trusted: Coq kernel+VM, harness, tokens->text printer."),
    "technique": "Coq proof (layered: physical text -> logical lines -> pairs -> assertion stores -> reference semantics) + in-Coq differential correspondence + reference-semantics oracle",
    "design_ref": "5/C14",
}
