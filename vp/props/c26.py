"""C26 — scheduler-level check: pool automaton (Model/Pool.v) + real scheduler traces."""
from vp.sched.stream import SchedStream

TRUSTED = ["Model/Pool.v is a hand-written specification automaton over the workflow's instance graph; the instance graph, completion rule and runahead spec are computed by the harness from the generated graph AST independently of cylc. Trusted: Coq kernel+VM; the in-process driver (vp/sched/driver.py: fake process pool, method wrappers recording events); the scenario generator and its reference semantics (vp/sched/scen.py); integer cycling only; no datetime cycling."]
ASSUMES = ["integer cycling; no manual intervention in these scenarios; jobs are simulated by the harness (no real job runs)"]
STREAMS = [SchedStream('C26', name="sched", feat={'abs': True, 'queues': True}, extra_oracles=[])]
META = {
    "level_text": 'Coq theorems: no reachable abstract pool has two proxies with the same id; a duplicate add is rejected; an accepted tick end means the real pool (ids, status, flags, flows, satisfied prerequisites, outputs, submit numbers) equals the abstract pool. Tie + oracle: at every tick the harness also compares the real dict-of-dicts with the cached list, checks for empty buckets/duplicates and compares the task_pool table of the private DB with the pool.',
    "level_note": "Model/Pool.v is a hand-written specification automaton over the workflow's instance graph; the instance graph, completion rule and runahead spec are computed by the harness from the generated graph AST independently of cylc. Trusted: Coq kernel+VM; the in-process driver (vp/sched/driver.py: fake process pool, method wrappers recording events); the scenario generator and its reference semantics (vp/sched/scen.py); integer cycling only; no datetime cycling.",
    "technique": 'Coq invariant proof + per-tick snapshot equality (model vs real pool vs task_pool table)',
    "design_ref": "5/C26",
}
