"""C26 — scheduler-level check: pool automaton (Model/Pool.v) + real scheduler traces."""
from vp.sched.stream import SchedStream

TRUSTED = ["Model/Pool.v is a hand-written specification automaton over the workflow's instance graph; the instance graph, completion rule and runahead spec are computed by the harness from the generated graph AST independently of cylc. Trusted: Coq kernel+VM; the in-process driver (vp/sched/driver.py: fake process pool, method wrappers recording events); the scenario generator and its reference semantics (vp/sched/scen.py); integer cycling only; no datetime cycling."]
ASSUMES = ["integer cycling; no manual intervention in these scenarios; jobs are simulated by the harness (no real job runs)"]
STREAMS = [SchedStream('C26', name="sched", feat={'abs': True, 'queues': True}, extra_oracles=[])]
META = {
    "level_text": 'Coq theorems: no reachable abstract pool has two proxies with the same id; a duplicate add is rejected; an accepted tick end means the real pool (ids, status, flags, flows, satisfied prerequisites, outputs, submit numbers) equals the abstract pool. Tie + oracle: at every tick the harness also compares the real dict-of-dicts with the cached list, checks for empty buckets/duplicates and compares the task_pool table of the private DB with the pool.',
    "level_note": "Model/Pool.v is a hand-written specification automaton over the workflow's instance graph; the instance graph, completion rule and runahead spec are computed by the harness from the generated graph AST independently of cylc. Trusted: Coq kernel+VM; the in-process driver (vp/sched/driver.py: fake process pool, method wrappers recording events); the scenario generator and its reference semantics (vp/sched/scen.py); integer cycling only; no datetime cycling.",
    "technique": 'Coq invariant proof + per-tick snapshot equality (model vs real pool vs task_pool table)',
    "design_ref": "5/C26",
}


# --- flow numbers of pooled tasks changed by command (`cylc set --flow=new|N ...`): the task_pool table is keyed by
# (cycle, name, flow numbers), so a stale row would survive a merge; scenarios shared with the C08 `flowcmd` stream
from vp.props.c08 import FlowCmdStream  # noqa: E402
from vp.sched import oracles as _oracles  # noqa: E402


class FlowDbStream(FlowCmdStream):
    def __init__(self):
        super().__init__(n_quick=20, n_thorough=300)
        self.pid, self.name, self.cache_key, self.oracle_ids = "C26", "flowcmd-db", "sched-flowcmd-db:v1", ["C26"]
        self.rule = ("the C08 `flowcmd` scenarios (2-4 `cylc set --flow=default/new/none/N --out=...` commands per run on the "
                     "real Scheduler): after every main-loop iteration the task_pool table of the private database must list "
                     "exactly the pooled proxies with their current flow numbers, status and held flag (oracle only: flow "
                     "merges are not part of the pool automaton's C26 clauses)")

    def impl(self, cases):
        import os
        from pathlib import Path
        from vp.sched import driver
        out = []
        for c in cases:
            r = driver.run_many([c], Path(os.environ["HOME"]))[0]
            r["trace"] = [e for e in r["trace"] if e["e"] in ("tick_end", "started", "op")]
            out.append(r)
        return out

    def coq_case(self, c, r):
        return None

    def oracle(self, c, r):
        if r["meta"].get("error"):
            return "scheduler run raised: " + r["meta"]["error"]
        f = _oracles.c26(c, r)
        return f"[C26] {f}" if f else None

    def classify(self, c, r, failure):
        return f"{self.name}:C26:{failure.split(']')[-1].strip()[:60]}"

    def key(self, c, r):
        return __import__("json").dumps([c["sections"], c.get("ops")], sort_keys=True)


STREAMS.append(FlowDbStream())
