"""C20 — crash + restart: pool automaton crash events + real scheduler killed at database statement
boundaries, and an uninterrupted run of the same scenario for comparison."""
from vp.sched.stream import SchedStream
from vp.props.c01 import TRUSTED, ASSUMES  # noqa

_WITNESS = {  # a => b, crash at iteration 1 before any statement: 1/a/01 and 2/a/01 are launched twice
    "icp": 1, "fcp": 2, "tasks": ["a", "b"],
    "sections": [{"rec": "P1", "lines": [{"lhs": None, "rhs": "a"}, {"lhs": None, "rhs": "b"},
                                          {"lhs": {"task": "a", "off": 0, "out": "succeeded"}, "rhs": "b"}]}],
    "customs": {}, "opt": [["a", "succeeded", False], ["b", "succeeded", False]], "runahead": 1, "queues": {},
    "seed": 5, "fail_rate": 0, "custom_rate": 1.0, "disorder": 0,
    "ops": [{"tick": 1, "cmd": "crash", "stmts": 0}], "baseline": True}


def _sweep():
    """the same small workflow killed after every number k of database statements of two busy main-loop iterations
    (a database flush that is not all-or-nothing shows at some k)"""
    out = []
    for tick, ks in ((3, range(1, 16)), (5, range(1, 16, 2))):
        for k in ks:
            out.append({
                "icp": 1, "fcp": 2, "tasks": ["a", "b", "c"],
                "sections": [{"rec": "P1", "lines": [
                    {"lhs": None, "rhs": "a"}, {"lhs": None, "rhs": "b"}, {"lhs": None, "rhs": "c"},
                    {"lhs": {"task": "a", "off": 0, "out": "succeeded"}, "rhs": "b"},
                    {"lhs": {"task": "b", "off": 0, "out": "succeeded"}, "rhs": "c"}]}],
                "customs": {}, "opt": [["a", "succeeded", False], ["b", "succeeded", False], ["c", "succeeded", False]],
                "runahead": 1, "queues": {}, "seed": 11, "fail_rate": 0, "custom_rate": 1.0, "disorder": 0,
                "ops": [{"tick": tick, "cmd": "crash", "stmts": k}], "baseline": True})
    return out


STREAMS = [SchedStream("C20", name="sched-crash", feat={"crash": True, "abs": True}, n_quick=28, n_thorough=800,
                       corpus=[_WITNESS]),
           SchedStream("C20", name="sched-crash-sweep", feat={"crash": True}, n_quick=0, n_thorough=0, corpus=_sweep())]
META = {
    "level_text": ("Coq theorems over the pool automaton with crash events (ECrash; ERestore*; EAdopt; ERestartDone): whatever the "
                   "database gives back is accepted only if consistent with the run (graph instance, satisfied prerequisites and outputs "
                   "really completed, no duplicate); the safety invariant and the C01 submission theorem hold across any number of "
                   "crashes; 'same submit number never launched twice' is refuted by a machine-checked accepted witness trace "
                   "(c20_same_submit_once_refuted) and holds only within the scheduler's own record between crashes. Tie: the real "
                   "scheduler is killed after k database statements of a chosen main-loop iteration (k=0: between iterations; the open "
                   "transaction is rolled back, no shutdown code runs, jobs keep reporting) and restarted; traces must be accepted by "
                   "the automaton. Oracle: runs the same scenario uninterrupted and compares submitted instances and final outputs, "
                   "checks double launches and re-runs of completed instances. Three crash windows in which the real scheduler loses or "
                   "duplicates work are known findings."),
    "level_note": TRUSTED[0] + " The crash is simulated in-process (database proxy raising a BaseException; connections closed without "
                  "commit; contact file removed); OS-level effects of a real kill (half-written files other than sqlite) are not modelled.",
    "technique": "Coq invariant proof across crash events + refutation witness + in-Coq validation of crash/restart traces + uninterrupted-run comparison",
    "design_ref": "5/C20",
}
