"""C27 — reload preserves task state.

Streams: the shared in-process scheduler driver (vp/sched/driver.py) with the reload extension
vp/sched/reload_ext.py.  A generated scenario (hold / queues / retries / absolute triggers) is run on the real
Scheduler; at one or two chosen main-loop iterations the run directory's flow.cylc is rewritten (unchanged /
extended / shrunk definition) and the REAL reload_workflow command is queued.  The pool immediately before
TaskPool.reload, immediately after it, at the end of the command and at the end of that main-loop iteration are
recorded, together with the new definition's prerequisite keys of each pooled instance and the task_outputs rows
check_task_output sees.  Model/Reload.v recomputes the pool after the reload from (pool before, new definition
summary, DB rows) and is compared with the real pool inside Coq; the oracle states the property's clauses directly
on the snapshots, with the expected prerequisites of the new definition computed from the generator's own AST.
"""
from __future__ import annotations

import json
import os
import random
from pathlib import Path

from vp import coqfmt as q
from vp.sched import scen
from vp.sched.stream import SchedStream

STATUSES = ["waiting", "expired", "preparing", "submit-failed", "submitted", "running", "failed", "succeeded"]

TRUSTED = [
    "Model/Reload.v is a hand model of TaskPool._reload_taskdefs, TaskProxy.copy_to_reload_successor, "
    "TaskPool.check_task_output (first task_outputs row with overlapping flow numbers decides) and "
    "TaskPool.queue_if_ready; the new definition enters as data: old/new task name lists and, per pooled instance, the "
    "prerequisite keys of a fresh TaskState built from the new TaskDef (cross-checked by the oracle against the "
    "generator's own instance graph of the new definition); the DB enters as the rows select_task_outputs returns",
    "Trusted: Coq kernel+VM; the in-process driver vp/sched/driver.py (fake process pool) and vp/sched/reload_ext.py "
    "(rewrites flow.cylc, queues the real reload_workflow command, wraps TaskPool.reload / check_task_output / "
    "queue_if_ready to record snapshots; commands.sleep patched to a no-op)",
]
ASSUMES = ["integer cycling; jobs simulated by the harness; no xtriggers / external triggers / clock triggers; one flow"]

KNOWN_QUEUED = "held-queued-task-unqueued"

KEEP = {"op_remove_partial", "reload_def", "reload_before", "reload_after", "reload_check", "reload_qir", "reload_cmd_end", "reload_cmd_error", "op",
        "op_rejected", "output", "submit", "shutdown", "tick_end", "tick"}


# ---------------------------------------------------------------------------
# definition mutators (generator side; no cylc import)
# ---------------------------------------------------------------------------
def _clone(x):
    return json.loads(json.dumps(x))


def _valid(scn, sec, lhs):
    """the generator's rule: every concrete upstream instance of the line exists (see scen.gen_scenario)"""
    icp, fcp = scn["icp"], scn["fcp"]

    def pts(tn):
        out = set()
        for s in scn["sections"]:
            if any(l["rhs"] == tn for l in s["lines"]):
                out.update(scen.rec_points(s["rec"], icp, fcp))
        return out
    for p in scen.rec_points(sec["rec"], icp, fcp):
        for a in scen.atoms(lhs):
            up = p + a.get("off", 0)
            if up >= icp and up not in pts(a["task"]):
                return False
    return True


def extend(scn, r):
    """added dependency lines between existing tasks (also from tasks that may already have finished), new tasks"""
    s = _clone(scn)
    opt = {(t, o): v for t, o, v in s["opt"]}
    tasks = list(s["tasks"])
    if r.random() < 0.5:
        nt = "n" + str(len(tasks))
        tasks.append(nt)
        s["tasks"] = tasks
        opt[(nt, "succeeded")] = False
        r.choice(s["sections"])["lines"].append({"lhs": None, "rhs": nt})
    for _ in range(r.randint(1, 3)):
        sec = r.choice(s["sections"])
        members = [l["rhs"] for l in sec["lines"] if l["lhs"] is None]
        if not members:
            continue
        rhs = r.choice(members)
        up = r.choice(tasks)
        a = {"task": up, "off": r.choice([0, 0, -1, -1, -2])}
        if a["off"] == 0 and (up == rhs or up not in members or tasks.index(up) > tasks.index(rhs)):
            a["off"] = -1
        outs = ["succeeded"] * 4 + ["started"] + list(s["customs"].get(up, []))
        if opt.get((up, "failed")):
            outs.append("failed")
        a["out"] = r.choice(outs)
        opt.setdefault((up, a["out"]), False)
        if not _valid(s, sec, a):
            continue
        ln = {"lhs": a, "rhs": rhs}
        if ln not in sec["lines"]:
            sec["lines"].append(ln)
    s["opt"] = [[t, o, v] for (t, o), v in sorted(opt.items())]
    return s


def shrink_def(scn, r):
    """dependency lines removed and / or task definitions removed"""
    s = _clone(scn)
    deps = [(si, li) for si, sec in enumerate(s["sections"]) for li, l in enumerate(sec["lines"])
            if l["lhs"] is not None]
    mode = r.random()
    if deps and mode < 0.6:
        for si, li in sorted(r.sample(deps, r.randint(1, min(2, len(deps)))), reverse=True):
            del s["sections"][si]["lines"][li]
    if (mode > 0.3 or not deps) and len(s["tasks"]) > 1:
        gone = r.sample(s["tasks"], 1 if r.random() < 0.7 or len(s["tasks"]) < 3 else 2)
        remove_tasks(s, gone)
        if not s["sections"]:
            return _clone(scn)
    return s


def remove_tasks(s, gone):
    for sec in s["sections"]:
        sec["lines"] = [l for l in sec["lines"] if l["rhs"] not in gone
                        and not (l["lhs"] is not None and any(a["task"] in gone for a in scen.atoms(l["lhs"])))]
    s["sections"] = [sec for sec in s["sections"] if sec["lines"]]
    s["tasks"] = [t for t in s["tasks"] if t not in gone]
    s["customs"] = {t: v for t, v in s["customs"].items() if t not in gone}
    s["opt"] = [x for x in s["opt"] if x[0] not in gone]
    for qn in list(s["queues"]):
        qd = s["queues"][qn]
        if qd["members"]:
            qd["members"] = [m for m in qd["members"] if m not in gone]
            if not qd["members"]:
                del s["queues"][qn]
    for k in ("retries", "tries"):
        if k in s:
            s[k] = {t: v for t, v in s[k].items() if t not in gone}


def add_reload(scn, tick, kind, scn2, adapt=None):
    """kind: same | ext | shrink | other (a second reload of any kind); adapt: None, or a seed: the definition is
    then changed further when the command is issued, looking at the pool (see render)"""
    scn["ops"].append({"tick": tick, "cmd": "x_reload", "kind": kind,
                       "args": {"kind": kind, "scn2": _def_part(scn2), "adapt": adapt}})
    scn["ops"].sort(key=lambda o: o["tick"])


def _def_part(s):
    return {k: v for k, v in s.items() if k not in ("ops", "baseline")}


def render(info, args):
    """reload_ext.RENDER: (flow.cylc text, definition) for an x_reload op, given the pool and the recorded outputs"""
    s2 = _clone(args["scn2"])
    if args.get("adapt") is not None:
        r = random.Random(args["adapt"])
        if args["kind"] == "shrink":
            s2 = shrink_targeted(s2, info, r)
        elif args["kind"] in ("ext", "other"):
            s2 = extend_targeted(s2, info, r)
    return scen.render_flow({**s2, "ops": []}), s2


def extend_targeted(s, info, r):
    """dependency lines from outputs that are already recorded (and one that is not) to tasks waiting in the pool"""
    opt = {(t, o): v for t, o, v in s["opt"]}
    done = {(c, n, _norm(m)) for c, n, _f, msgs in info["done"] for m in msgs}
    tasks = list(s["tasks"])
    waiting = [t["id"] for t in info["tasks"] if t["status"] == "waiting" and t["id"][1] in tasks]
    r.shuffle(waiting)
    added = 0
    for p, x in waiting:
        secs = [sec for sec in s["sections"] if p in scen.rec_points(sec["rec"], s["icp"], s["fcp"])
                and any(l["lhs"] is None and l["rhs"] == x for l in sec["lines"])]
        if not secs:
            continue
        sec = r.choice(secs)
        members = [l["rhs"] for l in sec["lines"] if l["lhs"] is None]
        cands = []
        for y in tasks:
            for off in (0, -1, -2):
                if off == 0 and (y == x or y not in members or tasks.index(y) > tasks.index(x)):
                    continue
                for out in ["succeeded", "started"] + list(s["customs"].get(y, [])):
                    a = {"task": y, "off": off, "out": out}
                    if p + off >= s["icp"] and _valid(s, sec, a) and {"lhs": a, "rhs": x} not in sec["lines"]:
                        cands.append(((p + off, y, out) in done, a))
        yes = [a for d, a in cands if d]
        no = [a for d, a in cands if not d]
        for pick in ([r.choice(yes)] if yes else []) + ([r.choice(no)] if no and r.random() < 0.6 else []):
            opt.setdefault((pick["task"], pick["out"]), False)
            sec["lines"].append({"lhs": pick, "rhs": x})
            added += 1
        if added >= 3:
            break
    s["opt"] = [[t, o, v] for (t, o), v in sorted(opt.items())]
    return s if added else extend(s, r)


def shrink_targeted(s, info, r):
    """remove the definition of a task that is in the pool, preferring held / queued / active instances"""
    names = [t for t in s["tasks"]]
    if len(names) < 2:
        return s

    def score(t):
        return (2 if t["held"] and t["status"] != "waiting" else 0) + (1 if t["held"] else 0) + \
               (1 if t["queued"] else 0) + (1 if t["status"] in ("submitted", "running") else 0)
    pooled = [(score(t), t["id"][1]) for t in info["tasks"] if t["id"][1] in names]
    if not pooled:
        return shrink_def(s, r)
    best = max(sc for sc, _ in pooled)
    gone = r.choice(sorted({n for sc, n in pooled if sc == best}))
    s = _clone(s)
    remove_tasks(s, [gone])
    return s if s["sections"] else shrink_def(_clone(s), r)


# ---------------------------------------------------------------------------
# recorded run -> Gallina cases
# ---------------------------------------------------------------------------
class _Numbering:
    def __init__(self):
        self.names, self.outs = {}, {}

    def name(self, s):
        return self.names.setdefault(s, len(self.names))

    def out(self, s):
        return self.outs.setdefault(s, len(self.outs))

    @staticmethod
    def point(p):
        return q.cN(int(p) + 8)          # pre-initial points (icp - 2 at the lowest) stay non-negative

    def tid(self, i):
        return q.cpair(self.point(i[0]), q.cN(self.name(i[1])))

    def key(self, k):
        return q.ctuple(self.point(k[0]), q.cN(self.name(k[1])), q.cN(self.out(k[2])))


def _c_proxy(nb, t, cut):
    return q.capp(
        "mkProxy", nb.tid(t["id"]), q.cN(STATUSES.index(t["status"])), q.clist(q.cN(f) for f in t["flows"]),
        q.cN(int(t["submit_num"] or 0)), q.cbool(t["held"]), q.cbool(t["queued"]), q.cbool(t["runahead"]),
        q.cbool(t["manual"]), q.clist(q.cN(nb.out(o)) for o in t["outputs"]),
        q.clist(q.clist(q.cpair(nb.key(k), q.cbool(v)) for k, v in pre) for pre in t["prereqs"]), q.cbool(cut))


def _c_db(nb, db):
    return q.clist(q.cpair(nb.tid([c, n]), q.clist(q.cpair(q.clist(q.cN(f) for f in fl),
                                                          q.clist(q.cN(nb.out(m)) for m in msgs))
                                                  for fl, msgs in rows)) for c, n, rows in db)


def cases_of(trace):
    """Gallina `list case` of one run, or None when there is nothing to compare / outside the modelled fragment."""
    nb = _Numbering()
    out = []
    cur = None
    for e in trace:
        k = e["e"]
        if k == "reload_before":
            if e["errs"]:
                return None
            cur = e
        elif k == "reload_check" and cur is not None:
            out.append(q.capp("CCheck", _c_db(nb, cur["db"]), nb.key(e["key"]), q.clist(q.cN(f) for f in e["flows"]),
                              q.cbool(e["res"])))
        elif k == "reload_after" and cur is not None:
            new = set(cur["new_names"])
            kids = {tuple(i): ch for i, ch in e["children"]}
            d = q.capp("mkDef", q.clist(q.cN(nb.name(n)) for n in cur["old_names"]),
                       q.clist(q.cN(nb.name(n)) for n in cur["new_names"]),
                       q.clist(q.cpair(nb.tid(i), q.clist(q.clist(nb.key(x) for x in pre) for pre in ks))
                               for i, ks in cur["newpre"]))
            before = q.clist(_c_proxy(nb, t, False) for t in cur["tasks"])
            after = q.clist(_c_proxy(nb, t, t["id"][1] not in new and not kids[tuple(t["id"])]) for t in e["tasks"])
            out.append(q.capp("CReload", d, _c_db(nb, cur["db"]), before, after))
            cur = None
        elif k == "reload_qir":
            out.append(q.capp("CQueue", q.cbool(e["ready"]), _c_proxy(nb, e["before"], False),
                              _c_proxy(nb, e["after"], False)))
    if not out:
        return None
    return q.clist(out)


# ---------------------------------------------------------------------------
# oracle (implementation only)
# ---------------------------------------------------------------------------
def _norm(o):
    return o[4:] if o.startswith("msg-") else o


def _fmt(t):
    fl = "".join(c for c, b in (("H", t["held"]), ("Q", t["queued"]), ("R", t["runahead"])) if b)
    return f"{t['id'][0]}/{t['id'][1]}:{t['status']}{'(' + fl + ')' if fl else ''}"


def _expected_keys(scn2, tid_):
    g = scen.instance_graph({**scn2, "ops": []})["inst"]
    inst = g.get(tuple(tid_))
    if inst is None:
        return None
    return {(a["id"][0], a["id"][1], a["out"]) for ex in inst["prereqs"] for a in scen.atoms_c(ex)
            if a["id"][0] >= scn2["icp"]}


def reload_oracle(scn, run):
    """List of (class, text) failures: class None = unexpected, else the known-finding class."""
    tr = run["trace"]
    fails = []
    rops = [o for o in scn.get("ops", []) if o["cmd"] == "x_reload"]
    cur_def = None
    ticks_done = {e["n"] for e in tr if e["e"] == "tick_end"}
    for e in tr:
        if e["e"] == "reload_cmd_error":
            fails.append((None, f"the reload command raised {e['exc']}"))
        elif e["e"] == "op_rejected":
            fails.append((None, f"command rejected: {e}"))
    done = set()           # (point, task, output label) completed so far, from the output events
    cur = None
    ri = -1
    pending_end = None     # (before-event, after-event) waiting for the end of the main-loop iteration
    n_reloads = 0
    for e in tr:
        k = e["e"]
        if k == "output" and e.get("id"):
            for o in e["out"]:
                done.add((e["id"][0], e["id"][1], _norm(o)))
        elif k == "reload_def":
            cur_def = e
        elif k == "reload_cmd_end":
            ri += 1
            if not e["reloaded"]:
                fails.append((None, f"reload {ri}: the command ended without reloading the pool (new definition rejected?)"))
        elif k == "reload_before":
            cur = e
            n_reloads += 1
            if e["errs"]:
                fails.append((None, f"harness could not read the new definition: {e['errs']}"))
        elif k == "reload_after" and cur is not None:
            fails += _check_reload(scn, cur_def, cur, e, done, n_reloads - 1)
            pending_end = (cur, e)
            cur = None
        elif k == "tick_end" and pending_end is not None:
            fails += _check_iteration_end(pending_end[0], pending_end[1], e, n_reloads - 1)
            pending_end = None
    for o in rops:
        if o["tick"] in ticks_done and n_reloads == 0:
            fails.append((None, f"reload requested at tick {o['tick']} but TaskPool.reload never ran"))
            break
    # the run after the reload
    if run["meta"].get("error"):
        fails.append((None, "scheduler run raised: " + run["meta"]["error"]))
    base = run.get("base")
    if base is not None and not base.get("error") and rops and all(o["kind"] == "same" for o in rops) \
            and len(rops) == len(scn.get("ops", [])) and not any(c for c, _ in fails):
        if base["stop"] == "AUTOMATIC" and run["meta"]["stop"] != "AUTOMATIC":
            fails.append((None, f"without the reload(s) of the unchanged definition the run completes and shuts down; "
                                f"with them it ends as {run['meta']['stop']}"))
    return fails


def _check_reload(scn, rdef, b, a, done, ri):
    fails = []
    w = f"reload {ri}: "
    bl, al = b["tasks"], a["tasks"]
    bid = {tuple(t["id"]): t for t in bl}
    aid = {tuple(t["id"]): t for t in al}
    if len(aid) != len(al):
        fails.append((None, w + "duplicate ids in the pool after the reload"))
    extra = [i for i in aid if i not in bid]
    if extra:
        fails.append((None, w + f"tasks {extra} appeared in the pool during the reload"))
    if [tuple(t["id"]) for t in al] != [i for i in (tuple(t["id"]) for t in bl) if i in aid]:
        fails.append((None, w + "pool order changed by the reload"))
    scn2 = rdef["scn2"] if rdef else None
    new_def = ({ln["rhs"] for sec in scn2["sections"] for ln in sec["lines"]} |
               {at["task"] for sec in scn2["sections"] for ln in sec["lines"] if ln["lhs"] for at in scen.atoms(ln["lhs"])}
               ) if scn2 else set(b["new_names"])
    if scn2 and new_def != set(b["new_names"]):
        fails.append((None, w + f"the new configuration defines {sorted(b['new_names'])}, the rewritten flow.cylc {sorted(new_def)}"))
    kids = {tuple(i): ch for i, ch in a["children"]}
    for i, t in bid.items():
        u = aid.get(i)
        if t["id"][1] not in new_def:
            # definition removed
            started = t["status"] != "waiting"
            if u is None:
                if started:
                    fails.append((None, w + f"{_fmt(t)} (submit number {t['submit_num']}) had started and its definition was "
                                           f"removed: it was dropped from the pool"))
            else:
                if not started:
                    fails.append((None, w + f"{_fmt(t)}: definition removed, not started, but kept in the pool"))
                if kids.get(i):
                    fails.append((None, w + f"{_fmt(t)}: definition removed but it still has graph children {kids[i]}"))
                # (an orphan kept by an EARLIER reload is no longer in the pool's name list: the code rebuilds it from
                #  an empty implicit definition, its old prerequisites go; the property does not speak of them)
                fields = ["status", "flows", "submit_num", "held", "queued", "runahead", "outputs", "manual"]
                if t["id"][1] in b["old_names"]:
                    fields.append("prereqs")
                for f in fields:
                    if t[f] != u[f]:
                        fails.append((None, w + f"kept orphan {_fmt(t)}: {f} {t[f]} -> {u[f]}"))
            continue
        if u is None:
            fails.append((None, w + f"{_fmt(t)} is still defined but was dropped from the pool"))
            continue
        for f in ("status", "flows", "submit_num", "held", "runahead", "outputs", "manual", "flow_wait"):
            if t[f] != u[f]:
                fails.append((None, w + f"{_fmt(t)}: {f} {t[f]} -> {u[f]}"))
        # prerequisites
        got = [(tuple(k), bool(v)) for pre in u["prereqs"] for k, v in pre]
        if scn2:
            exp = _expected_keys(scn2, t["id"])
            gk = {(k[0], k[1], _norm(k[2])) for k, _ in got if k[0] >= scn2["icp"]}
            if exp is not None and gk != exp:
                fails.append((None, w + f"{_fmt(t)}: prerequisite keys after the reload {sorted(gk)}, the new definition "
                                       f"has {sorted(exp)}"))
        old = {}
        for pre in t["prereqs"]:
            for k, v in pre:
                old.setdefault(tuple(k), set()).add(bool(v))
        rows = {(c, n): r for c, n, r in b["db"]}
        for k, v in got:
            if k in old:
                if v not in old[k]:
                    fails.append((None, w + f"{_fmt(t)}: prerequisite {list(k)} was {'' if True in old[k] else 'not '}satisfied "
                                           f"before the reload and is {'' if v else 'not '}satisfied after it"))
                continue
            rec = (k[0], k[1], _norm(k[2])) in done
            if v and not rec:
                fails.append((None, w + f"{_fmt(t)}: new prerequisite {list(k)} is satisfied although that output was never completed"))
            over = [msgs for fl, msgs in rows.get((k[0], k[1]), []) if set(fl) & set(t["flows"])]
            if len(over) <= 1:
                want = bool(over) and k[2] in over[0] and bool(t["flows"])
                if v != want:
                    fails.append((None, w + f"{_fmt(t)}: new prerequisite {list(k)} is {'' if v else 'not '}satisfied; the "
                                           f"task_outputs table {'has' if want else 'does not have'} that output for its flows"))
    return fails


def _check_iteration_end(b, a, end, ri):
    fails = []
    w = f"reload {ri}, end of the main-loop iteration (tick {end['n']}): "
    eid = {tuple(t["id"]): t for t in end["snap"]["tasks"]}
    new = set(b["new_names"])
    after = {tuple(t["id"]): t for t in a["tasks"]}
    for t in b["tasks"]:
        if not t["queued"] or t["id"][1] not in new:
            continue
        u = eid.get(tuple(t["id"]))
        if u is None or u["status"] != "waiting" or u["queued"] or u["runahead"] or u["manual"]:
            continue
        if u["held"]:
            fails.append((KNOWN_QUEUED, w + f"{_fmt(t)} was queued before the reload; it is still waiting, is held, "
                                            f"and is no longer queued"))
        elif tuple(t["id"]) in after and all(after[tuple(t["id"])]["sat"]) and all(u["sat"]) and t["submit_num"] == 0:
            # (ready right after the reload, i.e. when the main loop's re-queue pass looked at it)
            fails.append((None, w + f"{_fmt(t)} was queued before the reload; it is waiting with all prerequisites satisfied "
                                    f"but not queued"))
    return fails


class ReloadStream(SchedStream):
    coq_import = "From Cylc Require Import Model.Reload."
    check_fn = "Reload.check_case"
    show_fn = "Reload.model_out"
    shard_size = 6

    def __init__(self, name, feat, n_quick, n_thorough, kinds=("same", "ext", "shrink"), p_second=0.35):
        super().__init__("C27", name=name, feat=feat, n_quick=n_quick, n_thorough=n_thorough)
        self.kinds, self.p_second = list(kinds), p_second
        self.cache_key = f"sched-reload:{name}:{json.dumps(self.feat, sort_keys=True)}:{self.kinds}:{p_second}"
        self.rule += (f"; C27 additions: each base scenario is run with the real reload_workflow command at a main-loop "
                      f"iteration k swept over 0..8 (3 values of k per base scenario), flow.cylc rewritten as one of "
                      f"{self.kinds} (extended: 1-3 added dependency lines between existing tasks, new tasks; shrunk: "
                      f"dependency lines and/or 1-2 task definitions removed; 60% of the changed definitions are targeted "
                      f"when the command is issued: new dependencies of tasks waiting in the pool on outputs already / not "
                      f"yet recorded in task_outputs, removal of the definition of a pooled task preferring held+started, "
                      f"held, queued, active instances), with probability 0.5 a hold point set before and released after the reload; with probability 0.35 the real "
                      f"remove command on partly satisfied waiting tasks some iterations before the reload (respawned tasks "
                      f"whose unsatisfied prerequisites are recorded in task_outputs); a second reload "
                      f"(possibly of another kind, e.g. back to the original) with probability {p_second}; a quarter of the base scenarios "
                      f"without hold/release commands (those with unchanged-definition reloads are also run without the "
                      f"reload and must end the same way); non-trivial = a reload that ran on a non-empty pool")

    def corpus(self):
        """The witness of the orphan finding fixed by 9a9212a (regression: must pass) and of the open queued finding."""
        base = {"icp": 1, "fcp": 2, "tasks": ["a", "b"],
                "sections": [{"rec": "P1", "lines": [{"lhs": None, "rhs": "a"}, {"lhs": None, "rhs": "b"}]}],
                "customs": {}, "opt": [["a", "succeeded", False], ["b", "succeeded", False]], "runahead": 1,
                "queues": {}, "seed": 1, "fail_rate": 0.0, "custom_rate": 1.0, "disorder": 0.0, "ops": []}
        # (ii) 1/b is submitted and held, its definition is removed: it was dropped before 9a9212a (2/b, submitted and
        #      not held, was kept); now both stay
        c1 = _clone(base)
        s2 = _clone(base)
        remove_tasks(s2, ["b"])
        c1["ops"] = [{"tick": 1, "cmd": "hold", "args": {"tasks": ["1/b"]}}]
        add_reload(c1, 2, "shrink", s2)
        # (i) queue of limit 1: 1/a runs, 1/b and 1/c queued; 1/c held; reload of the unchanged definition
        c2 = _clone(base)
        c2.update({"fcp": 1, "tasks": ["a", "b", "c"], "opt": [[t, "succeeded", False] for t in "abc"],
                   "queues": {"q1": {"limit": 1, "members": ["a", "b", "c"]}}})
        c2["sections"][0]["lines"].append({"lhs": None, "rhs": "c"})
        c2["ops"] = [{"tick": 1, "cmd": "hold", "args": {"tasks": ["1/c"]}},
                     {"tick": 5, "cmd": "release", "args": {"tasks": ["1/c"]}}]
        add_reload(c2, 2, "same", c2)
        # (iii) a & b => z; 1/b held; 1/a succeeds and spawns 1/z; `cylc remove 1/z`; 1/b released, succeeds and
        #       respawns 1/z with a:succeeded NOT satisfied although it is recorded in task_outputs; reload of the
        #       unchanged definition: the prerequisite must stay unsatisfied (it must not be re-evaluated from the DB)
        c3 = _clone(base)
        c3.update({"fcp": 1, "tasks": ["a", "b", "z"], "opt": [[t, "succeeded", False] for t in "abz"], "max_ticks": 24})
        c3["sections"][0]["lines"] += [
            {"lhs": None, "rhs": "z"},
            {"lhs": {"op": "and", "args": [{"task": "a", "off": 0, "out": "succeeded"},
                                           {"task": "b", "off": 0, "out": "succeeded"}]}, "rhs": "z"}]
        c3["ops"] = [{"tick": 0, "cmd": "hold", "args": {"tasks": ["1/b"]}},
                     {"tick": 9, "cmd": "remove_tasks", "args": {"tasks": ["1/z"], "flow": ["all"]}},
                     {"tick": 10, "cmd": "release", "args": {"tasks": ["1/b"]}}]
        add_reload(c3, 18, "same", c3)
        # (each witness is run by one stream only)
        return {"reload-cmds": [c1, c2], "reload-respawn": [c3]}.get(self.name, [])

    def _cases(self, r, n):
        mut = {"same": lambda x, _r: x, "ext": extend, "shrink": shrink_def}
        out = []
        while len(out) < n:
            base = scen.gen_scenario(r, self.feat)
            base.pop("baseline", None)
            base["max_ticks"] = 45
            plain = r.random() < 0.25
            if plain:
                base["ops"] = []      # no hold / release commands: the outcome of the run does not depend on timing
            for k in r.sample(range(0, 9), 3):
                s = _clone(base)
                if not plain and r.random() < 0.35:
                    # `cylc remove` of partly satisfied waiting tasks before the reload: respawned later, their
                    # prerequisites on outputs recorded earlier are unsatisfied (live state and DB disagree)
                    t1 = r.randint(1, 5)
                    for dt in range(r.randint(1, 3)):
                        s["ops"].append({"tick": t1 + dt, "cmd": "x_remove_partial", "args": {"pick": r.randrange(8)}})
                    k = t1 + r.randint(3, 9)
                kind = r.choice(self.kinds)
                # half of the changed definitions are decided when the command is issued (targeted at the pool)
                adapt = r.randrange(1 << 30) if kind != "same" and r.random() < 0.6 else None
                cur = _clone(base) if adapt is not None else mut[kind](_clone(base), r)
                add_reload(s, k, kind, cur, adapt)
                if not plain and r.random() < 0.5:
                    # keep part of the pool waiting (held) across the reload while earlier cycles finish
                    s["ops"].append({"tick": r.randint(0, max(0, k - 1)), "cmd": "set_hold_point",
                                     "args": {"point": str(r.randint(base["icp"], max(base["icp"], base["fcp"] - 1)))}})
                    s["ops"].append({"tick": k + r.randint(1, 5), "cmd": "release_hold_point", "args": {}})
                    s["ops"].sort(key=lambda o: o["tick"])
                if r.random() < self.p_second:
                    # (after a targeted change the second definition starts again from the untargeted one)
                    kind2 = r.choice(self.kinds + ["orig"])
                    nxt = base if kind2 == "orig" else mut[kind2](_clone(cur), r)
                    add_reload(s, k + r.randint(1, 4), "same" if kind2 == kind == "same" else "other", nxt,
                               r.randrange(1 << 30) if kind2 == "ext" and r.random() < 0.5 else None)
                out.append(s)
        return out[:n]

    def gen(self, rng, tier):
        n = self.n_quick if tier == "quick" else self.n_thorough
        return self._cases(random.Random(rng.randrange(1 << 30)), n)

    def search(self, rng, tier):
        return self._cases(random.Random(rng.randrange(1 << 30)), 2 * self.n_quick)

    def impl(self, cases):
        from vp.sched import driver, reload_ext
        reload_ext.install(driver)
        reload_ext.RENDER["fn"] = render
        home = Path(os.environ["HOME"])

        def run(c):
            for _attempt in range(3):
                reload_ext.reset_run()
                r = driver.run_many([c], home)[0]
                # an error that does not repeat is the overloaded machine's (e.g. the ZMQ server thread's start-up
                # barrier timing out); one that repeats three times is reported
                if not r["meta"].get("error"):
                    return r
            if "BrokenBarrierError" in str(r["meta"].get("error")):
                r["meta"]["flaky"] = True
            return r
        out = []
        for c in cases:
            r = run(c)
            r["trace"] = [_slim(e) for e in r["trace"] if e["e"] in KEEP]
            if all(o["cmd"] == "x_reload" and o["kind"] == "same" for o in c["ops"]):
                c0 = _clone(c)
                c0["ops"] = [o for o in c0["ops"] if o["cmd"] != "x_reload"]
                r0 = run(c0)
                r["base"] = {"stop": r0["meta"]["stop"], "error": r0["meta"]["error"]}
            out.append(r)
        return out

    def coq_case(self, c, r):
        if r["meta"].get("flaky"):
            return None
        return cases_of(r["trace"])

    def oracle(self, c, r):
        if r["meta"].get("flaky"):
            return None
        fails = reload_oracle(c, r)
        if not fails:
            return None
        for cls, txt in fails:
            if cls is None:
                return txt
        for want in (KNOWN_QUEUED,):
            for cls, txt in fails:
                if cls == want:
                    return f"{cls}: {txt}"
        return None

    def key(self, c, r):
        n = sum(1 for e in r["trace"] if e["e"] == "reload_before" and e["tasks"])
        if not n:
            return None
        return json.dumps([c["sections"], c["seed"], [[o["tick"], o["kind"]] for o in c["ops"] if o["cmd"] == "x_reload"],
                           [e["scn2"]["sections"] for e in r["trace"] if e["e"] == "reload_def"]], sort_keys=True)

    def classify(self, c, r, failure):
        for kf in (KNOWN_QUEUED,):
            if failure.startswith(kf):
                return f"reload:{kf}"
        for tag, words in (("orphan", ("definition was removed", "definition removed", "kept orphan")),
                           ("prerequisite", ("prerequisite",)),
                           ("iteration-end", ("end of the main-loop iteration",)),
                           ("pool", ("dropped from the pool", "appeared in the pool", "pool order", "duplicate ids")),
                           ("state", ("->",)),
                           ("run", ("raised", "rejected", "never ran", "without reloading", "shuts down"))):
            if any(w in failure for w in words):
                return f"reload:{tag}"
        return "reload:other"

    def shrink(self, c):
        ops = c.get("ops", [])
        rl = [i for i, o in enumerate(ops) if o["cmd"] == "x_reload"]
        for i, o in enumerate(ops):
            if o["cmd"] != "x_reload" or len(rl) > 1:
                c2 = _clone(c)
                del c2["ops"][i]
                yield c2


class RespawnStream(ReloadStream):
    """Join graphs (several parents => z) in which a fast parent completes, the partly satisfied child is removed with
    the real `cylc remove`, and a slow (held, then released) parent respawns it: the respawned task has prerequisites
    that are NOT satisfied although their outputs are recorded in task_outputs.  Then the reload."""

    def __init__(self, name, n_quick, n_thorough):
        super().__init__(name, {"join": True}, n_quick, n_thorough)
        self.rule = ("join graphs: 2-3 parents and a child z over 1-3 cycles, prerequisites as one AND expression or one "
                     "line per parent, optional [-P1] offset and a downstream task; one parent held from the start; once the "
                     "others have finished the real remove command is issued on partly satisfied waiting tasks, the held "
                     "parent is released and respawns them with the earlier outputs recorded in task_outputs but not "
                     "satisfied; then the real reload (unchanged / extended / shrunk definition); non-trivial = a reload "
                     "that ran on a non-empty pool")

    def _cases(self, r, n):
        mut = {"same": lambda x, _r: x, "ext": extend, "shrink": shrink_def}
        out = []
        while len(out) < n:
            npar = r.choice([2, 2, 3])
            parents = [chr(ord("a") + i) for i in range(npar)]
            tasks = parents + ["z"] + (["y"] if r.random() < 0.4 else [])
            fcp = r.choice([1, 1, 2, 3])
            lines = [{"lhs": None, "rhs": t} for t in tasks]
            ats = [{"task": p_, "off": (-1 if fcp > 1 and r.random() < 0.2 else 0), "out": "succeeded"} for p_ in parents]
            if r.random() < 0.5:
                lines.append({"lhs": {"op": "and", "args": ats}, "rhs": "z"})
            else:
                lines += [{"lhs": a, "rhs": "z"} for a in ats]
            if "y" in tasks:
                lines.append({"lhs": {"task": "z", "off": 0, "out": "succeeded"}, "rhs": "y"})
            slow = r.choice(parents)
            t1 = r.randint(6, 9)
            k = t1 + 3 + r.randint(5, 10)
            base = {"icp": 1, "fcp": fcp, "tasks": tasks, "sections": [{"rec": "P1", "lines": lines}], "customs": {},
                    "opt": [[t, "succeeded", False] for t in tasks], "runahead": 4, "queues": {},
                    "seed": r.randrange(1 << 30), "fail_rate": 0.0, "custom_rate": 1.0, "disorder": 0.0,
                    "max_ticks": k + 8, "ops": []}
            ids = [f"{p_}/{slow}" for p_ in range(1, fcp + 1)]
            s = _clone(base)
            s["ops"] = [{"tick": 0, "cmd": "hold", "args": {"tasks": ids}}]
            for dt in range(r.randint(1, 3)):
                s["ops"].append({"tick": t1 + dt, "cmd": "x_remove_partial", "args": {"pick": r.randrange(8)}})
            s["ops"].append({"tick": t1 + 3, "cmd": "release", "args": {"tasks": ids}})
            kind = r.choice(["same", "same", "ext", "shrink"])
            add_reload(s, k, kind, mut[kind](_clone(base), r))
            out.append(s)
        return out


def _slim(e):
    if e["e"] == "tick_end":
        return {"e": "tick_end", "n": e["n"], "snap": {"tasks": e["snap"]["tasks"], "paused": e["snap"]["paused"]}}
    if e["e"] == "shutdown":
        return {"e": "shutdown", "reason": e.get("reason")}
    if e["e"] == "op":
        o = e["op"]
        return {"e": "op", "op": {k: v for k, v in o.items() if k != "args"} if o["cmd"] == "x_reload" else o}
    return e


STREAMS = [
    ReloadStream("reload-cmds", {"hold": True, "queues": True, "abs": True}, 12, 330),
    ReloadStream("reload-retries", {"hold": True, "queues": True, "retries": True}, 9, 270),
    RespawnStream("reload-respawn", 8, 160),
]

META = {
    "level_text": (
        "Coq theorems over Model/Reload.v (TaskPool._reload_taskdefs, TaskProxy.copy_to_reload_successor, "
        "TaskPool.check_task_output, queue_if_ready / the main loop's re-queue pass), for ALL pools, old/new definitions and "
        "task_outputs contents: the pool after a reload is, in the same order and with unique ids, exactly the tasks that are "
        "not (orphaned and waiting); every task that stays keeps status, flow numbers, submit number, "
        "held / runahead / manual flags and completed outputs, and nothing else appears; a still-defined task is never "
        "dropped; a reloaded task has exactly the prerequisite keys of the new definition; a key that existed before keeps "
        "its satisfaction; a new key is satisfied only if task_outputs records that output for overlapping flow numbers "
        "(iff when one row overlaps; never for a task in no flow); reloading an unchanged definition is the identity up to "
        "the queued flag; reloading twice equals reloading once up to the prerequisites of orphans kept by the first reload "
        "(idempotent when none is kept); tasks whose definition was removed are dropped only if they have not started "
        "(c27_orphans_dropped_only_if_not_started, for all pools since the fix 9a9212a; the old witness, a held submitted "
        "orphan, is a regression Example and corpus case). One clause of the property text is REFUTED in the faithful "
        "model and reproduced on the real scheduler (open finding, fix proposed): 'queued flag "
        "preserved' (c27_queued_refuted: TaskPool.reload clears is_queued; c27_requeue_restores: the main loop re-queues "
        "ready un-held tasks in the same iteration; c27_held_queued_lost_refuted: a held queued task stays un-queued). "
        "Tie: every real reload of the generated runs (unchanged / extended / shrunk / targeted definitions, 1-2 reloads per "
        "run, at main-loop iterations 0..8; plus join graphs whose child is removed with the real remove command and "
        "respawned, so that unsatisfied prerequisites are recorded in task_outputs at the reload) is recomputed by the model from (pool before, name lists + new prerequisite "
        "keys, task_outputs rows) and compared inside Coq with the real pool right after TaskPool.reload; every "
        "check_task_output call and the following queue_if_ready calls are compared too. Oracle (implementation only): "
        "the clauses on the before/after/end-of-iteration snapshots, prerequisite keys against the generator's own "
        "instance graph of the new definition, new prerequisites against the outputs completed in the trace and the "
        "task_outputs rows, no exception in the command or the rest of the run, and an unchanged-definition reload does "
        "not stop a run that otherwise completes."),
    "level_note": (
        "Model/Reload.v is a hand model; the new definition enters as data (task name lists, prerequisite keys of a fresh "
        "TaskState per pooled instance), satisfaction values as booleans (the 'satisfied naturally / from database / forced' "
        "strings are not distinguished). Not modelled (oracle / run-to-completion only): xtriggers, runtime settings of the "
        "new definition, the data store, try timers, is_late / clock-expire times, the queue order (a reload re-queues in "
        "pool order: reported with the queued finding), the flush of preparing tasks before the reload, compute_runahead "
        "after it. Trusted: Coq kernel+VM, vp/sched/driver.py (fake process pool), vp/sched/reload_ext.py. One open "
        "finding (queued flag) is reported as KNOWN-FINDING and does not fail the check."),
    "technique": ("Coq proof (all pools/definitions/DB contents; refutation witnesses) over an executable model of the pool "
                  "reload + in-Coq comparison with real reloads of generated scheduler runs + snapshot oracle"),
    "design_ref": "5/C27",
}
