"""C09 — task status transitions follow the lifecycle; outputs are monotone
(task level: one TaskProxy driven through process_message / job preparation)."""
from vp.props.taskmsg_common import (TaskMsgStream, steps, op_msg, RANK)

GEN = ["taskmsg_tables"]
TRUSTED = [
    "hand model Model/TaskMsg.v of TaskEventsManager.process_message and helpers, TaskOutputs.set_message_complete/"
    "get_incomplete_implied, TaskActionTimer.next, TaskJobManager.prep_submit_task_jobs/_set_retry_timers/"
    "_submit_task_job_callback (unforced messages, non-transient live-mode task)",
    "Gen/TaskMsgTables.v: status order, implied outputs and the received-message guards are extracted from /repo "
    "(AST of process_message) by vp/gen/taskmsg_tables.py",
    "stub managers (MagicMock) for DB, data store, xtriggers, process pool in the correspondence fixture",
]
ASSUMES = [
    "task level only: the scheduler sends a task to job preparation only when it is waiting (or still preparing); "
    "the scheduler-level streams check that",
    "no manual intervention (forced=False), no job vacation messages, live run mode, non-transient proxies",
    "lifecycle theorem: 'expired' is raised only for waiting tasks and non-received (polled/internal) messages do not "
    "contradict the task state (env_ok); the exact-edge theorem needs no such hypothesis",
]

TARGET = {("std", "started"): {"running"}, ("std", "succeeded"): {"succeeded"}, ("std", "expired"): {"expired"},
          ("std", "submitted"): {"submitted"}, ("failed",): {"failed", "waiting", "running", "submitted"},
          ("subfail",): {"submit-failed", "waiting"}}


def lifecycle_edge(a, b):
    return ((RANK[b] > RANK[a] or (a, b) == ("submitted", "submit-failed"))
            and (b != "expired" or a == "waiting")
            and (b != "submit-failed" or a in ("preparing", "submitted")))


def env_ok(b, kind, flag):
    if kind == ("std", "expired"):
        return b["st"] == "waiting"
    if kind == ("subfail",):
        return flag != "received" and b["st"] in ("preparing", "submitted")
    if flag != "received" and kind == ("std", "started"):
        return RANK[b["st"]] <= RANK["running"]
    if flag != "received" and kind == ("failed",):
        return b["st"] != "succeeded"
    return True


class C09Stream(TaskMsgStream):
    def clauses(self, c, r):
        v = []
        for i, (b, op, a) in enumerate(steps(c, r)):
            bo, ao = set(b["outs"]), set(a["outs"])
            if not bo <= ao:
                v.append(("output-uncompleted", f"step {i} {op}: outputs {sorted(bo - ao)} were un-completed"))
            if ao & {"succeeded", "failed"} and not {"submitted", "started"} <= ao:
                v.append(("implied-missing", f"step {i} {op}: {sorted(ao)} lacks submitted/started"))
            if a["sn"] != b["sn"] and op[0] != "prep":
                v.append(("submit-num-changed", f"step {i} {op}: submit number {b['sn']} -> {a['sn']}"))
            if b["st"] == a["st"]:
                continue
            edge = f"{b['st']} -> {a['st']}"
            if op[0] == "prep":
                if (b["st"], a["st"]) != ("waiting", "preparing") or a["sn"] != b["sn"] + 1:
                    v.append(("prep-edge", f"step {i}: job preparation moved {edge}"))
                continue
            kind, flag, stale = op_msg(op, b)
            retry = [e for e in a["eff"] if e[0] == "retry"]
            if kind not in TARGET or (a["st"] not in TARGET[kind] and a["st"] != "waiting"):
                v.append(("wrong-target", f"step {i} {op}: {edge}"))
            elif kind == ("std", "submitted") and b["st"] != "preparing":
                v.append(("wrong-target", f"step {i} {op}: {edge}"))
            elif a["st"] == "waiting":
                if not retry:
                    v.append(("waiting-without-retry", f"step {i} {op}: {edge} without a retry"))
            elif op[0] == "subres" and not op[1] and b["st"] in ("running", "failed", "succeeded"):
                v.append(("submit-fail-after-start",
                          f"step {i}: failed submit-command result after the job started moved {edge}"))
            elif env_ok(b, kind, flag):
                if not lifecycle_edge(b["st"], a["st"]):
                    v.append(("off-lifecycle", f"step {i} {op}: {edge}"))
            elif flag != "received" and kind == ("std", "started") and b["st"] in ("failed", "succeeded"):
                v.append(("late-poll-regress", f"step {i} {op}: late poll result moved {edge}"))
            elif kind == ("std", "expired"):
                pass        # 'expired' is raised by the scheduler for waiting tasks; a job-sent text "expired" is not a job event
            elif flag == "received" and RANK[a["st"]] < RANK[b["st"]]:
                v.append(("received-backward", f"step {i} {op}: {edge}"))
        return v


STREAMS = [C09Stream()]

# scheduler-level stream (pool automaton Model/Pool.v + real scheduler runs with retries, failures,
# submit failures, duplicated / re-ordered messages); added by the framework owner
from vp.sched.stream import SchedStream  # noqa: E402
STREAMS.append(SchedStream('C09', name="sched-retry", feat={'retries': True, 'abs': True}, n_quick=24, n_thorough=500))

META = {
    "level_text": (
        "Coq theorems over Model/TaskMsg.v for all tasks, messages, flags and submit numbers (no bound): every status "
        "change of a step lies in an explicit edge table, each edge of which is shown reachable; received messages only "
        "move the status forward in the lifecycle order or back to waiting with a retry; under the stated environment "
        "hypothesis every change is a lifecycle edge (submit-failed only from preparing/submitted, expired only from "
        "waiting); waiting is re-entered only via _retry_task with a timer increment; completed outputs only grow; "
        "succeeded/failed complete implies submitted and started complete (inductive invariant of every step). "
        "The unrestricted lifecycle statement is refuted in Coq by the late-poll witness (known finding). The model is "
        "tied to the code by per-step differential runs on a real TaskProxy/TaskEventsManager/TaskJobManager."),
    "level_note": (
        "hand model (status order, implied table and guards generated from /repo); task level only - scheduler-level "
        "scenario streams are separate; trusted: Coq kernel+VM, harness, MagicMock stubs of DB/data-store/xtriggers."),
    "technique": "Coq proof (case analysis + inductive invariants over op sequences) + in-Coq differential correspondence + trace oracle",
    "design_ref": "5/C09",
}
