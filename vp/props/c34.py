"""C34 — parameter expansion yields exactly the Cartesian product
(cylc/flow/param_expand.py GraphExpander / NameExpander; removal of
out-of-range offset nodes by cylc/flow/graph_parser.py)."""
import itertools
import re

from vp.core import Stream
from vp import coqfmt as q

TRUSTED = [
    "hand model Model/Param.v of GraphExpander.expand/_expand_graph, NameExpander.expand/_expand_name, "
    "item_in_iterable and of GraphParser.REC_NODE_OUT_OF_RANGE.sub on operator-separated node lists",
    "the harness renders structured lines/headings/templates to the strings the real code parses "
    "(regex tokenisation REC_P_GROUP/REC_P_OFFS/REC_P_ALL/REC_NAMES is exercised, not modelled)",
    "CPython '%' formatting (%s, %[+]0Nd) and int(str) modelled by apply_tmpl / py_int in Model/Param.v, "
    "validated by the correspondence run",
    "independent Python brute-force reference (itertools.product) as the property oracle",
]
ASSUMES = [
    "literal text, templates and string values contain no '<' or '>' (replacement of one group cannot create another)",
    "graph lines contain no blanks inside <...> (GraphParser strips blanks before expansion)",
    "oracle domain: parameters used are defined and non-empty, values of one parameter are distinct, a parameter "
    "occurs at most once per <...> group (graph) / per name (runtime heading), templates refer to their own parameter",
    "no parameter value or task name contains the text -3276 except through the _REMOVE marker",
]

REMOVE = -32768
PNAMES = ["i", "j", "k", "m", "n", "ii", "i2", "run", "x_y", "mm"]
STRVALS = ["cat", "dog", "a", "b", "x1", "big_one", "a-b", "v+1", "north", "s"]
INTLIKE = ["072", "01", "007", "+1", "1_0", "00"]
GLITS = ["foo", "bar", "baz", "=>", " => ", "&", " | ", ":fail", "[-P1D]", "pre=>", "=>post", "a1", "x-y", "(", ")", "!"]
NLITS = ["foo", "bar", "baz", "a1", "x-y", "F", "t_0", "run+1", "p@q"]


# ------------------------------------------------------------------ rendering
def tmpl_str(segs):
    out = []
    for s in segs:
        if s[0] == "lit":
            out.append(s[1].replace("%", "%%"))
        else:
            _, name, kind, plus, width = s
            if kind == "s":
                out.append(f"%({name})s")
            else:
                out.append(f"%({name}){'+' if plus else ''}{('0' + str(width)) if width > 0 else ''}d")
    return "".join(out)


def item_str(it, rng_spaces=None):
    name, sel = it[0], it[1]
    if sel == "free":
        return name
    if sel == "eq":
        return f"{name}={it[2]}"
    k = it[2]
    return f"{name}{'+' if k >= 0 else '-'}{abs(k)}"


def group_str(items):
    return "<" + ",".join(item_str(i) for i in items) + ">"


def line_str(toks):
    return "".join(t[1] if t[0] == "lit" else group_str(t[1]) for t in toks)


def params_py(case):
    vals = {p["name"]: list(p["vals"]) for p in case["params"]}
    tmpls = {p["name"]: tmpl_str(p["tmpl"]) for p in case["params"]}
    return vals, tmpls


# ------------------------------------------------------------------ reference
def member(vals, raw):
    """The value of the parameter that `=raw` denotes: same spelling, or for
    integers the same number."""
    for v in vals:
        if str(v) == raw:
            return v
    try:
        n = int(raw)
    except ValueError:
        return None
    for v in vals:
        try:
            if int(v) == n:
                return v
        except ValueError:
            pass
    return None


def groups_of(toks):
    return [t[1] for t in toks if t[0] == "grp"]


def in_domain(case, toks_list, per_name):
    vals = {p["name"]: p["vals"] for p in case["params"]}
    for p in case["params"]:
        if not p["vals"] or len(set(map(repr, p["vals"]))) != len(p["vals"]):
            return False
        if len({type(v) for v in p["vals"]}) != 1:
            return False
        for s in p["tmpl"]:
            if s[0] == "fld" and s[1] != p["name"]:
                return False
            if s[0] == "fld" and s[2] == "d" and not isinstance(p["vals"][0], int):
                return False
        if any(isinstance(v, int) and "3276" in str(v) for v in p["vals"]):
            return False
    for toks in toks_list:
        seen_name = []
        for g in groups_of(toks):
            names = [it[0] for it in g]
            if len(set(names)) != len(names):
                return False
            if any(n not in vals for n in names):
                return False
            seen_name += names
        if per_name and len(set(seen_name)) != len(seen_name):
            return False
    return True


def ref_group(g, combo, vals, tmpls):
    out = []
    for it in g:
        p = it[0]
        if it[1] == "free":
            v = combo[p]
        elif it[1] == "eq":
            v = member(vals[p], it[2])
            if v is None:
                return None
        else:
            idx = vals[p].index(combo[p]) + it[2]
            v = vals[p][idx] if 0 <= idx < len(vals[p]) else REMOVE
        out.append((p, v))
    return out


def ref_graph(case):
    """expected set of lines, or 'param' when a fixed value is out of range"""
    vals, tmpls = params_py(case)
    used = []
    for g in groups_of(case["line"]):
        for it in g:
            if it[0] not in used:
                used.append(it[0])
    exp = set()
    for tup in itertools.product(*[vals[p] for p in used]):
        combo = dict(zip(used, tup))
        s = ""
        for t in case["line"]:
            if t[0] == "lit":
                s += t[1]
            else:
                gv = ref_group(t[1], combo, vals, tmpls)
                if gv is None:
                    return "param"
                s += "".join(tmpls[p] % {p: v} for p, v in gv)
        if s:
            exp.add(s)
    return exp


def exc_kind(e):
    n = type(e).__name__
    return {"ParamExpandError": "param", "ValueError": "value", "TypeError": "type"}.get(n, f"other:{n}: {e}")


# ------------------------------------------------------------------ generation
def gen_params(rng, kind, n=None):
    names = rng.sample(PNAMES, n or rng.randint(1, 3))
    ps = []
    for nm in names:
        r = rng.random()
        if kind == "padded" and r < 0.6:
            vals = rng.sample(INTLIKE, rng.randint(1, 2)) + rng.sample(STRVALS, rng.randint(1, 2))
            rng.shuffle(vals)
            tm = [["lit", rng.choice(["_", "_" + nm, ""])], ["fld", nm, "s", False, 0]]
        elif r < 0.55:
            lo = rng.choice([0, 0, 1, -2, 5])
            vals = list(range(lo, lo + rng.randint(1, 4)))
            if rng.random() < 0.2:
                rng.shuffle(vals)
            c = rng.random()
            if c < 0.4:
                tm = [["lit", "_" + nm], ["fld", nm, "d", False, 0]]
            elif c < 0.65:
                tm = [["lit", "_" + nm], ["fld", nm, "d", False, rng.randint(1, 4)]]
            elif c < 0.8:
                tm = [["lit", "_" + nm], ["fld", nm, "d", True, rng.randint(0, 4)]]
            elif c < 0.9:
                tm = [["lit", "_"], ["fld", nm, "s", False, 0], ["lit", rng.choice(["", "x", "%"])]]
            else:
                tm = [["lit", rng.choice(["_fixed", "-"])]] + ([["fld", nm, "d", False, 2]] if rng.random() < 0.5 else [])
        else:
            vals = rng.sample(STRVALS, rng.randint(1, 4))
            tm = [["lit", rng.choice(["_", "_" + nm, "-", ""])], ["fld", nm, "s", False, 0]]
            if rng.random() < 0.15:
                tm.append(["lit", rng.choice(["z", "%", "_"])])
        ps.append({"name": nm, "vals": vals, "tmpl": tm})
    return ps


def gen_item(rng, p, allow_off, kind):
    r = rng.random()
    nm = p["name"]
    if r < 0.55:
        return [nm, "free"]
    if r < 0.8 or not allow_off:
        c = rng.random()
        if c < 0.75:
            raw = str(rng.choice(p["vals"]))
        elif c < 0.85 and isinstance(p["vals"][0], int):
            raw = "0" + str(abs(rng.choice(p["vals"])))       # zero-padded spelling of an int
        else:
            raw = rng.choice(["9", "zz", "1", "cat", "-7"])
        return [nm, "eq", raw]
    return [nm, "off", rng.choice([-1, -1, -1, 1, -2, 2, -5])]


def gen_group(rng, params, allow_off, kind):
    k = rng.randint(1, min(3, len(params)))
    ps = rng.sample(params, k)
    return [gen_item(rng, p, allow_off, kind) for p in ps]


def gen_graph_line(rng, params, kind):
    toks = []
    ng = rng.randint(1, 4)
    for i in range(ng):
        if i == 0 and rng.random() < 0.1:
            pass
        else:
            toks.append(["lit", rng.choice(GLITS[:3])])
        toks.append(["grp", gen_group(rng, params, True, kind)])
        if rng.random() < 0.2:
            toks.append(["grp", gen_group(rng, params, True, kind)])
        if i < ng - 1:
            toks.append(["lit", rng.choice(GLITS[3:7])])
        elif rng.random() < 0.3:
            toks.append(["lit", rng.choice(GLITS[3:])])
    if rng.random() < 0.2 and len(toks) >= 2:      # the same group text twice
        g = next(t for t in toks if t[0] == "grp")
        toks += [["lit", "=>again"], ["grp", [list(it) for it in g[1]]]]
    return toks


def odd_mutation(rng, case, is_name):
    """push a valid case outside the oracle's domain (correspondence only)"""
    c = rng.randrange(7)
    toks_list = case["names"] if is_name else [case["line"]]
    grps = [g for toks in toks_list for g in groups_of(toks)]
    ps = case["params"]
    if c == 0 and grps:                                  # undefined parameter
        rng.choice(grps).append([rng.choice(["zz", "q", "0"]), "free"])
    elif c == 1 and grps:                                # the same parameter twice in a group
        g = rng.choice(grps)
        it = rng.choice(g)
        dup = rng.choice([[it[0], "free"], [it[0], "eq", str((ps[0]["vals"] or [0])[0])]]
                         + ([] if is_name else [[it[0], "off", -1]]))
        g.insert(rng.randrange(len(g) + 1), dup)
    elif c == 2:                                         # template refers to another / unknown field
        p = rng.choice(ps)
        other = rng.choice([x["name"] for x in ps] + ["z"])
        p["tmpl"] = p["tmpl"] + [["fld", other, "s", False, 0]]
    elif c == 3:                                         # %d template over strings / mixed values
        p = rng.choice(ps)
        p["vals"] = p["vals"] + [rng.choice(STRVALS)]
        if rng.random() < 0.5:
            p["tmpl"] = [["lit", "_"], ["fld", p["name"], "d", False, 0]]
    elif c == 4:                                         # empty value list
        rng.choice(ps)["vals"] = []
    elif c == 5:                                         # duplicate values
        p = rng.choice(ps)
        if p["vals"]:
            p["vals"] = p["vals"] + [p["vals"][0]]
    elif c == 6 and grps:                                # int-looking / odd fixed values on string lists
        g = rng.choice(grps)
        it = rng.choice(g)
        it[1:] = ["eq", rng.choice(["1", "1_0", "+2", "_1", "1_", "1__0", "-", "a_1", "0"])]
    case["kind"] = "odd"
    return case


class GraphStream(Stream):
    name = "graph"
    coq_import = "From Cylc Require Import Model.Param."
    check_fn = "Param.g_check"
    show_fn = "Param.g_model"
    n_hashseeds = 4
    rule = ("random parameter sets (int ranges, strings, int-looking strings; %s/%d/%0Nd/%+0Nd templates) and graph lines "
            "with 1-5 <...> groups mixing free, =value and +/-offset items; kinds valid/padded/odd; "
            "non-trivial = successful expansion with >= 2 distinct lines; thorough adds every line of <= 2 groups "
            "over a fixed 2-parameter configuration")

    def corpus(self):
        return [
            # finding: '=072' on a string parameter renders 72
            {"kind": "padded", "params": [{"name": "m", "vals": ["072", "a"], "tmpl": [["lit", "_"], ["fld", "m", "s", False, 0]]}],
             "line": [["lit", "foo"], ["grp", [["m", "free"]]], ["lit", "=>bar"], ["grp", [["m", "eq", "072"]]]]},
            {"kind": "valid", "params": [{"name": "i", "vals": [0, 1], "tmpl": [["lit", "_i"], ["fld", "i", "d", False, 0]]},
                                         {"name": "j", "vals": [0, 1, 2], "tmpl": [["lit", "_j"], ["fld", "j", "d", False, 0]]}],
             "line": [["lit", "bar"], ["grp", [["i", "off", -1], ["j", "free"]]], ["lit", "=>baz"], ["grp", [["i", "free"], ["j", "free"]]]]},
        ]

    def gen(self, rng, tier):
        cases = []
        n = 200 if tier == "quick" else 6000
        for _ in range(n):
            r = rng.random()
            kind = "valid" if r < 0.6 else "padded" if r < 0.75 else "odd"
            ps = gen_params(rng, "padded" if kind == "padded" else "valid")
            case = {"kind": kind, "params": ps, "line": gen_graph_line(rng, ps, kind)}
            if kind == "padded":
                # make sure an int-looking value is actually selected somewhere
                cand = [p for p in ps if any(isinstance(v, str) and v in INTLIKE for v in p["vals"])]
                if cand:
                    p = rng.choice(cand)
                    v = rng.choice([v for v in p["vals"] if v in INTLIKE])
                    case["line"] += [["lit", "&x"], ["grp", [[p["name"], "eq", v]]]]
            if kind == "odd":
                case = odd_mutation(rng, case, False)
            cases.append(case)
        if tier == "thorough":
            ps = [{"name": "i", "vals": [0, 1, 2], "tmpl": [["lit", "_i"], ["fld", "i", "d", False, 0]]},
                  {"name": "m", "vals": ["cat", "dog"], "tmpl": [["lit", "_"], ["fld", "m", "s", False, 0]]}]
            its = []
            for p in ps:
                its.append([[p["name"], "free"]])
                its.append([[p["name"], "eq", str(p["vals"][-1])]])
                its.append([[p["name"], "eq", "zz"]])
                for k in (-1, 1, -2):
                    its.append([[p["name"], "off", k]])
            groups = its + [a + b for a in its[:6] for b in its[6:]] + [b + a for a in its[:6] for b in its[6:]]
            for g1 in groups:
                cases.append({"kind": "valid", "params": ps, "line": [["lit", "a"], ["grp", g1]]})
                for g2 in groups:
                    cases.append({"kind": "valid", "params": ps,
                                  "line": [["lit", "a"], ["grp", g1], ["lit", "=>b"], ["grp", g2]]})
        return cases

    def impl(self, cases):
        from cylc.flow.param_expand import GraphExpander
        out = []
        for c in cases:
            try:
                r = GraphExpander(params_py(c)).expand(line_str(c["line"]))
                out.append({"ok": sorted(r)})
            except Exception as e:  # noqa
                out.append({"exc": exc_kind(e)})
        return out

    def coq_case(self, c, r):
        if "exc" in r and r["exc"].startswith("other"):
            return None
        ids = Ids()
        impl = q.copt(r.get("ok"), lambda l: q.clist(q.ccodes(s) for s in l))
        return q.crecord(g_cfg=coq_cfg(c, ids), g_line=coq_line(c["line"], ids), g_impl=impl)

    def oracle(self, c, r):
        if "exc" in r and r["exc"].startswith("other"):
            return "unexpected exception " + r["exc"]
        if not in_domain(c, [c["line"]], False):
            return None
        exp = ref_graph(c)
        if exp == "param":
            return None if r.get("exc") in ("param", "value") else f"fixed value out of range must be rejected, got {short(r)}"
        if "exc" in r:
            return f"expansion raised {r['exc']}; expected {len(exp)} lines"
        got = set(r["ok"])
        if got != exp:
            return (f"expansion differs from the Cartesian product: missing {sorted(exp - got)[:4]}, "
                    f"unexpected {sorted(got - exp)[:4]}")
        return None

    def key(self, c, r):
        if "ok" not in r or len(r["ok"]) < 2:
            return None
        return line_str(c["line"]) + "|" + repr(params_py(c))

    def classify(self, c, r, failure):
        if respelled_fixed(c, [c["line"]]):
            return "c34:fixed-value-int-looking-string"
        return "c34:graph:" + super().classify(c, r, failure)

    def shrink(self, c):
        yield from shrink_case(c, "line")


def respelled_fixed(c, toks_list):
    """some `=raw` denotes a string value whose int() spelling differs (e.g. '072')"""
    vals = {p["name"]: p["vals"] for p in c["params"]}
    for toks in toks_list:
        for g in groups_of(toks):
            for it in g:
                if it[1] == "eq" and it[0] in vals:
                    m = member(vals[it[0]], it[2])
                    if isinstance(m, str):
                        try:
                            if str(int(it[2])) != m:
                                return True
                        except ValueError:
                            pass
    return False


def short(r):
    s = repr(r)
    return s if len(s) < 200 else s[:200] + "..."


def shrink_case(c, field):
    import copy
    toks_all = c[field]
    if field == "names":
        for i in range(len(toks_all)):
            if len(toks_all) > 1:
                d = copy.deepcopy(c); del d["names"][i]; yield d
        return
    for i in range(len(toks_all)):
        d = copy.deepcopy(c); del d[field][i]
        if any(t[0] == "grp" for t in d[field]):
            yield d
    for i, t in enumerate(toks_all):
        if t[0] == "grp" and len(t[1]) > 1:
            for j in range(len(t[1])):
                d = copy.deepcopy(c); del d[field][i][1][j]; yield d
    for i, p in enumerate(c["params"]):
        if len(p["vals"]) > 1:
            d = copy.deepcopy(c); d["params"][i]["vals"] = p["vals"][:-1]; yield d


# ------------------------------------------------------------------ Coq printing
class Ids:
    def __init__(self):
        self.d = {}

    def __call__(self, name):
        return q.cnat(self.d.setdefault(name, len(self.d)))


def coq_value(v):
    return f"(VInt {q.cz(v)})" if isinstance(v, int) else f"(VStr {q.ccodes(v)})"


def coq_tmpl(segs, ids):
    out = []
    for s in segs:
        if s[0] == "lit":
            out.append(f"(Lit {q.ccodes(s[1])})")
        elif s[2] == "s":
            out.append(f"(Fld {ids(s[1])} FS)")
        else:
            out.append(f"(Fld {ids(s[1])} (FD {q.cbool(s[3])} {q.cz(s[4])}))")
    return q.clist(out)


def coq_cfg(c, ids):
    return q.clist(q.cpair(ids(p["name"]),
                           q.crecord(p_vals=q.clist(coq_value(v) for v in p["vals"]), p_tmpl=coq_tmpl(p["tmpl"], ids)))
                   for p in c["params"])


def coq_item(it, ids):
    if it[1] == "free":
        s = "SFree"
    elif it[1] == "eq":
        s = f"(SEq {q.ccodes(it[2])})"
    else:
        s = f"(SOff {q.cz(it[2])})"
    return q.cpair(ids(it[0]), s)


def coq_line(toks, ids):
    return q.clist(f"(TLit {q.ccodes(t[1])})" if t[0] == "lit" else f"(TGrp {q.clist(coq_item(i, ids) for i in t[1])})"
                   for t in toks)


# ------------------------------------------------------------------ runtime headings
def name_str(toks, sp):
    out = []
    for t in toks:
        if t[0] == "lit":
            out.append(t[1])
        else:
            items = []
            for k, it in enumerate(t[1]):
                a, b = (sp[(k * 2) % len(sp)], sp[(k * 2 + 1) % len(sp)])
                if it[1] == "free":
                    items.append(a + it[0] + b)
                elif it[1] == "eq":
                    items.append(a + it[0] + b + "=" + a + it[2] + b)
                else:
                    items.append(a + it[0] + ("+" if it[2] >= 0 else "-") + str(abs(it[2])) + b)
            out.append("<" + ",".join(items) + ">")
    return "".join(out)


def heading_str(c):
    sp = c.get("sp", [""])
    return (", " if c.get("sep", 0) else ",").join((" " if c.get("sep", 0) == 2 else "") + name_str(n, sp) for n in c["names"])


def gen_name(rng, params, kind):
    toks = []
    if rng.random() < 0.12:
        return [["lit", rng.choice(NLITS)]]
    ng = rng.randint(1, 3)
    avail = list(params)
    rng.shuffle(avail)
    for i in range(ng):
        if not avail:
            break
        if i > 0 or rng.random() < 0.9:
            toks.append(["lit", rng.choice(NLITS)])
        k = rng.randint(1, min(2, len(avail)))
        ps, avail = avail[:k], avail[k:]
        toks.append(["grp", [gen_item(rng, p, rng.random() < 0.06, kind) for p in ps]])
    if rng.random() < 0.4:
        toks.append(["lit", rng.choice(NLITS)])
    return toks


def ref_names(case):
    vals, tmpls = params_py(case)
    exp = set()
    for toks in case["names"]:
        gs = groups_of(toks)
        if not gs:
            exp.add(("".join(t[1] for t in toks).strip(), ()))
            continue
        if any(it[1] == "off" for g in gs for it in g):
            return "param"
        free = [it[0] for g in gs for it in g if it[1] == "free"]
        for tup in itertools.product(*[vals[p] for p in free]):
            combo = dict(zip(free, tup))
            s, d = "", {}
            for t in toks:
                if t[0] == "lit":
                    s += t[1]
                    continue
                gv = ref_group(t[1], combo, vals, tmpls)
                if gv is None:
                    return "param"
                for p, v in gv:
                    s += tmpls[p] % {p: v}
                    d[p] = v
            exp.add((s, tuple(sorted(d.items()))))
    return exp


class NameStream(Stream):
    name = "name"
    coq_import = "From Cylc Require Import Model.Param."
    check_fn = "Param.n_check"
    show_fn = "Param.n_model"
    n_hashseeds = 2
    rule = ("random parameter sets and runtime headings of 1-3 comma-separated names, each with literal parts and "
            "<...> groups (free and =value items, blanks around items, rare offsets); kinds valid/padded/odd/repeat; "
            "non-trivial = successful expansion with >= 2 distinct instances")

    def corpus(self):
        return [
            {"kind": "padded", "params": [{"name": "m", "vals": ["072", "a"], "tmpl": [["lit", "_"], ["fld", "m", "s", False, 0]]}],
             "names": [[["lit", "foo"], ["grp", [["m", "eq", "072"]]]]]},
            # finding: the same parameter fixed in one group and free in another
            {"kind": "repeat", "params": [{"name": "i", "vals": [0, 1, 2], "tmpl": [["lit", "_i"], ["fld", "i", "d", False, 0]]}],
             "names": [[["lit", "foo"], ["grp", [["i", "eq", "0"]]], ["lit", "bar"], ["grp", [["i", "free"]]]]]},
        ]

    def gen(self, rng, tier):
        cases = []
        n = 160 if tier == "quick" else 5000
        for _ in range(n):
            r = rng.random()
            kind = "valid" if r < 0.6 else "padded" if r < 0.72 else "repeat" if r < 0.8 else "odd"
            ps = gen_params(rng, "padded" if kind == "padded" else "valid")
            for p in ps:      # '%' in a template literal is fine; NameExpander never sees it raw
                pass
            names = [gen_name(rng, ps, kind) for _ in range(rng.randint(1, 3))]
            case = {"kind": kind, "params": ps, "names": names, "sep": rng.randrange(3),
                    "sp": [rng.choice(["", "", " "]) for _ in range(rng.randint(1, 3))]}
            if kind == "padded":
                cand = [p for p in ps if any(isinstance(v, str) and v in INTLIKE for v in p["vals"])]
                if cand:
                    p = rng.choice(cand)
                    v = rng.choice([v for v in p["vals"] if v in INTLIKE])
                    case["names"].append([["lit", "pad"], ["grp", [[p["name"], "eq", v]]]])
            if kind == "repeat":
                p = rng.choice(ps)
                nm = rng.choice(case["names"])
                nm += [["lit", "r"], ["grp", [[p["name"], rng.choice(["free", "free"])] if rng.random() < 0.6
                                                 else [p["name"], "eq", str(rng.choice(p["vals"]))]]]]
            if kind == "odd":
                case = odd_mutation(rng, case, True)
            cases.append(case)
        return cases

    def impl(self, cases):
        from cylc.flow.param_expand import NameExpander
        out = []
        for c in cases:
            try:
                r = NameExpander(params_py(c)).expand(heading_str(c))
                out.append({"ok": sorted([[nm, sorted([k, v] for k, v in d.items())] for nm, d in r],
                                         key=repr)})
            except Exception as e:  # noqa
                out.append({"exc": exc_kind(e)})
        return out

    def coq_case(self, c, r):
        if "exc" in r and r["exc"].startswith("other"):
            return None
        ids = Ids()
        cfg = coq_cfg(c, ids)
        names = q.clist(coq_line(n, ids) for n in c["names"])
        if "ok" in r:
            seen, insts = set(), []
            for nm, d in r["ok"]:
                k = repr((nm, d))
                if k in seen:
                    continue
                seen.add(k)
                insts.append(q.cpair(q.ccodes(nm), q.clist(q.cpair(ids(k2), coq_value(v)) for k2, v in d)))
            impl = f"(inl {q.clist(insts)})"
        else:
            impl = f"(inr {q.cnat({'param': 0, 'value': 1, 'type': 2}[r['exc']])})"
        return q.crecord(n_cfg=cfg, n_names=names, n_impl=impl)

    def oracle(self, c, r):
        if "exc" in r and r["exc"].startswith("other"):
            return "unexpected exception " + r["exc"]
        if not in_domain(c, c["names"], False):
            return None
        exp = ref_names(c)
        if exp == "param":
            return None if r.get("exc") in ("param", "value") else f"offset / out-of-range value must be rejected, got {short(r)}"
        if "exc" in r:
            return f"expansion raised {r['exc']}; expected {len(exp)} instances"
        got = {(nm, tuple((k, v) for k, v in d)) for nm, d in r["ok"]}
        if got != exp:
            return (f"instances differ from the Cartesian product: missing {sorted(exp - got, key=repr)[:3]}, "
                    f"unexpected {sorted(got - exp, key=repr)[:3]}")
        return None

    def key(self, c, r):
        if "ok" not in r or len(r["ok"]) < 2:
            return None
        return heading_str(c) + "|" + repr(params_py(c))

    def classify(self, c, r, failure):
        if respelled_fixed(c, c["names"]):
            return "c34:fixed-value-int-looking-string"
        for toks in c["names"]:
            used = [it[0] for g in groups_of(toks) for it in g]
            if len(set(used)) != len(used):
                return "c34:name-parameter-repeated-in-one-name"
        return "c34:name:" + super().classify(c, r, failure)

    def shrink(self, c):
        yield from shrink_case(c, "names")


# ------------------------------------------------------------------ removal of out-of-range nodes
OPS = ["&", "|"]


def gen_drop(rng):
    ps = gen_params(rng, "valid", n=rng.randint(1, 2))
    for p in ps:          # keep names recognisable and free of the marker
        p["tmpl"] = [["lit", "_" + p["name"]], ["fld", p["name"], "s" if isinstance(p["vals"][0], str) else "d", False, 0]]
    nodes, ops = [], []
    for i in range(rng.randint(1, 4)):
        base = rng.choice(["foo", "bar", "baz", "qux", "n1"])
        if rng.random() < 0.25:
            nodes.append([["lit", base + rng.choice(["", "", ":start"])]])
        else:
            p = rng.choice(ps)
            it = [p["name"], "off", rng.choice([-1, -1, -1, 1, -2])] if rng.random() < 0.7 else [p["name"], "free"]
            nodes.append([["lit", base], ["grp", [it]]] + ([["lit", ":start"]] if rng.random() < 0.15 else []))
        if i:
            ops.append(rng.choice(OPS))
    p = rng.choice(ps)
    return {"kind": "valid", "params": ps, "nodes": nodes, "ops": ops, "rhs": [["lit", "tgt"], ["grp", [[p["name"], "free"]]]]}


def drop_line(c):
    s = line_str(c["nodes"][0])
    for op, n in zip(c["ops"], c["nodes"][1:]):
        s += op + line_str(n)
    return s + "=>" + line_str(c["rhs"])


MARK = str(REMOVE)


class DropStream(Stream):
    name = "drop"
    coq_import = "From Cylc Require Import Model.Param."
    check_fn = "Param.d_check"
    show_fn = "Param.d_model"
    n_hashseeds = 2
    rule = ("dependencies `n1 op n2 ... => tgt<p>` whose left nodes carry +/- offsets; each expanded left side and the "
            "whole line go through GraphParser.parse_graph and the nodes left in the graph are read back; "
            "non-trivial = some instance has an out-of-range node")

    def corpus(self):
        m = {"name": "m", "vals": ["cat", "dog"], "tmpl": [["lit", "_"], ["fld", "m", "s", False, 0]]}
        return [
            # finding: two leading out-of-range nodes, the second one survives
            {"kind": "valid", "params": [m], "ops": ["&"],
             "nodes": [[["lit", "foo"], ["grp", [["m", "off", -1]]]], [["lit", "bar"], ["grp", [["m", "off", -1]]]]],
             "rhs": [["lit", "tgt"], ["grp", [["m", "free"]]]]},
            {"kind": "valid", "params": [m], "ops": ["&", "&"],
             "nodes": [[["lit", "baz"]], [["lit", "foo"], ["grp", [["m", "off", -1]]]], [["lit", "pub"], ["grp", [["m", "off", -1]]]]],
             "rhs": [["lit", "tgt"], ["grp", [["m", "free"]]]]},
        ]

    def gen(self, rng, tier):
        return [gen_drop(rng) for _ in range(100 if tier == "quick" else 3000)]

    def impl(self, cases):
        from cylc.flow.param_expand import GraphExpander
        from cylc.flow.graph_parser import GraphParser
        out = []
        for c in cases:
            P = params_py(c)
            line = drop_line(c)
            try:
                pairs = []
                for ln in sorted(GraphExpander(P).expand(line)):
                    lhs = ln.split("=>")[0]
                    # the removal as parse_graph performs it: parse the expanded left side on its own
                    # and read back which nodes are left
                    g1 = GraphParser()
                    g1.parse_graph(lhs)
                    pairs.append([lhs, sorted(g1.original)])
            except Exception as e:  # noqa
                out.append({"exc": exc_kind(e)})
                continue
            try:
                gp = GraphParser(parameters=P)
                gp.parse_graph(line)
                tasks = set(gp.original) | set(gp.triggers)
                for v in gp.triggers.values():
                    for trigs in v.values():
                        tasks.update(t.split(":")[0] for t in trigs[0])
                out.append({"pairs": pairs, "tasks": sorted(tasks)})
            except Exception as e:  # noqa  (graph-level rejection is not this property's business)
                out.append({"pairs": pairs, "tasks": None, "parse_exc": f"{type(e).__name__}: {e}"[:200]})
        return out

    @staticmethod
    def _split(s):
        parts = re.split(r"([&|])", s)
        return parts[0::2], parts[1::2]

    @staticmethod
    def _name(node):
        return node.split(":")[0]

    def coq_case(self, c, r):
        if "exc" in r:
            return None
        items = []
        for lhs, kept in r["pairs"]:
            nodes, ops = self._split(lhs)
            nd = [q.cpair(q.cbool(MARK in n), q.ccodes(self._name(n))) for n in nodes]
            rest = q.clist(q.cpair(q.cz(ord(o)), n) for o, n in zip(ops, nd[1:]))
            items.append(q.cpair(q.cpair(nd[0], rest), q.clist(q.ccodes(k) for k in kept)))
        return q.crecord(d_items=q.clist(items))

    def oracle(self, c, r):
        if "exc" in r:
            return "unexpected exception " + r["exc"]
        for lhs, kept in r["pairs"]:
            nodes, _ = self._split(lhs)
            want = sorted({self._name(n) for n in nodes if MARK not in n})
            if kept != want:
                return f"out-of-range nodes not dropped: {lhs!r} leaves nodes {kept}, expected {want}"
        bad = [t for t in (r["tasks"] or []) if MARK in t]
        if bad:
            return f"graph contains out-of-range placeholder tasks {bad}"
        return None

    def key(self, c, r):
        if "pairs" not in r or not any(MARK in lhs for lhs, _ in r["pairs"]):
            return None
        return drop_line(c) + "|" + repr(params_py(c))

    def classify(self, c, r, failure):
        for lhs, _ in r.get("pairs", []):
            nodes, _ops = self._split(lhs)
            if len(nodes) >= 2 and MARK in nodes[0] and MARK in nodes[1]:
                return "c34:drop-two-leading-out-of-range-nodes"
        return "c34:drop:" + super().classify(c, r, failure)

    def shrink(self, c):
        import copy
        for i in range(len(c["nodes"])):
            if len(c["nodes"]) > 2:
                d = copy.deepcopy(c); del d["nodes"][i]; del d["ops"][max(0, i - 1)]; yield d


STREAMS = [GraphStream(), NameStream(), DropStream()]

META = {
    "level_text": (
        "Coq theorems over Model/Param.v, for all configurations and lines: the nested-loop expansion of a graph line "
        "(and of a runtime heading name) returns exactly the instances of the Cartesian product of the value lists of the "
        "parameters used, one per combination (membership iff, length = product of sizes, combinations duplicate-free); "
        "a fixed value `<p=v>` contributes the same text as the free parameter bound to that value and, for value lists "
        "without int-looking strings, is a member of the list; an offset `<p+k>` denotes the value k places from the "
        "current one and the _REMOVE marker when that index is out of range; the removal pass of the graph parser keeps "
        "exactly the unmarked nodes unless the first two nodes are both marked. Three refuted statements are recorded "
        "with witnesses (int-looking string values, a parameter repeated within one name, two leading out-of-range nodes). "
        "The model is tied to param_expand.py / graph_parser.py by differential runs compared inside Coq; an independent "
        "itertools.product reference checks the implementation directly."),
    "level_note": (
        "Hand model on pre-tokenised lines: the regex tokenisation and CPython %-formatting/int() are trusted as modelled "
        "and exercised by the correspondence run. Sets are compared as sets (GraphExpander returns a set; NameExpander's "
        "list may repeat instances when a parameter is repeated in one name). Removal is modelled for operator-separated "
        "node lists without parentheses."),
    "technique": "Coq proof (induction over the parameter list) + in-Coq differential correspondence + brute-force product oracle",
    "design_ref": "5/C34",
}
