"""C04 — scheduler-level check: pool automaton (Model/Pool.v) + real scheduler traces."""
from vp.sched.stream import SchedStream

TRUSTED = ["Model/Pool.v is a hand-written specification automaton over the workflow's instance graph; the instance graph, completion rule and runahead spec are computed by the harness from the generated graph AST independently of cylc. Trusted: Coq kernel+VM; the in-process driver (vp/sched/driver.py: fake process pool, method wrappers recording events); the scenario generator and its reference semantics (vp/sched/scen.py); integer cycling only; no datetime cycling."]
ASSUMES = ["integer cycling; no manual intervention in these scenarios; jobs are simulated by the harness (no real job runs)"]
STREAMS = [SchedStream('C04', name="sched", feat={'abs': True}, extra_oracles=[])]
META = {
    "level_text": 'Coq theorems: the accepted runahead limit equals spec_limit (the (n+1)-th smallest recurrence point >= earliest pool point, capped at the stop point); a task leaves the runahead pool only within the limit unless manual; limit >= base (earliest cycle never blocked), limit lies on a sequence; no task within the limit stays unreleased beyond max_idle ticks. Tie: runs with P0..P4 and 1-2 recurrences accepted by the automaton, which recomputes spec_limit at every compute_runahead call. Future-trigger offsets and duration limits are not modelled (partial).',
    "level_note": "Model/Pool.v is a hand-written specification automaton over the workflow's instance graph; the instance graph, completion rule and runahead spec are computed by the harness from the generated graph AST independently of cylc. Trusted: Coq kernel+VM; the in-process driver (vp/sched/driver.py: fake process pool, method wrappers recording events); the scenario generator and its reference semantics (vp/sched/scen.py); integer cycling only; no datetime cycling.",
    "technique": 'Coq proof about the runahead specification + trace validation of every compute_runahead/release in real runs',
    "design_ref": "5/C04",
}
STREAMS.append(SchedStream('C04', name="sched-future", feat={'future': True, 'abs': True, 'max_fcp': 6}, n_quick=32, n_thorough=600))
