"""Shared helpers of the C14 and C15 streams (graph_parser.py): token/AST
representation, rendering to graph text, Gallina printers, the driver around
the real GraphParser and the canonicaliser of its results.

JSON representation
  node  : {"n": int, "off": int, "q": str|None, "opt": bool}
  token : ["N", node] | "&" | "|" | "(" | ")" | "!" | "=>" | ["ws", k] | ["com", k] | "nl"
  expr  : ["N", node] | ["&", e, e] | ["|", e, e] | ["()", e]      (left-hand expressions)
Names: id i is written "F<i>" when i is a family (key of the family map) and
"t<i>" otherwise; offsets are palette indices (0 = none).
"""
import itertools
import re

from vp import coqfmt as q

OFFS = ["", "[-P1]", "[-P2]", "[+P1]", "[^]", "[-PT6H]"]
WS = [" ", "  ", "\t", " \t ", "   "]
COMS = ["# c", "#", "# a => b", "#x & y | z", "# (", "## !q:fail?", "#=>", "# t1 &"]


# ---------------------------------------------------------------- rendering
def name_text(i, fams):
    return ("F%d" if i in fams else "t%d") % i


def node_text(n, fams):
    return (name_text(n["n"], fams) + OFFS[n["off"]]
            + (":" + n["q"] if n["q"] is not None else "") + ("?" if n["opt"] else ""))


def tok_text(t, fams):
    if isinstance(t, str):
        return "\n" if t == "nl" else t
    if t[0] == "N":
        return node_text(t[1], fams)
    if t[0] == "ws":
        return WS[t[1] % len(WS)]
    if t[0] == "com":
        return COMS[t[1] % len(COMS)]
    raise ValueError(t)


def detok(tokens, fams):
    return "".join(tok_text(t, fams) for t in tokens)


def expr_tokens(e):
    if e[0] == "N":
        return [e]
    if e[0] == "()":
        return ["("] + expr_tokens(e[1]) + [")"]
    return expr_tokens(e[1]) + [e[0]] + expr_tokens(e[2])


def expr_nodes(e):
    if e[0] == "N":
        return [e[1]]
    if e[0] == "()":
        return expr_nodes(e[1])
    return expr_nodes(e[1]) + expr_nodes(e[2])


def mknode(n, off=0, qual=None, opt=False):
    return {"n": n, "off": off, "q": qual, "opt": bool(opt)}


# ---------------------------------------------------------------- Gallina printers
def coq_node(n):
    return "(mkNode %s %s %s %s)" % (q.cnat(n["n"]), q.cnat(n["off"]),
                                     q.copt(n["q"], q.cstr), q.cbool(n["opt"]))


_SIMPLE = {"&": "TAnd", "|": "TOr", "(": "TLp", ")": "TRp", "!": "TBang", "=>": "TArrow", "nl": "TNl"}


def coq_tok(t):
    if isinstance(t, str):
        return _SIMPLE[t]
    if t[0] == "N":
        return "(TN %s)" % coq_node(t[1])
    if t[0] == "ws":
        return "(TWs %s)" % q.cnat(t[1])
    if t[0] == "com":
        return "(TCom %s)" % q.cnat(t[1])
    raise ValueError(t)


def coq_toks(l):
    return q.clist(coq_tok(t) for t in l)


def coq_atom(a):
    return q.ctuple(q.cnat(a[0]), q.cnat(a[1]), q.cstr(a[2]))


def coq_outcome(r):
    """ioutcome term from a canonical implementation result."""
    if r.get("exc") == "GraphParseError":
        return "IErr"
    trigs = q.clist(
        q.cpair(q.cnat(int(k)), q.clist(
            q.ctuple(q.clist(coq_atom(a) for a in t[0]), q.clist(q.cbool(b) for b in t[1]), q.cbool(t[2]))
            for t in v))
        for k, v in sorted(r["trigs"].items(), key=lambda kv: int(kv[0])))
    opt = q.clist(q.cpair(q.cpair(q.cnat(o[0]), q.cstr(o[1])),
                          q.ctuple(*[q.cbool(b) for b in o[2]])) for o in r["opt"])
    return "(IOk (mkIres %s %s %s))" % (q.clist(q.cnat(t) for t in r["tasks"]), trigs, opt)


# ---------------------------------------------------------------- canonicaliser
_ATOM = re.compile(r"^(t|F)(\d+)(\[[^\]]*\])?:([\w\-]+)$")
_NAME = re.compile(r"^(t|F)(\d+)$")


def parse_atom(s):
    m = _ATOM.match(s)
    if not m or (m.group(3) or "") not in OFFS:
        return None
    return [int(m.group(2)), OFFS.index(m.group(3) or ""), m.group(4)]


def truth_table(expr):
    """(sorted atoms, truth table) of a stored trigger expression string, rows
    in itertools.product([False, True]) order over the sorted atoms; or None if
    the string is not an &/|/() expression over NAME[OFF]:OUTPUT atoms."""
    parts = [p for p in re.split(r"([&|()])", expr) if p != ""]
    atoms = []
    for p in parts:
        if p in "&|()":
            continue
        a = parse_atom(p)
        if a is None:
            return None
        if a not in atoms:
            atoms.append(a)
    atoms.sort()
    if len(atoms) > 10:
        return None
    py = "".join(p if p in "&|()" else "v[%d]" % atoms.index(parse_atom(p)) for p in parts)
    try:
        code = compile(py, "<expr>", "eval")
    except SyntaxError:
        return None
    tt = []
    for row in itertools.product([False, True], repeat=len(atoms)):
        try:
            tt.append(bool(eval(code, {"__builtins__": {}}, {"v": row})))  # nosec - generated text
        except Exception:
            return None
    return atoms, tt


def canon(parser):
    """Canonical form of a GraphParser after parse_graph."""
    res = {"tasks": [], "trigs": {}, "opt": [], "garbled": []}
    for name, val in parser.triggers.items():
        m = _NAME.match(name)
        if not m:
            res["garbled"].append("task name %r" % name)
            continue
        tid = int(m.group(2))
        res["tasks"].append(tid)
        lst = []
        for expr, (trigs, suicide) in val.items():
            if expr == "":
                continue
            t = truth_table(expr)
            if t is None:
                res["garbled"].append("expression %r" % expr)
                continue
            atoms, tt = t
            rec = sorted(a for a in (parse_atom(x) for x in set(trigs)) if a is not None)
            if rec != atoms:
                res["garbled"].append("expression %r has atoms other than its trigger list %r" % (expr, trigs))
            if parser.original.get(name, {}).get(expr) is None:
                res["garbled"].append("no original for %r" % expr)
            lst.append([atoms, tt, bool(suicide)])
        lst.sort()
        if lst:
            res["trigs"][str(tid)] = lst
    res["tasks"].sort()
    for (name, out), v in parser.task_output_opt.items():
        m = _NAME.match(name)
        if not m:
            res["garbled"].append("opt name %r" % name)
            continue
        res["opt"].append([int(m.group(2)), out, [bool(x) for x in v]])
    res["opt"].sort()
    if not res["garbled"]:
        del res["garbled"]
    return res


def run_graph(text, fm, fams):
    """Run the real GraphParser; fm: {family id: [member ids]}."""
    from cylc.flow.graph_parser import GraphParser
    from cylc.flow.exceptions import GraphParseError

    calls = []

    class Rec(GraphParser):
        def _proc_dep_pair(self, pair, *a, **k):
            calls.append([pair[0], pair[1]])
            return super()._proc_dep_pair(pair, *a, **k)

    family_map = {name_text(int(f), fams): [name_text(m, fams) for m in ms] for f, ms in fm.items()}
    p = Rec(family_map=family_map)
    try:
        p.parse_graph(text)
    except GraphParseError:
        return {"exc": "GraphParseError", "calls": calls}
    except Exception as e:  # noqa
        return {"exc": "%s: %s" % (type(e).__name__, e), "calls": calls}
    res = canon(p)
    res["calls"] = calls
    return res
