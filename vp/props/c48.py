"""C48 — installed run directories are numbered and runN tracks the latest.

Anchors: cylc/flow/install.py (install_workflow, get_run_dir_info, unlink_runN,
link_runN, detect_flow_exists, check_nested_dirs, reinstall_workflow),
cylc/flow/pathutil.py (get_next_rundir_number), cylc/flow/clean.py (clean's
runN/_cylc-install tidy-up).
"""
import os
import re

from vp.core import Stream
from vp import coqfmt as q

TRUSTED = [
    "hand model Model/Install.v of one workflow directory (numbered runs, runN, named runs, flat run, source link)",
    "the harness runs every operation in one process and clears the 'cylc-install'/'cylc-reinstall' logger handlers "
    "between operations to emulate the separate CLI processes of real use",
    "content stamps (a file the harness writes into the source dirs before each operation) identify which install "
    "last wrote a run dir",
    "rsync and the local filesystem",
]
ASSUMES = [
    "one workflow name without nesting (a/b inside a is the subject of check_nested_dirs, not modelled)",
    "no [install]symlink dirs configured; default [install]max depth",
    "only cylc install / reinstall / clean and the two manual user actions `rm runN`, `rm -rf run<k>` touch the directory",
    "re-use of the number of a *cleaned/removed highest* run is by design and is not a violation",
]

NAMES = {0: "alpha", 1: "beta", 2: "gamma", 100: "runN", 101: "run7", 102: "log", 103: "_cylc-install",
         104: "share", 105: "run01", 106: "flow.cylc"}
NAME_IDX = {v: k for k, v in NAMES.items()}
OUT = {"ok": 0, "named-exist": 1, "numbered-exist": 2, "nested": 3, "exists": 4, "source": 5, "reserved": 6,
       "not-installed": 7, "bad-link": 8}
FLOW = "[scheduling]\n    [[graph]]\n        R1 = a\n[runtime]\n    [[a]]\n"


def _classify_exc(e):
    s = str(e)
    for pat, name in (("contains an installed workflow", "named-exist"),
                      ("--run-name option not allowed", "numbered-exist"),
                      ("Nested run directories", "nested"), ("Nested install directories", "nested"),
                      ("already exists", "exists"), ("previous installations were from", "source"),
                      ("is reserved", "reserved"), ("is not an installed workflow", "not-installed"),
                      ("Invalid symlink at", "bad-link")):
        if pat in s:
            return name
    return f"exc:{type(e).__name__}: {s[:160]}"


def _listing(base, srcs):
    """Canonical listing of the workflow dir."""
    out = {"nums": [], "runN": None, "named": [], "flat": None, "source": None, "extra": []}
    if not os.path.lexists(base):
        return out

    def stamp(d):
        try:
            with open(os.path.join(d, "stamp")) as fh:
                return int(fh.read().strip())
        except (OSError, ValueError):
            return 0
    for e in sorted(os.listdir(base)):
        p = os.path.join(base, e)
        if e == "runN":
            if os.path.islink(p):
                m = re.fullmatch(r"run([1-9]\d*)", os.readlink(p))
                if m:
                    out["runN"] = int(m.group(1))
                    continue
            out["extra"].append(e)
        elif re.fullmatch(r"run[1-9]\d*", e) and os.path.isdir(p) and not os.path.islink(p):
            out["nums"].append([int(e[3:]), stamp(p)])
        elif e == "_cylc-install" and os.path.isdir(p):
            try:
                out["source"] = srcs.index(os.readlink(os.path.join(p, "source")))
            except (OSError, ValueError):
                out["extra"].append(e + "/source?")
        elif e == "flow.cylc" and os.path.isfile(p):
            out["flat"] = stamp(base)
        elif e in ("stamp", "log") and os.path.exists(os.path.join(base, "flow.cylc")):
            pass
        elif e in NAME_IDX and NAME_IDX[e] < 100 and os.path.isdir(p) and not os.path.islink(p):
            out["named"].append([NAME_IDX[e], stamp(p)])
        else:
            out["extra"].append(e)
    out["nums"].sort()
    out["named"].sort()
    return out


class InstallStream(Stream):
    name = "install"
    coq_import = "From Cylc Require Import Model.Install."
    check_fn = "Install.check_case"
    show_fn = "Install.model_out"
    needs_scratch_home = True
    n_hashseeds = 8
    impl_timeout = 1200
    shard_size = 100
    rule = ("generated histories (4-12 operations) of cylc install (numbered / --run-name / --no-run-name, same or "
            "another source), reinstall, clean (run<k>, runN, named, whole workflow) and manual rm of runN / run<k> on "
            "one workflow in a scratch cylc-run; kinds: numbered (install+clean+reinstall only), mixed, named; "
            "non-trivial = history with >= 2 successful numbered installs or a named/flat install; "
            "quick 48 histories, thorough 1200 + all 3-op prefixes over a small alphabet; plus 24 / 600 'populated' histories "
            "that start from a workflow dir created directly with run numbers from {1..12, 20, 99, 100} (two-digit and "
            "three-digit numbers) and runN missing / dangling / pointing to a lower run / correct")

    # ---- generation -----------------------------------------------------
    def _rand_hist(self, rng, kind):
        n = rng.randint(4, 12)
        ops, guess = [], 0      # guess: rough upper bound of run numbers in play
        for _ in range(n):
            r = rng.random()
            hi = max(guess, 1)
            if kind == "numbered":
                if r < 0.55:
                    ops.append(["install", 0]); guess += 1
                elif r < 0.80:
                    ops.append(["clean", ["num", rng.randint(max(1, hi - 2), hi)]])
                elif r < 0.88:
                    ops.append(["clean", ["runN"]])
                else:
                    ops.append(["reinstall", ["num", rng.randint(1, hi)]])
            elif kind == "named":
                if r < 0.45:
                    ops.append(["install_named", rng.choice([0, 1, 2, 0, 1, 100, 101, 102, 103, 104, 105, 106]),
                                0 if rng.random() < 0.85 else 1])
                elif r < 0.60:
                    ops.append(["install", 0]); guess += 1
                elif r < 0.80:
                    ops.append(["clean", ["name", rng.randint(0, 2)]])
                elif r < 0.90:
                    ops.append(["reinstall", ["name", rng.randint(0, 2)]])
                else:
                    ops.append(["install_flat", 0])
            else:
                if r < 0.40:
                    ops.append(["install", 0 if rng.random() < 0.9 else 1]); guess += 1
                elif r < 0.55:
                    ops.append(["clean", ["num", rng.randint(max(1, hi - 2), hi)]])
                elif r < 0.61:
                    ops.append(["clean", ["runN"]])
                elif r < 0.64:
                    ops.append(["clean", ["all"]])
                elif r < 0.70:
                    ops.append(["reinstall", rng.choice([["num", rng.randint(1, hi)], ["all"]])])
                elif r < 0.77:
                    ops.append(["rm_runN"])
                elif r < 0.85:
                    ops.append(["rm_run", rng.randint(max(1, hi - 1), hi)])
                elif r < 0.92:
                    ops.append(["install_named", rng.choice([0, 1, 101, 100]), 0])
                elif r < 0.96:
                    ops.append(["install_flat", 0])
                else:
                    ops.append(["clean", ["name", rng.randint(0, 1)]])
        return {"ops": ops, "kind": kind}

    POP_NUMS = list(range(1, 13)) + [20, 99, 100]

    def _populated(self, rng):
        """history starting from a workflow dir that already holds many numbered runs (created directly, as
        for a user with a long history), with runN missing / dangling / pointing to a lower run / correct"""
        r = rng.random()
        if r < 0.35:
            nums = list(range(1, rng.choice([9, 10, 10, 11, 12]) + 1))
        elif r < 0.55:
            nums = sorted(rng.sample(range(1, 13), rng.randint(2, 8)) + rng.sample([20, 99, 100], rng.randint(0, 2)))
        else:
            nums = sorted(rng.sample(self.POP_NUMS, rng.randint(1, 9)))
        top = max(nums)
        r = rng.random()
        if r < 0.45:
            runN = None
        elif r < 0.60:
            runN = top + rng.choice([1, 1, 5])          # dangling (the latest run was removed by hand)
        elif r < 0.72 and len(nums) > 1:
            runN = rng.choice(nums[:-1])                # tampered: points to a lower run
        else:
            runN = top
        ops, live = [], list(nums)
        for _ in range(rng.randint(2, 6)):
            r = rng.random()
            cand = live + [max(live, default=0) + 1]
            if r < 0.55:
                ops.append(["install", 0])
                live.append(max(live, default=0) + 1)
            elif r < 0.78:
                k = rng.choice(cand[-3:] if rng.random() < 0.6 else cand)
                ops.append(["clean", ["num", k]])
                live = [x for x in live if x != k]
            elif r < 0.85:
                ops.append(["clean", ["runN"]])
            elif r < 0.92:
                k = rng.choice(cand[-2:])
                ops.append(["rm_run", k])
                live = [x for x in live if x != k]
            elif r < 0.96:
                ops.append(["rm_runN"])
            else:
                ops.append(["reinstall", ["num", rng.choice(cand)]])
        if ops[0][0] != "install" and rng.random() < 0.5:
            ops.insert(0, ["install", 0])
        return {"init": {"nums": nums, "runN": runN}, "ops": ops, "kind": "populated"}

    def gen(self, rng, tier):
        n = 48 if tier == "quick" else 1200
        cases = []
        for i in range(n):
            kind = ("numbered", "mixed", "numbered", "mixed", "named")[i % 5]
            cases.append(self._rand_hist(rng, kind))
        for i in range(24 if tier == "quick" else 600):
            cases.append(self._populated(rng))
        if tier == "thorough":
            import itertools
            alpha = [["install", 0], ["clean", ["num", 1]], ["clean", ["num", 2]], ["clean", ["runN"]],
                     ["rm_run", 2], ["rm_runN"], ["install_named", 0, 0]]
            for combo in itertools.product(alpha, repeat=3):
                cases.append({"ops": [["install", 0], ["install", 0]] + [list(o) for o in combo] + [["install", 0]],
                              "kind": "exhaustive3"})
        return cases

    def corpus(self):
        I, C = ["install", 0], lambda k: ["clean", ["num", k]]  # noqa: E731
        return [
            {"ops": [I, I, I, C(3), I, C(1), I, ["reinstall", ["num", 2]]], "kind": "numbered"},
            {"ops": [I, ["install", 1], I, ["clean", ["runN"]], ["rm_run", 2], ["clean", ["runN"]], I], "kind": "mixed"},
            {"ops": [I, I, ["rm_run", 2], I, ["rm_runN"], I, C(1), C(2), C(3), C(3), ["install_named", 0, 0]],
             "kind": "mixed"},
            # seeded regression (seeded/C48 demo): run1..run11, clean the latest, install again -> must be run11,
            # not "run10 already exists" (run numbers compared as strings: run9 > run10)
            {"ops": [I] * 11 + [C(11), I], "kind": "numbered"},
            {"init": {"nums": list(range(1, 11)), "runN": None}, "ops": [I, I, C(12), I], "kind": "populated"},
            {"init": {"nums": [2, 9, 10, 99, 100], "runN": None}, "ops": [I, C(101), ["rm_runN"], I], "kind": "populated"},
            {"init": {"nums": [1, 2, 3, 10], "runN": 3}, "ops": [I, I], "kind": "populated"},
            {"init": {"nums": [1, 2, 10], "runN": 11}, "ops": [I, C(1), I], "kind": "populated"},
            # cylc clean <wf>/runN with a dangling runN is refused (get_symlink_dirs: "Invalid symlink")
            {"ops": [I, ["rm_run", 1], ["clean", ["runN"]], I], "kind": "mixed"},
            {"ops": [["install_named", 0, 0], ["install_named", 0, 0], I, ["install_named", 101, 0],
                     ["install_named", 1, 1], ["reinstall", ["name", 1]], ["clean", ["name", 0]],
                     ["clean", ["name", 1]], ["install_flat", 0], I, ["install_named", 2, 0], ["reinstall", ["all"]],
                     ["clean", ["all"]], I], "kind": "named"},
        ]

    # ---- implementation -------------------------------------------------
    def impl(self, cases):
        import asyncio
        import logging
        import shutil
        from pathlib import Path
        from cylc.flow.clean import init_clean
        from cylc.flow.install import install_workflow
        from cylc.flow.option_parsers import Options
        from cylc.flow.pathutil import get_workflow_run_dir
        from cylc.flow.scripts.clean import CleanOptions
        from cylc.flow.scripts.reinstall import get_option_parser as reinstall_gop, reinstall_cli
        ReinstallOptions = Options(reinstall_gop())
        home = os.environ["HOME"]
        srcs = []
        for i in range(2):
            d = os.path.join(home, "src", f"s{i}")
            os.makedirs(d, exist_ok=True)
            with open(os.path.join(d, "flow.cylc"), "w") as fh:
                fh.write(FLOW)
            srcs.append(os.path.realpath(d))

        def tid(w, t):
            return {"num": lambda: f"{w}/run{t[1]}", "name": lambda: f"{w}/{NAMES[t[1]]}",
                    "runN": lambda: f"{w}/runN", "all": lambda: w}[t[0]]()

        out = []
        for ci, c in enumerate(cases):
            w = f"c48w{ci}"
            base = get_workflow_run_dir(w)
            steps = []
            init = c.get("init")
            if init and (init["nums"] or init["runN"] is not None):
                for k in init["nums"]:
                    os.makedirs(os.path.join(base, f"run{k}"))
                    with open(os.path.join(base, f"run{k}", "flow.cylc"), "w") as fh:
                        fh.write(FLOW)
                os.makedirs(os.path.join(base, "_cylc-install"), exist_ok=True)
                os.symlink(srcs[0], os.path.join(base, "_cylc-install", "source"))
                if init["runN"] is not None:
                    os.symlink(f"run{init['runN']}", os.path.join(base, "runN"))
            for oi, op in enumerate(c["ops"]):
                for ln in ("cylc-install", "cylc-reinstall"):     # new process in real life
                    lg = logging.getLogger(ln)
                    for h in list(lg.handlers):
                        h.close()
                        lg.removeHandler(h)
                for s in srcs:
                    with open(os.path.join(s, "stamp"), "w") as fh:
                        fh.write(str(oi + 1))
                res = "ok"
                try:
                    if op[0] == "install":
                        install_workflow(Path(srcs[op[1]]), w, None, False)
                    elif op[0] == "install_named":
                        install_workflow(Path(srcs[op[2]]), w, NAMES[op[1]], False)
                    elif op[0] == "install_flat":
                        install_workflow(Path(srcs[op[1]]), w, None, True)
                    elif op[0] == "reinstall":
                        t = op[1]
                        if t[0] == "all" and not os.path.isfile(os.path.join(base, "flow.cylc")):
                            res = "not-installed"      # harness guard: only reinstall <wf> when it is a run dir
                        else:
                            asyncio.run(reinstall_cli(ReinstallOptions(), tid(w, t)))
                    elif op[0] == "clean":
                        asyncio.run(init_clean(tid(w, op[1]), CleanOptions()))
                    elif op[0] == "rm_runN":
                        p = os.path.join(base, "runN")
                        if os.path.islink(p):
                            os.unlink(p)
                    elif op[0] == "rm_run":
                        shutil.rmtree(os.path.join(base, f"run{op[1]}"), ignore_errors=True)
                    else:
                        raise ValueError(op)
                except Exception as e:  # noqa
                    res = _classify_exc(e)
                steps.append({"out": res, "listing": _listing(base, srcs)})
            shutil.rmtree(base, ignore_errors=True)
            out.append({"steps": steps})
        return out

    # ---- Gallina printer ------------------------------------------------
    @staticmethod
    def _ctarget(t):
        return {"num": lambda: f"(TNum {q.cN(t[1])})", "name": lambda: f"(TName {q.cnat(t[1])})",
                "runN": lambda: "TRunN", "all": lambda: "TAll"}[t[0]]()

    def _cop(self, op, c):
        k = op[0]
        if k == "install":
            return f"(Install {q.cnat(op[1])} {q.cnat(c)})"
        if k == "install_named":
            return f"(InstallNamed {q.cnat(op[1])} {q.cnat(op[2])} {q.cnat(c)})"
        if k == "install_flat":
            return f"(InstallFlat {q.cnat(op[1])} {q.cnat(c)})"
        if k == "reinstall":
            return f"(Reinstall {self._ctarget(op[1])} {q.cnat(c)})"
        if k == "clean":
            return f"(Clean {self._ctarget(op[1])})"
        if k == "rm_runN":
            return "RmRunN"
        if k == "rm_run":
            return f"(RmRun {q.cN(op[1])})"
        raise ValueError(op)

    def coq_case(self, c, r):
        items = []
        for oi, (op, st) in enumerate(zip(c["ops"], r["steps"])):
            if st["out"] not in OUT or st["listing"]["extra"]:
                return None
            L = st["listing"]
            lst = q.ctuple(
                q.clist(q.cpair(q.cN(k), q.cnat(s)) for k, s in L["nums"]),
                q.copt(L["runN"], q.cN),
                q.clist(q.cpair(q.cnat(j), q.cnat(s)) for j, s in L["named"]),
                q.copt(L["flat"], q.cnat), q.copt(L["source"], q.cnat))
            items.append(q.ctuple(self._cop(op, oi + 1), q.cnat(OUT[st["out"]]), lst))
        init = c.get("init") or {"nums": [], "runN": None}
        ci = q.cpair(q.clist(q.cpair(q.cN(k), q.cnat(0)) for k in init["nums"]), q.copt(init["runN"], q.cN))
        return f"(({ci}, {q.clist(items)}) : Install.case)"

    # ---- oracle ---------------------------------------------------------
    def oracle(self, c, r):
        init = c.get("init") or {"nums": [], "runN": None}
        prev = {"nums": [[k, 0] for k in init["nums"]], "runN": init["runN"], "named": [], "flat": None,
                "source": 0 if init["nums"] else None}
        high = max(init["nums"], default=0)   # highest run number ever created
        removed_top = False  # some operation removed the then-highest numbered run
        manual_rm = init["runN"] is not None and init["runN"] not in init["nums"]   # pre-existing dangling runN
        # the pre-existing runN was pointed by hand at a run that is not the highest: until an install resets it,
        # get_next_rundir_number follows it (refusal "already exists" / a number below the highest are then expected)
        tampered = init["runN"] in init["nums"] and init["runN"] != max(init["nums"])
        for oi, (op, st) in enumerate(zip(c["ops"], r["steps"])):
            L, out = st["listing"], st["out"]
            where = f"step {oi + 1} {op}"
            if out.startswith("exc:"):
                return f"{where}: unexpected exception {out[4:]}"
            if L["extra"]:
                return f"{where}: unexpected entries in the workflow dir: {L['extra']}"
            pn, cn = dict(map(tuple, prev["nums"])), dict(map(tuple, L["nums"]))
            pm, cm = dict(map(tuple, prev["named"])), dict(map(tuple, L["named"]))
            pmax = max(pn, default=0)
            if op[0].startswith("install"):
                # an install never overwrites or removes an existing run directory
                for k, s in pn.items():
                    if cn.get(k) != s:
                        return f"{where}: install changed existing run{k} (stamp {s} -> {cn.get(k)})"
                for j, s in pm.items():
                    if cm.get(j) != s:
                        return f"{where}: install changed existing named run {NAMES[j]}"
                if prev["flat"] is not None and L["flat"] != prev["flat"]:
                    return f"{where}: install changed the existing flat run dir"
                if op[0] == "install" and out == "exists" and not tampered:
                    return f"{where}: numbered install refused with 'already exists': the number chosen was taken"
                new = sorted(set(cn) - set(pn))
                if op[0] != "install" and new:
                    return f"{where}: a non-numbered install created run{new}"
                if len(new) > 1:
                    return f"{where}: one install created several run dirs {new}"
                if out == "ok" and op[0] == "install" and not new:
                    return f"{where}: successful numbered install created no run dir"
                if new:
                    k = new[0]
                    if k <= pmax and not tampered:
                        return f"{where}: new run{k} is not above the existing runs (max run{pmax})"
                    if prev["runN"] is not None and prev["runN"] in pn and k <= prev["runN"]:
                        return f"{where}: new run{k} is not above runN's target run{prev['runN']}"
                    if k <= high and not removed_top and not tampered:
                        return f"{where}: run number {k} re-used although the highest run was never removed"
                    if cn[k] != oi + 1:
                        return f"{where}: new run{k} does not hold this install's content (stamp {cn[k]})"
                    if L["runN"] != k:
                        return f"{where}: runN -> {L['runN']} after installing run{k}"
                    high = max(high, k)
                if out == "ok" and op[0] == "install_named" and cm.get(op[1]) != oi + 1:
                    return f"{where}: named run not created by a successful install"
            else:
                if set(cn) - set(pn):
                    return f"{where}: a non-install operation created run dirs"
                if (op[0] != "rm_runN" and prev["runN"] is not None and prev["runN"] in cn
                        and L["runN"] != prev["runN"]):
                    return (f"{where}: runN (-> run{prev['runN']}, which still exists) was removed or changed "
                            f"by an operation on another run")
            if op[0] == "rm_run":
                manual_rm = True
            if pn and pmax not in cn:
                removed_top = True
            # runN, when present and not dangling, is the highest existing run
            tampered = tampered and L["runN"] is not None and L["runN"] in cn and L["runN"] != max(cn)
            if L["runN"] is not None:
                if L["runN"] in cn:
                    if L["runN"] != max(cn) and not tampered:
                        return f"{where}: runN -> run{L['runN']} but run{max(cn)} exists"
                elif not manual_rm:
                    return f"{where}: runN -> run{L['runN']} dangles although nothing was removed by hand"
            prev = L
        return None

    def key(self, c, r):
        n_ok = sum(1 for op, st in zip(c["ops"], r["steps"]) if st["out"] == "ok" and op[0] == "install")
        other = any(st["out"] == "ok" and op[0] in ("install_named", "install_flat")
                    for op, st in zip(c["ops"], r["steps"]))
        if n_ok < 2 and not other and not (c.get("init") and n_ok >= 1):
            return None
        return super().key({"ops": c["ops"], "init": c.get("init")}, r)

    def classify(self, c, r, failure):
        m = re.match(r"step \d+ \['?(\w+)'?.*?\]: (.*)", failure)
        what = re.sub(r"\d+", "#", m.group(2) if m else failure)[:60]
        return "c48:" + what.replace(" ", "-")

    def shrink(self, c):
        ops = c["ops"]
        for i in range(len(ops) - 1, -1, -1):
            y = {"ops": ops[:i] + ops[i + 1:], "kind": c.get("kind", "mixed")}
            if c.get("init"):
                y["init"] = c["init"]
            yield y
        if c.get("init") and len(c["init"]["nums"]) > 1:
            for k in c["init"]["nums"]:
                yield dict(c, init={"nums": [x for x in c["init"]["nums"] if x != k], "runN": c["init"]["runN"]})


STREAMS = [InstallStream()]

META = {
    "level_text": (
        "Coq theorems over Model/Install.v (one workflow dir: numbered runs with content stamps, runN, named runs, flat run, "
        "source link) for ALL states/histories: the number chosen by a numbered install does not exist, exceeds every existing "
        "run number and runN's target (invariant: a non-dangling runN points at the highest run, preserved by every "
        "operation incl. manual rm); after an install that creates run K, runN -> K and K is the highest; no install ever "
        "changes or removes an existing run dir (any state, no invariant needed); in histories that never remove the "
        "currently highest run the created numbers are strictly increasing (no number re-used). The model is tied to "
        "install.py/pathutil.py/clean.py by running generated install/reinstall/clean/rm histories through the real "
        "functions on a scratch cylc-run and comparing outcome + directory listing after every step inside Coq; an "
        "independent oracle checks the same properties on the observed listings."),
    "level_note": (
        "full proofs about the hand model; partial w.r.t. the code in that nesting of workflow names, symlink-dir "
        "configuration and rsync are outside the model (trusted/assumed). Documented readings, not violations: a cleaned "
        "highest number is re-used; cleaning the latest run removes runN rather than re-pointing it; an install from a "
        "different source fails only after having created the new run dir."),
    "technique": "Coq proof (state invariants + induction over histories) + in-Coq differential correspondence on a real "
                 "scratch filesystem + listing oracle",
    "design_ref": "5/C48",
}
