"""C11 — completion: tasks are retained exactly when incomplete; semantics of the
default completion expression (cylc/flow/task_outputs.py, task_pool.py)."""
import itertools
import json

from vp.core import Stream
from vp import coqfmt as q
from vp.props import bx_common as bx

TRUSTED = [
    "hand model Model/Completion.v of get_completion_expression / TaskOutputs.is_complete / "
    "TaskPool.remove_if_complete (outputs numbered by the harness)",
    "Model/BExpr.v evalo = CPython's evaluation of and/or over bool variables (validated by the truth tables)",
    "harness: user expressions are printed to Python text by vp/props/bx_common.to_py",
]
ASSUMES = [
    "distinct outputs have distinct completion variables (no `a-b` next to `a_b`)",
    "the six standard outputs are registered in tdef.outputs (TaskDef._add_std_outputs)",
    "remove_if_complete is driven with a stand-in pool object (remove() recorded); pool membership "
    "in a running scheduler is covered by the scheduler-level properties",
]

FLAGS = [None, True, False]   # tdef.outputs[o][1]: None unset / True required / False optional


def rule(std, custom, s):
    """The documented rule (property text + get_completion_expression docstring),
    written directly; s = set of completed output ids."""
    flags = list(std) + list(custom)
    req = [i for i, f in enumerate(flags) if f is True]
    fail_tol = std[bx.SUCCEEDED] is False or std[bx.FAILED] is False
    sub_tol = std[bx.SUBMITTED] is False or std[bx.SUBMIT_FAILED] is False
    exp_tol = std[bx.EXPIRED] is False
    ways = []
    if fail_tol:
        ways.append((all(i in s for i in req) and bx.SUCCEEDED in s) or bx.FAILED in s)
    elif req:
        ways.append(all(i in s for i in req))
    if sub_tol:
        ways.append(bx.SUBMIT_FAILED in s)
    if exp_tol:
        ways.append(bx.EXPIRED in s)
    if not ways:   # blank expression: any final output
        return any(i in s for i in (bx.SUCCEEDED, bx.FAILED, bx.SUBMIT_FAILED, bx.EXPIRED))
    return any(ways)


def _atoms(c):
    return list(range(6 + len(c["custom"])))


def _expected_table(c):
    atoms = _atoms(c)
    out = []
    for s in bx.subsets(atoms):
        if c.get("user") is not None:
            v = bx.ev_opt(c["user"], {a: (a in s) for a in atoms})
        else:
            v = rule(c["std"], c["custom"], set(s))
        out.append("N" if v is None else ("1" if v else "0"))
    return "".join(out)


def _rand_flags(rng, n):
    return [rng.choice(FLAGS) for _ in range(n)]


class ExprStream(Stream):
    name = "expr"
    coq_import = "From Cylc Require Import Model.BExpr Model.Completion."
    check_fn = "Completion.check_case"
    show_fn = "Completion.model_out"
    rule = ("real TaskDef + TaskOutputs: required/optional/unset flag for each of the six standard outputs "
            "x 0-2 custom outputs, is_complete() evaluated for every subset of completed outputs and compared "
            "as a truth table with the model, the documented rule and (user expressions) a reference evaluator; "
            "thorough = all 3^6 assignments x all 13 custom-flag combinations; non-trivial = some flag set or user expression")
    shard_size = 150
    n_hashseeds = 8

    def corpus(self):
        return [
            {"std": [None] * 6, "custom": [], "user": None, "kind": "blank"},
            {"std": [None, None, None, None, True, None], "custom": [], "user": None, "kind": "default"},
            {"std": [False, False, None, None, False, None], "custom": [True, False], "user": None, "kind": "default"},
            {"std": [None, None, None, None, None, True], "custom": [True], "user": None, "kind": "default"},
            {"std": [None, None, None, None, True, None], "custom": [None],
             "user": ["or", ["and", ["v", 4], ["v", 6]], ["v", 5]], "kind": "user"},
            {"std": [None, None, None, None, True, None], "custom": [],
             "user": ["or", ["v", 4], ["v", 20]], "kind": "user-unregistered"},
        ]

    def gen(self, rng, tier):
        cases = []
        if tier == "thorough":
            customs = [[]] + [[a] for a in FLAGS] + [[a, b] for a in FLAGS for b in FLAGS]
            for std in itertools.product(FLAGS, repeat=6):
                for cu in customs:
                    cases.append({"std": list(std), "custom": list(cu), "user": None, "kind": "default"})
            n_user = 1500
        else:
            # every assignment of the three flags to succeeded/failed/submit-failed/expired with
            # no custom output would be 81; sample across the whole box instead
            for _ in range(110):
                cases.append({"std": _rand_flags(rng, 6), "custom": _rand_flags(rng, rng.randint(0, 2)),
                              "user": None, "kind": "default"})
            # the realistic corner: only succeeded/failed/custom flags set
            for _ in range(30):
                std = [None] * 6
                std[bx.SUCCEEDED] = rng.choice(FLAGS)
                std[bx.FAILED] = rng.choice(FLAGS)
                cases.append({"std": std, "custom": _rand_flags(rng, rng.randint(0, 2)),
                              "user": None, "kind": "default"})
            n_user = 60
        for _ in range(n_user):
            ncu = rng.randint(0, 2)
            atoms = list(range(6 + ncu))
            kind = "user"
            if rng.random() < 0.15:
                atoms = atoms + [20]
                kind = "user-unregistered"
            cases.append({"std": _rand_flags(rng, 6), "custom": _rand_flags(rng, ncu),
                          "user": bx.rand_expr(rng, atoms, rng.randint(1, 6)), "kind": kind,
                          "style": rng.randrange(1 << 30)})
        return cases

    def impl(self, cases):
        import random
        from cylc.flow.task_outputs import TaskOutputs, get_completion_expression
        out = []
        for c in cases:
            try:
                text = None
                if c.get("user") is not None:
                    text = bx.to_py(c["user"], random.Random(c["style"]) if "style" in c else None)
                tdef = bx.build_tdef(c["std"], c["custom"], text)
                expr = get_completion_expression(tdef)
                table = []
                for s in bx.subsets(_atoms(c)):
                    o = TaskOutputs(tdef)
                    for i in s:
                        if o.set_message_complete(bx.msg(i)) is not True:
                            raise RuntimeError("set_message_complete did not return True")
                    try:
                        v = o.is_complete()
                        table.append("1" if v is True else "0" if v is False else "?")
                    except NameError:
                        table.append("N")
                out.append({"expr": expr, "table": "".join(table)})
            except Exception as e:  # noqa
                out.append({"exc": f"{type(e).__name__}: {e}"[:300]})
        return out

    def coq_case(self, c, r):
        if "exc" in r or "?" in r["table"]:
            return None
        tab = q.clist({"1": "Some true", "0": "Some false", "N": "None"}[ch] for ch in r["table"])
        return q.crecord(
            c_tdef=bx.coq_tdef(c["std"], c["custom"]),
            c_user=q.copt(c.get("user"), bx.to_coq),
            c_atoms=q.clist(q.cnat(a) for a in _atoms(c)),
            c_impl_blank=q.cbool(r["expr"] == ""),
            c_impl_table=tab)

    def oracle(self, c, r):
        if "exc" in r:
            return "unexpected exception: " + r["exc"]
        exp = _expected_table(c)
        if r["table"] != exp:
            atoms = _atoms(c)
            i = next(k for k, (a, b) in enumerate(zip(r["table"], exp)) if a != b)
            s = bx.subsets(atoms)[i]
            return (f"completion expression {r['expr']!r}: with completed outputs "
                    f"{[bx.trig(a) for a in s]} is_complete() gave {r['table'][i]} but the rule gives {exp[i]}")
        return None

    def key(self, c, r):
        if c.get("user") is None and all(f is None for f in c["std"] + c["custom"]):
            return None
        return json.dumps([c["std"], c["custom"], c.get("user")])

    def classify(self, c, r, failure):
        if c.get("user") is not None:
            return "expr:user"
        std = c["std"]
        return "expr:default:" + ",".join([
            "failtol" if (std[4] is False or std[5] is False) else "nofailtol",
            "subtol" if (std[1] is False or std[2] is False) else "nosubtol",
            "exptol" if std[0] is False else "noexptol",
            "req" if any(f is True for f in std + c["custom"]) else "noreq"])

    def shrink(self, c):
        for i, f in enumerate(c["std"]):
            if f is not None:
                s = list(c["std"]); s[i] = None
                yield dict(c, std=s)
        if c["custom"] and (c.get("user") is None or max(bx.bvars(c["user"])) < 6 + len(c["custom"]) - 1):
            yield dict(c, custom=c["custom"][:-1])
        for j, f in enumerate(c["custom"]):
            if f is not None:
                s = list(c["custom"]); s[j] = None
                yield dict(c, custom=s)
        if c.get("user") is not None:
            for e in bx.sub_exprs(c["user"]):
                yield dict(c, user=e)


STATUSES = ["waiting", "expired", "preparing", "submit-failed", "submitted", "running", "failed", "succeeded"]
FINAL = {"expired", "submit-failed", "failed", "succeeded"}
OUT_ARGS = [None, "succeeded", "failed", "submit-failed", "expired", "started", "submitted", "msg x"]


class RetainStream(Stream):
    name = "retain"
    coq_import = "From Cylc Require Import Model.BExpr Model.Completion."
    check_fn = "Completion.rcheck_case"
    show_fn = "Completion.rmodel_out"
    rule = ("real TaskPool.remove_if_complete on a real TaskState (every status, back-compat on/off, every kind of "
            "`output` argument, random completed sets) with a stand-in pool recording remove() and a log handler; "
            "non-trivial = final status, not back-compat")
    n_hashseeds = 4

    def corpus(self):
        base = {"std": [None, None, None, None, True, None], "custom": [True], "user": None}
        return [
            dict(base, done=[1, 3, 4], status=7, compat=False, output="succeeded", kind="incomplete"),
            dict(base, done=[1, 3, 4, 6], status=7, compat=False, output="succeeded", kind="complete"),
            dict(base, done=[1, 3, 5], status=6, compat=True, output="failed", kind="compat"),
            dict(base, done=[1, 3, 4, 6], status=5, compat=False, output="msg x", kind="not-final"),
        ]

    def gen(self, rng, tier):
        n = 250 if tier == "quick" else 6000
        cases = []
        for _ in range(n):
            ncu = rng.randint(0, 2)
            atoms = list(range(6 + ncu))
            user = bx.rand_expr(rng, atoms, rng.randint(1, 5)) if rng.random() < 0.3 else None
            status = rng.choice([1, 3, 6, 7]) if rng.random() < 0.75 else rng.randrange(8)
            # mostly plausible completed sets for the status, sometimes arbitrary
            done = [a for a in atoms if rng.random() < 0.5]
            if rng.random() < 0.6:
                base = {7: [1, 3, 4], 6: [1, 3, 5], 3: [2], 1: [0]}.get(status, [])
                done = sorted(set(base) | {a for a in atoms if a >= 6 and rng.random() < 0.6})
            cases.append({"std": _rand_flags(rng, 6), "custom": _rand_flags(rng, ncu), "user": user,
                          "done": done, "status": status, "compat": rng.random() < 0.15,
                          "output": rng.choice(OUT_ARGS), "kind": "final" if STATUSES[status] in FINAL else "not-final"})
        return cases

    def impl(self, cases):
        import logging
        from types import SimpleNamespace
        import cylc.flow.flags
        from cylc.flow import LOG
        from cylc.flow.cycling.integer import IntegerPoint
        from cylc.flow.task_pool import TaskPool
        from cylc.flow.task_state import TaskState

        recs = []

        class H(logging.Handler):
            def emit(self, rec):
                recs.append((rec.levelno, rec.getMessage()))
        h = H()
        LOG.addHandler(h)

        class FakePool:
            stop_task_id = None
            stop_task_finished = False

            def __init__(self):
                self.removed = []

            def remove(self, itask, *a, **k):
                self.removed.append(itask)

        out = []
        for c in cases:
            try:
                text = bx.to_py(c["user"]) if c.get("user") is not None else None
                tdef = bx.build_tdef(c["std"], c["custom"], text)
                state = TaskState(tdef, IntegerPoint("1"), STATUSES[c["status"]], False)
                for i in c["done"]:
                    state.outputs.set_message_complete(bx.msg(i))
                itask = SimpleNamespace(state=state, identity="1/a")
                pool = FakePool()
                del recs[:]
                cylc.flow.flags.cylc7_back_compat = bool(c["compat"])
                try:
                    ret = TaskPool.remove_if_complete(pool, itask, c["output"])
                finally:
                    cylc.flow.flags.cylc7_back_compat = False
                out.append({
                    "ret": ret, "removed": len(pool.removed),
                    "logged": sum(1 for lv, m in recs
                                  if lv >= logging.WARNING and "did not complete the required outputs" in m)})
            except NameError:
                out.append({"nameerror": True})
            except Exception as e:  # noqa
                out.append({"exc": f"{type(e).__name__}: {e}"[:300]})
        LOG.removeHandler(h)
        return out

    @staticmethod
    def _res(r):
        if "nameerror" in r:
            return "NameErr"
        if r["ret"] is True and r["removed"] == 1 and r["logged"] == 0:
            return "Removed"
        if r["ret"] is False and r["removed"] == 0 and r["logged"] in (0, 1):
            return f"(Retained {q.cbool(r['logged'] == 1)})"
        return None

    def coq_case(self, c, r):
        if "exc" in r or self._res(r) is None:
            return None
        return q.crecord(
            r_tdef=bx.coq_tdef(c["std"], c["custom"]),
            r_user=q.copt(c.get("user"), bx.to_coq),
            r_done=q.clist(q.cnat(a) for a in c["done"]),
            r_status=q.cnat(c["status"]),
            r_compat=q.cbool(c["compat"]),
            r_out_final=q.cbool(c["output"] in FINAL),
            r_impl=self._res(r))

    def oracle(self, c, r):
        if "exc" in r:
            return "unexpected exception: " + r["exc"]
        if "nameerror" in r:
            return "NameError from a completion expression over registered outputs"
        if self._res(r) is None:
            return f"inconsistent outcome of remove_if_complete: {r}"
        final = STATUSES[c["status"]] in FINAL
        if not final:
            return None if (r["removed"] == 0 and r["logged"] == 0) else "a task that is not finished was removed or logged as incomplete"
        if c["compat"]:
            return None     # Cylc 7 compatibility mode is outside the property text
        s = set(c["done"])
        atoms = _atoms(c)
        if c.get("user") is not None:
            complete = bx.ev(c["user"], {a: a in s for a in atoms})
        else:
            complete = rule(c["std"], c["custom"], s)
        if complete and r["removed"] != 1:
            return "finished task with a true completion expression was retained"
        if not complete and r["removed"] != 0:
            return "finished task with a false completion expression was removed"
        if not complete and c["output"] in FINAL and r["logged"] != 1:
            return "incomplete finished task retained without the 'did not complete the required outputs' warning"
        return None

    def key(self, c, r):
        if STATUSES[c["status"]] not in FINAL or c["compat"]:
            return None
        return json.dumps([c["std"], c["custom"], c.get("user"), c["done"], c["status"], c["output"]])

    def classify(self, c, r, failure):
        return "retain:" + ("user" if c.get("user") is not None else "default") + ":" + STATUSES[c["status"]]

    def shrink(self, c):
        for i in range(len(c["done"])):
            yield dict(c, done=c["done"][:i] + c["done"][i + 1:])
        for i, f in enumerate(c["std"]):
            if f is not None:
                s = list(c["std"]); s[i] = None
                yield dict(c, std=s)
        if c.get("user") is not None:
            for e in bx.sub_exprs(c["user"]):
                yield dict(c, user=e)


STREAMS = [ExprStream(), RetainStream()]

META = {
    "level_text": (
        "Coq theorems over Model/Completion.v for every task definition (any required/optional/unset flags on the six "
        "standard outputs and any list of custom outputs) and every set of completed outputs: the default completion "
        "expression evaluates exactly to the documented rule (explicit spec function), never references an unregistered "
        "output, failure/submit-failure/expiry are tolerated only when the corresponding outputs are optional, and "
        "remove_if_complete removes a finished task iff is_complete (retains and logs otherwise). The model is tied to "
        "task_outputs.py/task_pool.py by truth-table comparison inside Coq (all 3^6 x 13 flag assignments in thorough) "
        "and the rule is also checked directly on the implementation."),
    "level_note": (
        "hand model; user expressions reach the model as trees parsed/printed by the harness; remove_if_complete is run on "
        "a stand-in pool (real TaskState/TaskOutputs); Cylc 7 back-compat branch modelled but outside the property"),
    "technique": "Coq proof (structural induction over the required-output list) + in-Coq truth-table correspondence + rule oracle",
    "design_ref": "5/C11",
}

# scheduler-level stream: the pool automaton (Model/Pool.v) accepts every real run; see Props/C11.v (pool theorems)
from vp.sched.stream import SchedStream  # noqa: E402
# a task started with `cylc set --flow=2 --wait`: it does not spawn children, but must still leave the pool
# when it finishes complete (and be retained when incomplete)
_FLOW_WAIT = {'icp': 1, 'fcp': 1, 'tasks': ['a', 'b', 'c', 'd'], 'sections': [{'rec': 'R1', 'lines': [{'lhs': None, 'rhs': 'a'}, {'lhs': None, 'rhs': 'b'}, {'lhs': None, 'rhs': 'c'}, {'lhs': None, 'rhs': 'd'}, {'lhs': {'task': 'a', 'off': 0, 'out': 'succeeded'}, 'rhs': 'b'}, {'lhs': {'task': 'b', 'off': 0, 'out': 'succeeded'}, 'rhs': 'c'}, {'lhs': {'task': 'b', 'off': 0, 'out': 'x'}, 'rhs': 'd'}]}], 'customs': {'b': ['x']}, 'opt': [['a', 'succeeded', False], ['b', 'succeeded', False], ['b', 'x', False], ['c', 'succeeded', False], ['d', 'succeeded', False]], 'runahead': 1, 'queues': {}, 'seed': 3, 'fail_rate': 0, 'custom_rate': 1.0, 'disorder': 0, 'slow': {'a': 6}, 'ops': [{'tick': 1, 'cmd': 'set', 'args': {'tasks': ['1/b'], 'flow': ['2'], 'flow_wait': True, 'outputs': None, 'prerequisites': ['all']}}]}
STREAMS.append(SchedStream('C11', name="sched-completion", feat={'abs': True, 'retries': True}, n_quick=28, n_thorough=500, corpus=[_FLOW_WAIT]))
META["level_text"] += (" Scheduler level: every real run of generated workflows must be accepted by the pool automaton "
                       "(Model/Pool.v): a task is removed as completed only when finished with its completion expression "
                       "(derived by the harness from the documented rule) true, and no finished complete task is still "
                       "pooled at the end of an iteration (c11_pool_* theorems).")
