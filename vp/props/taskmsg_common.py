"""Shared by C09 / C10 / C02: the task-level message-processing stream.

An isolated real TaskProxy is driven through the real
TaskEventsManager.process_message, TaskJobManager.prep_submit_task_jobs and
TaskJobManager._submit_task_job_callback (stub managers, no scheduler), on
generated op sequences; after every op the status, submit number, completed
outputs, retry timers and effects (spawn requests, poll request, retry
scheduled) are recorded and compared inside Coq with Model/TaskMsg.v.

Case format (JSON):
  {"n": exec retry delays, "m": submission retry delays, "k": custom outputs,
   "ops": [op, ...], "kind": ...}
  op = ["prep"]                       job preparation (only applied by the harness
                                      when the task is waiting/preparing, as the
                                      scheduler's release logic guarantees)
     | ["msg", text, flag, rel]       process_message(text, flag, submit_num=current+rel)
     | ["subres", ok]                 the jobs-submit callback (internal
                                      'submitted' / 'submission failed')
  flag in {"received", "polled", "internal"}
"""
import itertools
import json

from vp.core import Stream
from vp import coqfmt as q

NMAX = 2          # retry delays 0..NMAX x 0..NMAX
KMAX = 2          # custom outputs 0..KMAX

STATUSES = ["waiting", "expired", "preparing", "submit-failed", "submitted",
            "running", "failed", "succeeded"]
RANK = {s: i for i, s in enumerate(STATUSES)}
STATUS_COQ = {"waiting": "Waiting", "expired": "Expired", "preparing": "Preparing",
              "submit-failed": "SubmitFailed", "submitted": "Submitted",
              "running": "Running", "failed": "Failed", "succeeded": "Succeeded"}
STD_OUT_COQ = {"expired": "OExpired", "submitted": "OSubmitted",
               "submit-failed": "OSubmitFailed", "started": "OStarted",
               "succeeded": "OSucceeded", "failed": "OFailed"}
FLAGS = {"received": "Received", "polled": "Polled", "internal": "Internal"}

# message texts -> model message.  Several texts map to the same model message
# on purpose (failed/ERR, aborted/...: the code strips the signal; the literal
# "submit-failed" and a trigger name are *not* messages of any output).
FAILED_TEXTS = ("failed", "failed/ERR", "failed/EXIT", "aborted/oops")
OTHER_TEXTS = ("hello world", "submit-failed", "x0", "finished")


def custom_msg(j):
    return f"out {j} done"


def msg_kind(text):
    """('std', name) | ('failed',) | ('subfail',) | ('custom', j) | ('other',)"""
    if text in ("submitted", "started", "succeeded", "expired"):
        return ("std", text)
    if text in FAILED_TEXTS:
        return ("failed",)
    if text == "submission failed":
        return ("subfail",)
    if text.startswith("out ") and text.endswith(" done"):
        return ("custom", int(text.split()[1]))
    return ("other",)


def msg_coq(text):
    k = msg_kind(text)
    if k[0] == "std":
        return {"submitted": "MSubmitted", "started": "MStarted",
                "succeeded": "MSucceeded", "expired": "MExpired"}[k[1]]
    if k[0] == "failed":
        return "MFailed"
    if k[0] == "subfail":
        return "MSubFail"
    if k[0] == "custom":
        return f"(MCustom {q.cnat(k[1])})"
    return "MOther"


def out_coq(name):
    if name in STD_OUT_COQ:
        return STD_OUT_COQ[name]
    assert name.startswith("c"), name
    return f"(OCustom {q.cnat(int(name[1:]))})"


def op_coq(op):
    if op[0] == "prep":
        return "OpPrep"
    if op[0] == "subres":
        return f"(OpSubRes {q.cbool(op[1])})"
    _, text, flag, rel = op
    return f"(OpMsg {msg_coq(text)} {FLAGS[flag]} {q.cz(rel)})"


def eff_coq(e):
    if e[0] == "spawn":
        return f"(ESpawn {out_coq(e[1])})"
    if e[0] == "poll":
        return "EPoll"
    if e[0] == "retry":
        return f"(ERetry {q.cbool(e[1] == 'submit')})"
    raise ValueError(e)


def timer_coq(t):
    return q.copt(t, lambda x: q.cpair(q.cnat(x[0]), q.cnat(x[1])))


def obs_coq(o):
    return q.crecord(
        o_st=STATUS_COQ[o["st"]], o_sn=q.cnat(o["sn"]),
        o_outs=q.clist(out_coq(x) for x in o["outs"]),
        o_exec=timer_coq(o["exec"]), o_sub=timer_coq(o["sub"]),
        o_eff=q.clist(eff_coq(e) for e in o["eff"]))


# --------------------------------------------------------------------------
# implementation driver
# --------------------------------------------------------------------------
_FIX = {}


def _fixture():
    """One WorkflowConfig with a task per (n, m, k) combination (parsed once per
    subprocess), a real TaskEventsManager and TaskJobManager on stub managers."""
    if _FIX:
        return _FIX
    import os
    from pathlib import Path
    from unittest.mock import MagicMock, Mock
    from cylc.flow.config import WorkflowConfig
    from cylc.flow.scheduler_cli import RunOptions
    from cylc.flow.task_events_mgr import TaskEventsManager
    from cylc.flow.task_job_mgr import TaskJobManager

    home = Path(os.environ["HOME"])
    wdir = home / "cylc-run" / "vp-taskmsg"
    wdir.mkdir(parents=True, exist_ok=True)
    names, runtime = [], []
    for n in range(NMAX + 1):
        for m in range(NMAX + 1):
            for k in range(KMAX + 1):
                name = f"t{n}{m}{k}"
                names.append(name)
                body = [f"    [[{name}]]", "        script = true"]
                if n:
                    body.append(f"        execution retry delays = {n}*PT0S")
                if m:
                    body.append(f"        submission retry delays = {m}*PT0S")
                if k:
                    body.append("        [[[outputs]]]")
                    for j in range(k):
                        body.append(f"            x{j} = {custom_msg(j)}")
                runtime.append("\n".join(body))
    graph = "\n".join(f"            {nm}? & {nm}:submit-fail? => z" for nm in names)
    (wdir / "flow.cylc").write_text(
        "[scheduling]\n    [[graph]]\n        R1 = \"\"\"\n" + graph + "\n        \"\"\"\n"
        "[runtime]\n    [[z]]\n" + "\n".join(runtime) + "\n")
    cfg = WorkflowConfig("vp-taskmsg", str(wdir / "flow.cylc"), RunOptions())

    rec = {"eff": []}
    bm = Mock(get_broadcast=lambda x: {},
              get_updated_rtconfig=lambda itask: itask.tdef.rtconfig)
    tem = TaskEventsManager("vp-taskmsg", MagicMock(), MagicMock(), bm, MagicMock(),
                            MagicMock(), False, set(), lambda: None)
    tem.workflow_cfg = cfg.cfg
    tem.uuid_str = "uuid"
    tem.spawn_func = lambda itask, output: rec["eff"].append(("spawn", output))
    real_retry = tem._retry_task

    def retry(itask, wallclock_time, submit_retry=False):
        rec["eff"].append(("retry", "submit" if submit_retry else "exec"))
        return real_retry(itask, wallclock_time, submit_retry)
    tem._retry_task = retry
    tjm = TaskJobManager("vp-taskmsg", MagicMock(), MagicMock(), tem, MagicMock(), set(), None)
    tjm.job_file_writer.write = lambda *a, **k: None     # the job file is not under test
    tjm._create_job_log_path = lambda itask: None
    _FIX.update(cfg=cfg, tem=tem, tjm=tjm, rec=rec)
    return _FIX


def _observe(itask, eff):
    msg2name = {}
    for trig, msg, _ in itask.state.outputs:
        msg2name[msg] = trig if trig in STD_OUT_COQ else "c" + trig[1:]
    done = [msg2name[m] for m, c in itask.state.outputs._completed.items() if c]
    order = list(STD_OUT_COQ) + [f"c{j}" for j in range(KMAX + 1)]
    done.sort(key=order.index)
    timers = {}
    for key, nm in (("execution-retry", "exec"), ("submission-retry", "sub")):
        t = itask.try_timers.get(key)
        timers[nm] = None if t is None else [len(t.delays), t.num]
    effs = []
    for e in eff:
        if e[0] == "spawn":
            effs.append(["spawn", msg2name.get(e[1], e[1])])
        else:
            effs.append(list(e))
    return {"st": itask.state.status, "sn": itask.submit_num, "outs": done,
            "exec": timers["exec"], "sub": timers["sub"], "eff": effs}


def new_task(case):
    """(fixture, tdef, fresh real TaskProxy) for a case's (n, m, k)"""
    import logging
    from cylc.flow import LOG
    from cylc.flow.cycling.loader import get_point
    from cylc.flow.id import Tokens
    from cylc.flow.run_modes import RunMode
    from cylc.flow.task_proxy import TaskProxy

    fx = _fixture()
    LOG.setLevel(logging.CRITICAL + 1)
    tdef = fx["cfg"].taskdefs[f"t{case['n']}{case['m']}{case['k']}"]
    itask = TaskProxy(Tokens("~u/vp-taskmsg"), tdef, get_point("1"))
    itask.run_mode = RunMode.LIVE
    return fx, tdef, itask


def apply_op(fx, tdef, itask, op):
    """apply one op to the real task; effects are collected in fx['rec']['eff']"""
    from cylc.flow.subprocctx import SubProcContext
    tem, tjm, rec = fx["tem"], fx["tjm"], fx["rec"]
    if op[0] == "prep":
        if itask.state.status in ("waiting", "preparing"):
            tjm.prep_submit_task_jobs([itask], check_syntax=False)
            # as submit_livelike_task_jobs does once the job file is used
            itask.local_job_file_path = None
            itask.waiting_on_job_prep = False
    elif op[0] == "subres":
        ctx = SubProcContext("jobs-submit", ["x"])
        ctx.ret_code = 0
        job = f"1/{tdef.name}/{itask.submit_num:02d}"
        line = (f"2020-01-01T00:00:00Z|{job}|0|1234" if op[1]
                else f"2020-01-01T00:00:00Z|{job}|1|None")
        tjm._submit_task_job_callback(itask, ctx, line)
    else:
        _, text, flag, rel = op
        fl = {"received": tem.FLAG_RECEIVED, "polled": tem.FLAG_POLLED,
              "internal": tem.FLAG_INTERNAL}[flag]
        sn = itask.submit_num + rel
        ret = tem.process_message(itask, "INFO", text, "2020-01-01T00:00:00Z", fl, sn)
        if ret:
            rec["eff"].append(("poll",))


def run_case(case):
    fx, tdef, itask = new_task(case)
    rec = fx["rec"]
    trace = []
    for op in case["ops"]:
        rec["eff"] = []
        apply_op(fx, tdef, itask, op)
        trace.append(_observe(itask, rec["eff"]))
    return {"trace": trace}


def impl_cases(cases):
    out = []
    for c in cases:
        try:
            out.append(run_case(c))
        except Exception as e:  # noqa
            import traceback
            out.append({"exc": f"{type(e).__name__}: {e}",
                        "tb": traceback.format_exc()[-1500:]})
    return out


# --------------------------------------------------------------------------
# generators
# --------------------------------------------------------------------------
MSG_TEXTS = ["submitted", "started", "succeeded", "failed", "submission failed",
             "expired", "custom", "other"]


def _text(rng, sym, k):
    if sym == "failed":
        return rng.choice(FAILED_TEXTS) if rng.random() < 0.4 else "failed"
    if sym == "custom":
        # mostly registered outputs, sometimes an unregistered number
        return custom_msg(rng.randrange(0, max(1, k) + (1 if rng.random() < 0.2 else 0)))
    if sym == "other":
        return rng.choice(OTHER_TEXTS)
    return sym


def gen_random(rng, maxlen=10):
    n, m, k = rng.randint(0, NMAX), rng.randint(0, NMAX), rng.randint(0, KMAX)
    ops = []
    for _ in range(rng.randint(1, maxlen)):
        r = rng.random()
        if r < 0.17:
            ops.append(["prep"])
        elif r < 0.27:
            ops.append(["subres", rng.random() < 0.6])
        else:
            sym = rng.choice(MSG_TEXTS + ["started", "failed", "succeeded", "submission failed"])
            flag = rng.choices(["received", "polled", "internal"], [5, 3, 2])[0]
            rel = rng.choices([0, -1, 1], [7, 2, 1])[0]
            ops.append(["msg", _text(rng, sym, k), flag, rel])
    return {"n": n, "m": m, "k": k, "ops": ops, "kind": "random"}


def gen_story(rng, anomaly=None):
    """A job-consistent history: per submission the job has a true trajectory
    (submit result, started, custom outputs, outcome); its messages are delivered
    received and/or as poll results, duplicated, mildly reordered, some lost,
    mixed with stale messages of the previous submission.  anomaly:
    'latepoll' adds a poll result 'started' delivered after the outcome;
    'sfstart' adds a failed submit-command result after the job's 'started'."""
    n, m, k = rng.randint(0, NMAX), rng.randint(0, NMAX), rng.randint(0, KMAX)
    ops = []
    e = s = 0
    for attempt in range((n + 1) * (m + 1) + 1):
        ops.append(["prep"])
        if rng.random() < 0.15:
            ops.append(["prep"])           # still preparing: sent to job prep again
        seg = []
        truth = rng.choices(["subfail", "succeeded", "failed", "unfinished"], [3, 3, 4, 1])[0]
        if truth == "subfail":
            seg.append(["subres", False] if rng.random() < 0.7
                       else ["msg", "submission failed", "polled", 0])
            if rng.random() < 0.2:
                seg.append(["msg", "submission failed", "polled", 0])
        else:
            ev = []
            if rng.random() < 0.85:
                ev.append(["subres", True] if rng.random() < 0.7 else ["msg", "submitted", "polled", 0])
            for sym in ["started"] + [f"c{j}" for j in range(k) if rng.random() < 0.6]:
                text = custom_msg(int(sym[1:])) if sym[0] == "c" else sym
                r = rng.random()
                if r < 0.15:
                    continue                       # lost
                ev.append(["msg", text, "received" if rng.random() < 0.75 else "polled", 0])
                if r > 0.8:
                    ev.append(["msg", text, rng.choice(["received", "polled"]), 0])   # duplicate
                if sym == "started" and anomaly == "sfstart" and rng.random() < 0.7:
                    ev.append(["subres", False])
            if truth != "unfinished":
                text = truth if truth == "succeeded" else _text(rng, "failed", k)
                ev.append(["msg", text, "received" if rng.random() < 0.6 else "polled", 0])
                if rng.random() < 0.35:
                    ev.append(["msg", text, rng.choice(["received", "polled"]), 0])
                if anomaly == "latepoll" and rng.random() < 0.7:
                    ev.append(["msg", "started", "polled", 0])
            # mild reordering (out-of-order delivery of received messages)
            for i in range(len(ev) - 1):
                if rng.random() < 0.2 and ev[i][0] == "msg" and ev[i + 1][0] == "msg" \
                        and "polled" not in (ev[i][2], ev[i + 1][2]):
                    ev[i], ev[i + 1] = ev[i + 1], ev[i]
            seg = ev
        # stale messages of the previous submission
        for _ in range(rng.choice([0, 0, 1, 2])):
            seg.insert(rng.randrange(len(seg) + 1),
                       ["msg", _text(rng, rng.choice(["started", "succeeded", "failed", "custom"]), k),
                        "received", -1])
        ops.extend(seg)
        if truth == "failed" and e < n:
            e += 1
        elif truth == "subfail" and s < m:
            s += 1
        else:
            break
        if len(ops) > 40:
            break
    return {"n": n, "m": m, "k": k, "ops": ops,
            "kind": "story" if anomaly is None else "story-" + anomaly}


EXH_SYMS = ["prep", "submitted", "started", "succeeded", "failed", "submission failed",
            "custom", "expired"]


def gen_exhaustive(rng, length, flags=None):
    """all sequences of exactly `length` symbols (prefixes are covered by the
    per-step comparison); flag / submit number per position drawn from rng, or
    enumerated when `flags` is given."""
    cases = []
    if flags is None:
        for combo in itertools.product(EXH_SYMS, repeat=length):
            n, m = rng.randint(0, NMAX), rng.randint(0, NMAX)
            ops = []
            for sym in combo:
                if sym == "prep":
                    ops.append(["prep"])
                else:
                    flag = rng.choices(["received", "polled", "internal"], [5, 3, 2])[0]
                    rel = rng.choices([0, -1], [5, 1])[0]
                    ops.append(["msg", custom_msg(0) if sym == "custom" else sym, flag, rel])
            cases.append({"n": n, "m": m, "k": 1, "ops": ops, "kind": f"exhaustive{length}"})
    else:
        syms = [["prep"]] + [["msg", custom_msg(0) if s == "custom" else s, f, 0]
                             for s in EXH_SYMS[1:] for f in flags]
        for combo in itertools.product(syms, repeat=length):
            n, m = rng.randint(0, 1), rng.randint(0, 1)
            cases.append({"n": n, "m": m, "k": 1, "ops": [list(o) for o in combo],
                          "kind": f"exhaustive{length}f"})
    return cases


# witnesses of the findings (always run first)
CORPUS = [
    # late poll result 'started' after the received 'succeeded'
    {"n": 0, "m": 0, "k": 0, "kind": "story-latepoll",
     "ops": [["prep"], ["subres", True], ["msg", "started", "received", 0],
             ["msg", "succeeded", "received", 0], ["msg", "started", "polled", 0]]},
    # late poll result 'started' after the final 'failed'
    {"n": 0, "m": 0, "k": 0, "kind": "story-latepoll",
     "ops": [["prep"], ["msg", "started", "received", 0], ["msg", "failed/ERR", "received", 0],
             ["msg", "started", "polled", 0]]},
    # submit command reports failure after the job's 'started' message arrived
    {"n": 0, "m": 1, "k": 0, "kind": "story-sfstart",
     "ops": [["prep"], ["msg", "started", "received", 0], ["subres", False],
             ["prep"], ["msg", "started", "received", 0], ["subres", False], ["prep"]]},
    # ordinary retry histories
    {"n": 1, "m": 1, "k": 1, "kind": "story",
     "ops": [["prep"], ["subres", False], ["prep"], ["subres", True],
             ["msg", "started", "received", 0], ["msg", "out 0 done", "received", 0],
             ["msg", "failed/ERR", "received", 0], ["msg", "succeeded", "polled", 0],
             ["prep"], ["msg", "started", "received", -1], ["msg", "succeeded", "received", 0]]},
]


# --------------------------------------------------------------------------
# trace vocabulary shared by the three oracles (independent of the Coq model)
# --------------------------------------------------------------------------
def steps(case, result):
    """[(before, op, after)] with before of the first op = the fresh task."""
    prev = {"st": "waiting", "sn": 0, "outs": [], "exec": None, "sub": None, "eff": []}
    out = []
    for op, ob in zip(case["ops"], result["trace"]):
        out.append((prev, op, ob))
        prev = ob
    return out


def op_msg(op, b):
    """(kind, flag, stale) of an op as a message; subres is an internal message."""
    if op[0] == "subres":
        return (("std", "submitted") if op[1] else ("subfail",)), "internal", False
    if op[0] == "msg":
        return msg_kind(op[1]), op[2], op[3] != 0
    return None, None, None


def lined_up(b):
    return any(b[t] is not None and b[t][1] > 0 for t in ("exec", "sub"))


def ignored(b, op):
    """the message is dropped by the stale / retry-window rules of the property"""
    kind, flag, stale = op_msg(op, b)
    if kind is None:
        return False
    if flag == "received" and stale:
        return True
    return b["st"] == "waiting" and lined_up(b) and kind != ("std", "expired")


def exhausted(timer):
    return timer is None or timer[1] >= timer[0]


def same_state(a, b):
    return all(a[x] == b[x] for x in ("st", "sn", "outs", "exec", "sub"))


class TaskMsgStream(Stream):
    name = "taskmsg"
    coq_import = "From Cylc Require Import Gen.TaskMsgTables Model.TaskMsg."
    check_fn = "TaskMsg.check_case"
    show_fn = "TaskMsg.model_out"
    needs_scratch_home = True
    n_hashseeds = 8
    shard_size = 400
    rule = ("op sequences (job preparation, submit-command result, messages {submitted, started, succeeded, "
            "failed[/SIG], submission failed, expired, custom, other} x {received, polled, internal} x "
            "{current, stale, future submit number}) on a real TaskProxy with 0-2 x 0-2 retry delays: random "
            "sequences, job-consistent stories (with duplicates, reordering, losses, stale messages; variants with a "
            "late poll result / a failed submit result after 'started'), thorough adds all symbol sequences of "
            "length 5 and all flagged sequences of length 3; non-trivial = the status changed by a message at least once")

    def corpus(self):
        return [json.loads(json.dumps(c)) for c in CORPUS]

    def gen(self, rng, tier):
        cases = []
        if tier == "quick":
            nr, ns, na = 700, 600, 100
        else:
            nr, ns, na = 3000, 2500, 400
        cases += [gen_random(rng) for _ in range(nr)]
        cases += [gen_story(rng) for _ in range(ns)]
        cases += [gen_story(rng, "latepoll") for _ in range(na)]
        cases += [gen_story(rng, "sfstart") for _ in range(na)]
        if tier == "thorough":
            cases += gen_exhaustive(rng, 5)
            cases += gen_exhaustive(rng, 3, ["received", "polled"])
        return cases

    def impl(self, cases):
        return impl_cases(cases)

    def coq_case(self, c, r):
        if "exc" in r:
            return None
        return q.crecord(
            c_n=q.cnat(c["n"]), c_m=q.cnat(c["m"]), c_k=q.cnat(c["k"]),
            c_ops=q.clist(op_coq(o) for o in c["ops"]),
            c_impl=q.clist(obs_coq(o) for o in r["trace"]))

    def key(self, c, r):
        if "exc" in r:
            return None
        if not any(b["st"] != a["st"] and op[0] != "prep" for b, op, a in steps(c, r)):
            return None
        return json.dumps([c["n"], c["m"], c["k"], c["ops"]])

    def clauses(self, c, r):
        """list of (tag, text) property violations; overridden per property"""
        return []

    def oracle(self, c, r):
        if "exc" in r:
            return "[exception] unexpected exception: " + r["exc"]
        v = self.clauses(c, r)
        if v:
            return "; ".join(f"[{tag}] {txt}" for tag, txt in v[:4])
        return None

    def classify(self, c, r, failure):
        tag = failure.split("]")[0].lstrip("[") if failure.startswith("[") else "other"
        return f"{self.name}:{tag}"

    def shrink(self, c):
        ops = c["ops"]
        for i in range(len(ops)):
            yield dict(c, ops=ops[:i] + ops[i + 1:])
        for fld in ("n", "m", "k"):
            if c[fld] > 0 and not (fld == "k" and any(
                    o[0] == "msg" and msg_kind(o[1])[0] == "custom" for o in ops)):
                yield dict(c, **{fld: c[fld] - 1})

    def search(self, rng, tier):
        return [gen_random(rng, 8) for _ in range(3000)] + [gen_story(rng) for _ in range(2000)]
