"""C39 — workflow names cannot escape the cylc-run directory
(cylc/flow/workflow_files.py validate_workflow_name / check_reserved_dir_names,
cylc/flow/unicode_rules.py WorkflowNameValidator)."""
import itertools
import re

from vp.core import Stream
from vp import coqfmt as q

GEN = ["uniclasses", "wfname_rules"]
TRUSTED = [
    "hand model Model/WfName.v of validate_workflow_name, check_reserved_dir_names, UnicodeRuleChecker.validate, "
    "posixpath.isabs/join/normpath and PurePosixPath.parts (relative paths)",
    "vp/gen/wfname_rules.py: parser from the rule regex sources (shapes ^.{m,n}$, ^[..], ^[^..], ^[..]+$, ^[^..]*$) to rule descriptors",
    "vp/gen/uniclasses.py: \\w / \\d tables of the running CPython re module (theorems are stated for arbitrary \\w, \\d)",
]
ASSUMES = [
    "the cylc-run directory is an absolute path; symlinks below it are out of scope (C38/C48 cover the filesystem side)",
    "the regex engine implements the documented semantics of ^ . [..] {m,n} + * and of $ (end, or before a final newline)",
]

RESERVED = ['.service', '_cylc-install', 'flow.cylc', 'log', 'runN', 'share', 'suite.rc', 'work']
PLAIN = ['a', 'b', 'foo', 'x1', 'A_b', 'r', 'ru', 'run', 'runs', 'a.b', 'a-b', 'a+b', 'a@b', '_', '@', '+',
         'é', '中文', 'a٣', 'z' * 30]
RUNS = ['run1', 'run12', 'run0', 'run007', 'run٣', 'run１', 'run1x', 'xrun1', 'Run1', 'RUN1', 'run-1',
        'run1.', 'run.1', 'run²', 'runN1', 'run']
DOTS = ['.', '..', '', '...', '.a', '..a', 'a..', '. ', '.. ', '~', '~u', '~root', '$HOME', '${HOME}', ' ', 'a b',
        '-', '-a', '1', '1a', '٣a', '１', 'a\nb', '\n', 'a\\b', '\\', 'a\x00', '*', 'a:b', 'share ', ' share',
        'Share', 'LOG', 'log1', 'flow.cylc.', 'suite.rc~', '.service.', 'runN ', 'work\n', 'share\n', 'run1\n']
ALPHA = ['a', 'b', 'r', 'u', 'n', 'N', 'Z', '0', '1', '9', '.', '.', '/', '/', '~', ' ', '\n', '-', '_', '+', '@',
         '\xe9', '\u0663', '\uff11', '\u4e2d', '\xb2', '\xa0', '\x00', '\\', '$', '\t', '\r', '\x0b', '\x1c',
         '\x85', '\u2028', ':', '*', '%', ',', '\u0300', '\U0001d7ce', '\U00010000', '\u2160', '\xaa']
RUN_DIRS = ['/home/u/cylc-run', '/', '//', '//x', '///x/y', '/a/../b', '/a/./b/', '/cylc-run/', '/..', '/r//s',
            '/é/cylc-run', '/h/cylc-run/..']


def _name_from_comps(rng):
    k = rng.choice([1, 1, 2, 2, 3, 3, 4, 5, 6])
    comps = []
    for _ in range(k):
        x = rng.random()
        if x < 0.40:
            comps.append(rng.choice(PLAIN))
        elif x < 0.55:
            comps.append(rng.choice(RESERVED))
        elif x < 0.70:
            comps.append(rng.choice(RUNS))
        elif x < 0.90:
            comps.append(rng.choice(DOTS[:7] if rng.random() < 0.7 else DOTS))
        else:
            comps.append(''.join(rng.choice(ALPHA) for _ in range(rng.randint(1, 4))))
    s = '/'.join(comps)
    x = rng.random()
    if x < 0.06:
        s = '/' + s
    elif x < 0.09:
        s = '//' + s
    x = rng.random()
    if x < 0.08:
        s += '\n'
    elif x < 0.14:
        s += '/'
    elif x < 0.16:
        s += '/\n'
    elif x < 0.17:
        s += '\n\n'
    return s


def _mutate(rng, s):
    i = rng.randint(0, len(s))
    op = rng.random()
    if op < 0.5:
        return s[:i] + rng.choice(ALPHA) + s[i:]
    if op < 0.75 and s:
        i = min(i, len(s) - 1)
        return s[:i] + rng.choice(ALPHA) + s[i + 1:]
    if s:
        i = min(i, len(s) - 1)
        return s[:i] + s[i + 1:]
    return s


def _pair(name, rng, **kw):
    run = rng.choice(RUN_DIRS[:2] if rng.random() < 0.5 else RUN_DIRS)
    return [dict(name=name, chk=chk, run=run, **kw) for chk in (False, True)]


def hx(s):
    """text as a Gallina term: hex string literal decoded by Codes.dec"""
    return '(Codes.dec "' + ''.join('%06x' % ord(ch) for ch in s) + '"%string)'


class WfNameStream(Stream):
    name = "wfname"
    coq_import = "From Cylc Require Import Model.Codes Model.WfName."
    check_fn = "WfName.check_case"
    show_fn = "WfName.model_out"
    rule = ("names built from components (plain / reserved / run<N> look-alikes / '.', '..', '', '~', "
            "spaces, newlines, unicode digits and letters) joined by '/', random strings over a 45-character "
            "alphabet, single-character mutations of valid names, and names at the 254-character boundary; "
            "each with check_reserved_names False and True and a cylc-run directory from a small pool; "
            "non-trivial = the name is not just ASCII letters; thorough adds every string of length <= 5 over "
            "{a . / \\n 1 -} and every 1-3 component path over a 12-component pool")
    n_hashseeds = 2
    shard_size = 400
    needs_scratch_home = True

    def corpus(self):
        names = ['foo', 'foo\n', 'run1\n', 'share\n', 'a/share/../b', 'a/../b', 'a/..', 'a/../..', '/a', '//a',
                 'a/./b/', '.a', 'a/../.b', '', '\n', 'a\n\n', 'a/run1', 'a/run٣', 'a/b/../share',
                 'a' * 254, 'a' * 255, 'a' * 254 + '\n', 'a' * 255 + '\n', '~', '~u/a', 'a/~', 'a b', '$HOME',
                 'a/../../cylc-run/b', 'a/runN', 'flow.cylc', 'x/.service', 'x/_cylc-install/y']
        out = []
        for i, n in enumerate(names):
            for chk in (False, True):
                out.append({"name": n, "chk": chk, "run": RUN_DIRS[i % len(RUN_DIRS)], "kind": "corpus"})
        return out

    def gen(self, rng, tier):
        cases = []
        big = tier != "quick"
        for _ in range(500 if not big else 14000):
            cases += _pair(_name_from_comps(rng), rng, kind="components")
        for _ in range(250 if not big else 8000):
            n = rng.choice([0, 1, 1, 2, 2, 3, 3, 4, 5, 6, 8])
            cases += _pair(''.join(rng.choice(ALPHA) for _ in range(n)), rng, kind="random")
        for _ in range(200 if not big else 6000):
            base = '/'.join(rng.choice(PLAIN + RESERVED + RUNS[:4]) for _ in range(rng.randint(1, 3)))
            cases += _pair(_mutate(rng, base), rng, kind="mutated")
        for _ in range(200 if not big else 6000):
            # only characters the rules allow: exercises isabs / normpath / reserved names
            pool = ['a', 'b', '..', '..', '.', '', 'share', 'run1', 'x.y', 'log', 'runN', 'run', 'work']
            s = '/'.join(rng.choice(pool) for _ in range(rng.randint(1, 6)))
            if rng.random() < 0.1:
                s = 'a/' + s + '\n'
            cases += _pair(s, rng, kind="dotdot")
        for _ in range(12 if not big else 200):
            n = rng.choice([252, 253, 254, 255, 256])
            fill = rng.choice(['a', 'a', 'é', 'ab/'])
            s = (fill * n)[:n] + rng.choice(['', '', '\n', '/'])
            cases += _pair(s, rng, kind="length")
        if big:
            for n in range(0, 6):
                for t in itertools.product('a./\n1-', repeat=n):
                    s = ''.join(t)
                    cases.append({"name": s, "chk": rng.random() < 0.5, "run": rng.choice(RUN_DIRS[:3]),
                                  "kind": "exhaustive"})
            pool = ['a', '.', '..', '', 'share', 'run1', 'log', 'b', '..a', 'run1\n', 'work', 'runN']
            for n in (1, 2, 3):
                for t in itertools.product(pool, repeat=n):
                    cases.append({"name": '/'.join(t), "chk": True, "run": rng.choice(RUN_DIRS[:3]),
                                  "kind": "exhaustive"})
        return cases

    def impl(self, cases):
        import os
        from cylc.flow.exceptions import WorkflowFilesError
        from cylc.flow.pathutil import get_cylc_run_dir, get_workflow_run_dir
        from cylc.flow.unicode_rules import WorkflowNameValidator
        from cylc.flow.workflow_files import validate_workflow_name
        msgs = [m.replace('``', '`') for _, m in WorkflowNameValidator.RULES]
        real_run = get_cylc_run_dir()
        out = []
        for c in cases:
            name = c["name"]
            res = {}
            try:
                validate_workflow_name(name, check_reserved_names=c["chk"])
                res["out"] = "ok"
            except WorkflowFilesError as e:
                msg = str(e)
                if msg.startswith("invalid workflow name '"):
                    idx = [i for i, m in enumerate(msgs) if msg.endswith(" - " + m)]
                    if len(idx) == 1:
                        res.update(out="invalid", rule=idx[0])
                    else:
                        res["exc"] = "WorkflowFilesError(unrecognised rule message)"
                elif msg.startswith("workflow name cannot be an absolute path"):
                    res["out"] = "abs"
                elif "points to the cylc-run directory or above" in msg:
                    res["out"] = "above"
                elif msg.startswith("Workflow/run name cannot contain a directory named '"):
                    d = msg[len("Workflow/run name cannot contain a directory named '"):]
                    d = d[:d.rindex("' (that filename is reserved)")]
                    if d == "run<number>":
                        res["out"] = "runN"
                    else:
                        res.update(out="reserved", dir=d)
                else:
                    res["exc"] = "WorkflowFilesError(unrecognised message)"
            except Exception as e:  # noqa
                res["exc"] = type(e).__name__
            try:
                res["norm"] = os.path.normpath(name)
                res["full"] = os.path.normpath(os.path.join(c["run"], name))
            except Exception as e:  # noqa  (embedded NUL never raises in normpath; defensive)
                res["norm_exc"] = type(e).__name__
            if res.get("out") == "ok":
                # where cylc itself would put this workflow
                try:
                    res["real_run"] = os.path.normpath(real_run)
                    res["resolved"] = os.path.normpath(get_workflow_run_dir(name))
                except Exception as e:  # noqa
                    res["resolve_exc"] = type(e).__name__
            out.append(res)
        return out

    # ---- Gallina ----
    def coq_case(self, c, r):
        if "exc" in r or "norm_exc" in r:
            return None
        o = r["out"]
        if o == "invalid":
            impl = f"(WfName.Invalid {q.cnat(r['rule'])})"
        elif o == "reserved":
            impl = f"(WfName.Reserved {hx(r['dir'])})"
        else:
            impl = {"ok": "WfName.Ok", "abs": "WfName.IsAbs", "above": "WfName.Above", "runN": "WfName.RunNumber"}[o]
        return q.crecord(c_name=hx(c["name"]), c_chk=q.cbool(c["chk"]), c_run=hx(c["run"]),
                         c_impl=impl, c_norm=hx(r["norm"]), c_full=hx(r["full"]))

    # ---- property oracle (independent of normpath and of the model) ----
    @staticmethod
    def _walk(name):
        """Follow the name component by component starting in the cylc-run
        directory (depth 0).  Returns (escaped?, final stack)."""
        stack = []
        for comp in name.split('/'):
            if comp in ('', '.'):
                continue
            if comp == '..':
                if not stack:
                    return True, stack
                stack.pop()
            else:
                stack.append(comp)
        return False, stack

    def oracle(self, c, r):
        if "exc" in r:
            return "unexpected exception: " + r["exc"]
        if r["out"] != "ok":
            return None
        name = c["name"]
        if name.startswith('/'):
            return "accepted an absolute path"
        escaped, stack = self._walk(name)
        if escaped:
            return "accepted a name that steps above the cylc-run directory"
        if not stack:
            return "accepted a name that resolves to the cylc-run directory itself"
        body = name[:-1] if name.endswith('\n') else name
        if any(ch in name for ch in '~$\x00\\') or re.search(r'\s', body):
            return "accepted a name containing '~', '$', NUL, backslash or inner white space"
        if "resolve_exc" in r:
            return "get_workflow_run_dir raised " + r["resolve_exc"]
        root = r["real_run"].rstrip('/')
        if not (r["resolved"].startswith(root + '/') and len(r["resolved"]) > len(root) + 1):
            return f"resolves to {r['resolved']!r}, not strictly inside {r['real_run']!r}"
        if r["resolved"][len(root) + 1:].split('/') != stack:
            return f"resolves to {r['resolved']!r}, expected components {stack!r} below the cylc-run directory"
        if c["chk"]:
            for comp in stack:
                if comp in RESERVED_NOW():
                    return f"accepted reserved directory name {comp!r}"
                if re.fullmatch(r'run\d+', comp):
                    return f"accepted run-number directory name {comp!r}"
        return None

    def key(self, c, r):
        if re.fullmatch(r'[A-Za-z]*', c["name"]):
            return None
        return c["name"] + ("|1" if c["chk"] else "|0")

    def classify(self, c, r, failure):
        if failure.startswith("unexpected exception"):
            return "wfname:exception:" + r.get("exc", "?")
        if "reserved directory" in failure or "run-number" in failure:
            return "wfname:reserved-accepted"
        if "containing" in failure:
            return "wfname:special-char-accepted"
        return "wfname:escape"

    def shrink(self, c):
        n = c["name"]
        for i in range(len(n)):
            yield dict(c, name=n[:i] + n[i + 1:])
        parts = n.split('/')
        for i in range(len(parts)):
            yield dict(c, name='/'.join(parts[:i] + parts[i + 1:]))


_RES = None


def RESERVED_NOW():
    """the reserved names as documented (user guide); deliberately a literal
    copy so that deleting an entry from the source is noticed"""
    global _RES
    if _RES is None:
        _RES = frozenset(RESERVED)
    return _RES


STREAMS = [WfNameStream()]

META = {
    "level_text": ("Coq theorems over Model/WfName.v for all names (lists of code points), all absolute cylc-run "
                   "directories and arbitrary \\w/\\d classes: a name accepted by validate_workflow_name is relative, "
                   "and normpath(join(run, name)) has exactly the components of normpath(run) followed by a non-empty "
                   "list of real components (non-empty, not '.' or '..', no '/'), none of which is a reserved name or "
                   "matches run\\d+ when check_reserved_names is set; the accepted character set (from the regenerated "
                   "rule table) excludes '~', '$', NUL, backslash, space and any newline other than a final one. "
                   "The model, including the normpath/join/parts model and Python's `$`-before-final-newline, is "
                   "compared with the real functions on every generated name inside Coq."),
    "level_note": ("Hand model; the rule regexes are parsed by a small trusted generator; \\w/\\d tables are those of the "
                   "running CPython. Observed, not a violation of the property text: names with one trailing newline "
                   "('foo\\n') pass validation, and reserved names are checked on the normalised path only "
                   "('a/share/../b' is accepted)."),
    "technique": "Coq proof (simulation of normpath on run/name by normpath on name) + regenerated rule table + in-Coq differential correspondence + independent path-walk oracle",
    "design_ref": "5/C39",
}
