"""C29 — commands: pool automaton + real scheduler runs with the command."""
from vp.sched.stream import SchedStream
from vp.props.c01 import TRUSTED, ASSUMES  # noqa
from vp.sched import corpora

STREAMS = [SchedStream('C29', name='sched-set', feat={'set': True, 'hold': True, 'retries': True, 'abs': True}, n_quick=32, n_thorough=700, corpus=corpora.c29_corpus())]
META = {
    "level_text": 'Coq theorems over the pool automaton: a forced status change never yields submitted/running; children of a set output get exactly the matching prerequisite atoms satisfied and only for outputs really completed (the same ESat rule as for natural outputs); set --pre satisfies only prerequisites the task has; force-satisfied atoms count in the readiness test; the pool safety invariant holds across set commands. Tie: real runs with cylc set on pooled and not-yet-spawned instances (default outputs, chosen outputs, single prerequisites, --pre=all) at generated iterations, accepted by the automaton. Oracle: requested + implied outputs complete afterwards, children spawned with the prerequisite satisfied, no forced submitted/running. Implied-output and default-output rules are not theorems here (partial; see C09/C12).',
    "level_note": TRUSTED[0] + " Commands use --flow=all only; new/none flows are not generated.",
    "technique": 'Coq proof of command guards of the pool automaton + in-Coq validation of real runs with cylc set + oracle',
    "design_ref": "5/C29",
}
