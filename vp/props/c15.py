"""C15 — family triggers expand to all/any of the members' outputs
(cylc/flow/graph_parser.py: fam_to_mem_trigger_map, fam_to_mem_output_map,
_proc_dep_pair, _families_all_to_all, _compute_triggers)."""
import hashlib
import itertools
import json

from vp.core import Stream
from vp import coqfmt as q
from vp.props import graphlib_c14c15 as G

GEN = ["famtables"]

TRUSTED = [
    "hand model Model/GraphBase.v + Model/FamTrig.v of GraphParser._proc_dep_pair/_families_all_to_all/"
    "_compute_triggers/_set_triggers/_set_output_opt at token level (a node NAME[OFFSET]:QUAL? is one token; "
    "names and offsets numbered by the harness; regex substitutions modelled as token-wise substitutions)",
    "Gen/FamTables.v is printed from the imported tables of /repo by vp/gen/famtables.py",
    "the harness's reading of stored trigger expression strings (split on &|(), Python eval for truth tables)",
]
ASSUMES = [
    "no task/family name is a word-delimited part of another node's text (names are t<i>/F<i>)",
    "family_map values are non-empty lists of task names (as WorkflowConfig builds them)",
    "cylc7 back-compat mode off, expire_triggers off, no parameters/xtriggers",
]

QUALS = ["succeed", "fail", "finish", "start", "submit", "submit-fail", "expire"]
DOC = {"succeed": ["succeeded"], "fail": ["failed"], "finish": ["succeeded", "failed"],
       "start": ["started"], "submit": ["submitted"], "submit-fail": ["submit-failed"],
       "expire": ["expired"]}
ALIAS = {"succeed": "succeeded", "fail": "failed", "finish": "finished", "start": "started",
         "submit": "submitted", "submit-fail": "submit-failed", "expire": "expired"}
STD = sorted(set(ALIAS.values()))
CUSTOM = ["x", "y1", "out-a"]
MUST_OPT = {"expire", "submit-fail", "expired", "submit-failed"}
SIG_SFA = "c15:lhs-submit-fail-any-expands-to-submitted"


def fam_base(qual):
    """('submit-fail', 'any') for 'submit-fail-any'; None if not a family qualifier."""
    if qual is None or "-" not in qual:
        return None
    base, x = qual.rsplit("-", 1)
    if base in DOC and x in ("all", "any"):
        return base, x
    return None


def right_tokens(right):
    toks = []
    for i, r in enumerate(right):
        if i:
            toks.append("&")
        if r["s"]:
            toks.append("!")
        toks.append(["N", r["node"]])
    return toks


def case_tokens(c):
    left = G.expr_tokens(c["left"]) if c["left"] is not None else []
    return left, right_tokens(c["right"])


def fams_of(c):
    return {int(k) for k in c["fm"]}


# ------------------------------------------------------------------ reference semantics (oracle)
def leaf_atoms(n, fm, defect):
    """(list of per-member atom groups, all?) for a left node."""
    if str(n["n"]) in fm:
        fb = fam_base(n["q"])
        if fb is None:
            return [], True
        base, x = fb
        outs = DOC[base]
        if defect and n["q"] == "submit-fail-any":
            outs = ["submitted"]
        return [[(m, n["off"], o) for o in outs] for m in fm[str(n["n"])]], x == "all"
    out = "succeeded" if n["q"] is None else ALIAS.get(n["q"], n["q"])
    outs = ["succeeded", "failed"] if out == "finished" else [out]
    return [[(n["n"], n["off"], o) for o in outs]], True


def ref_eval(e, val, fm, defect=False):
    if e[0] == "N":
        groups, allp = leaf_atoms(e[1], fm, defect)
        vals = [any(val[a] for a in g) for g in groups]
        return all(vals) if allp else any(vals)
    if e[0] == "()":
        return ref_eval(e[1], val, fm, defect)
    a, b = ref_eval(e[1], val, fm, defect), ref_eval(e[2], val, fm, defect)
    return (a and b) if e[0] == "&" else (a or b)


def ref_atoms(e, fm, defect=False):
    out = set()
    for n in G.expr_nodes(e):
        for g in leaf_atoms(n, fm, defect)[0]:
            out.update(g)
    return out


def impl_conj(trigs, suicide, val):
    """AND of the implementation's expressions (with that suicide flag) under val."""
    res = True
    for atoms, tt, su in trigs:
        if su != suicide:
            continue
        idx = 0
        for a in atoms:
            idx = idx * 2 + (1 if val.get(tuple(a), False) else 0)
        res = res and tt[idx]
    return res


def left_wellformed(c):
    """every left node has a legal qualifier for its kind"""
    if c["left"] is None:
        return True
    for n in G.expr_nodes(c["left"]):
        isfam = str(n["n"]) in c["fm"]
        fb = fam_base(n["q"])
        if isfam and fb is None:
            return False
        if not isfam and fb is not None:
            return False
    return True


def lhs_failure(c, r, defect=False):
    """None if every right member's triggers denote the documented expansion of the left side."""
    fm = c["fm"]
    for rn in c["right"]:
        n = rn["node"]
        if n["off"]:
            continue
        members = fm.get(str(n["n"]), [n["n"]])
        for m in members:
            if m not in r["tasks"]:
                return "right-hand member t%d has no entry in parser.triggers" % m
            trigs = r["trigs"].get(str(m), [])
            mine = [t for t in trigs if t[2] == rn["s"]]
            if c["left"] is None:
                continue
            if not mine:
                return "right-hand member t%d got no trigger" % m
            atoms = set(ref_atoms(c["left"], fm, defect))
            for t in mine:
                atoms.update(tuple(a) for a in t[0])
            atoms = sorted(atoms)
            if len(atoms) > 14:
                continue
            for row in itertools.product([False, True], repeat=len(atoms)):
                val = dict(zip(atoms, row))
                if impl_conj(trigs, rn["s"], val) != ref_eval(c["left"], val, fm, defect):
                    on = sorted("%s%s:%s" % (G.name_text(a[0], ()), G.OFFS[a[1]], a[2]) for a, b in val.items() if b)
                    return ("trigger of member t%d differs from the documented expansion of the left side "
                            "when exactly %s are complete" % (m, on))
    return None


def declared_defaults(c):
    """(member, output) -> set of declared optionality, from family nodes."""
    fm = c["fm"]
    decl = {}
    nodes = [(n, False) for n in (G.expr_nodes(c["left"]) if c["left"] is not None else [])]
    nodes += [(rn["node"], rn["s"]) for rn in c["right"]]
    for n, suicide in nodes:
        if str(n["n"]) not in fm or suicide:
            continue
        fb = fam_base(n["q"])
        if n["q"] is None:
            if c["left"] is None:
                fb = ("succeed", "all")
            else:
                continue
        if fb is None:
            continue
        optional = True if fb[0] == "finish" else n["opt"]
        for m in fm[str(n["n"])]:
            for o in DOC[fb[0]]:
                decl.setdefault((m, o), set()).add(optional)
    return decl


def explicit_tasks(c):
    nodes = (G.expr_nodes(c["left"]) if c["left"] is not None else []) + [rn["node"] for rn in c["right"]]
    return {n["n"] for n in nodes if str(n["n"]) not in c["fm"]}


def rhs_failure(c, r):
    opt = {(o[0], o[1]): o[2] for o in r["opt"]}
    expl = explicit_tasks(c)
    for (m, o), ds in sorted(declared_defaults(c).items()):
        if m in expl:
            continue
        if (m, o) not in opt:
            return "family node declares t%d:%s but task_output_opt has no entry" % (m, o)
        if len(ds) > 1:
            return "conflicting family defaults for t%d:%s were accepted" % (m, o)
        if opt[(m, o)][0] != next(iter(ds)) or opt[(m, o)][2]:
            return "t%d:%s is %s, the family node declares optional=%s as a default" % (m, o, opt[(m, o)], next(iter(ds)))
    return None


# ------------------------------------------------------------------ generators
def gen_task_node(rng, pool, strict):
    n = rng.choice(pool)
    k = rng.random()
    if k < 0.35:
        qual = None
    elif k < 0.6:
        qual = rng.choice(list(ALIAS))
    elif k < 0.8:
        qual = rng.choice(STD)
    else:
        qual = rng.choice(CUSTOM)
    opt = rng.random() < 0.3
    if strict:
        if qual in MUST_OPT:
            opt = True
        if qual in ("finish", "finished"):
            opt = False
    off = rng.choice([0, 0, 0, 1, 2, 3])
    return G.mknode(n, off, qual, opt)


def gen_fam_node(rng, fams, strict):
    f = rng.choice(fams)
    base = rng.choice(QUALS)
    qual = base + "-" + rng.choice(["all", "any"])
    opt = rng.random() < 0.4
    if strict:
        opt = True if base in MUST_OPT else (False if base == "finish" else opt)
    off = rng.choice([0, 0, 1, 2, 4])
    return G.mknode(f, off, qual, opt)


def gen_expr(rng, leaf, depth, lvl=0):
    """grammar-shaped tree: expr := term ('|' expr)?; term := factor ('&' term)?; factor := node | (expr)"""
    if lvl == 0:
        a = gen_expr(rng, leaf, depth, 1)
        if depth > 0 and rng.random() < 0.4:
            return ["|", a, gen_expr(rng, leaf, depth - 1, 0)]
        return a
    if lvl == 1:
        a = gen_expr(rng, leaf, depth, 2)
        if depth > 0 and rng.random() < 0.45:
            return ["&", a, gen_expr(rng, leaf, depth - 1, 1)]
        return a
    if depth > 0 and rng.random() < 0.25:
        return ["()", gen_expr(rng, leaf, depth - 1, 0)]
    return ["N", leaf()]


def gen_fm(rng, nested):
    """family ids 40.., member task ids 0..; values sorted by written name like WorkflowConfig"""
    nf = rng.randint(1, 3)
    fm, nxt = {}, 0
    for i in range(nf):
        size = rng.randint(1, 4)
        if nested and i > 0 and rng.random() < 0.6:
            parent = fm[str(40 + rng.randrange(i))]
            ms = rng.sample(parent, rng.randint(1, len(parent)))
        else:
            ms = list(range(nxt, nxt + size))
            nxt += size
        fm[str(40 + i)] = sorted(ms, key=lambda m: "t%d" % m)
    return fm, nxt


def gen_random(rng, strict):
    fm, nxt = gen_fm(rng, nested=not strict)
    fams = [int(k) for k in fm]
    free = list(range(nxt, nxt + 20))
    used = []

    def leaf():
        if rng.random() < 0.55:
            cand = [f for f in fams if not strict or f not in used] or None
            if cand:
                n = gen_fam_node(rng, cand, strict)
                used.append(n["n"])
                return n
        pool = [t for t in (free if strict else free + list(range(nxt))) if not strict or t not in used]
        n = gen_task_node(rng, pool, strict)
        used.append(n["n"])
        return n

    left = gen_expr(rng, leaf, rng.randint(0, 3)) if rng.random() < 0.9 else None
    right = []
    for _ in range(rng.randint(1, 3)):
        s = rng.random() < 0.2
        k = rng.random()
        cand_f = [f for f in fams if not strict or f not in used]
        cand_t = [t for t in free if not strict or t not in used]
        if k < 0.5 and cand_f:
            f = rng.choice(cand_f)
            if rng.random() < 0.4:
                node = G.mknode(f)
            else:
                node = gen_fam_node(rng, [f], strict)
                node["off"] = 0
            used.append(f)
        elif cand_t:
            node = gen_task_node(rng, cand_t, strict)
            node["off"] = 0 if strict or rng.random() < 0.9 else 1
            used.append(node["n"])
        else:
            continue
        right.append({"s": s, "node": node})
    if not right:
        right = [{"s": False, "node": G.mknode(free[-1])}]
    if strict:
        # nested/overlapping families would make consistency order dependent
        seen = set()
        for f in {u for u in used if str(u) in fm}:
            if seen & set(fm[str(f)]):
                strict = False
            seen |= set(fm[str(f)])
    return {"kind": "strict" if strict else "loose", "fm": fm, "left": left, "right": right}


def systematic():
    """every family qualifier x size 1-4 x offset, on the left and on the right"""
    out = []
    for base in QUALS:
        for x in ("all", "any"):
            for size in (1, 2, 3, 4):
                fm = {"20": list(range(size))}
                opt = base in MUST_OPT
                for off in (0, 1):
                    out.append({"kind": "sys-lhs", "fm": fm,
                                "left": ["N", G.mknode(20, off, base + "-" + x, opt)],
                                "right": [{"s": False, "node": G.mknode(9)}]})
                for opt2 in ((True,) if base in MUST_OPT else (False,) if base == "finish" else (False, True)):
                    out.append({"kind": "sys-rhs", "fm": fm,
                                "left": ["N", G.mknode(9, 0, None, False)],
                                "right": [{"s": False, "node": G.mknode(20, 0, base + "-" + x, opt2)}]})
    return out


def malformed(rng):
    fm = {"20": [0, 1], "21": [1, 2]}
    k = rng.randrange(5)
    t = G.mknode(5)
    if k == 0:     # family without qualifier on the left
        left = ["N", G.mknode(20, rng.choice([0, 1]))]
    elif k == 1:   # task qualifier on a family
        left = ["N", G.mknode(20, 0, rng.choice(["fail", "succeeded", "x", "finish"]))]
    elif k == 2:   # family qualifier on a task
        left = ["N", G.mknode(5, 0, rng.choice(QUALS) + "-" + rng.choice(["all", "any"]))]
        t = G.mknode(6)
    elif k == 3:   # required expire / submit-fail
        left = ["N", G.mknode(20, 0, rng.choice(["expire", "submit-fail"]) + "-" + rng.choice(["all", "any"]), False)]
    else:          # optional finish
        left = ["N", G.mknode(20, 0, "finish-" + rng.choice(["all", "any"]), True)]
    if rng.random() < 0.4:
        left = ["&", left, ["N", G.mknode(7)]]
    return {"kind": "malformed", "fm": fm, "left": left, "right": [{"s": False, "node": t}]}


WITNESS = {"kind": "witness", "fm": {"20": [1, 2]},
           "left": ["N", G.mknode(20, 0, "submit-fail-any", True)],
           "right": [{"s": False, "node": G.mknode(9)}]}


class FamStream(Stream):
    name = "fam"
    coq_import = "From Cylc Require Import Model.GraphBase Model.FamTrig."
    check_fn = "FamTrig.check_case"
    show_fn = "FamTrig.model_out"
    rule = ("one-line graphs LEFT => RIGHT through the real GraphParser with a family map: systematic = every family "
            "qualifier x all/any x family size 1-4 x offset on the left and every qualifier x optionality on the right; "
            "random = grammar-shaped left expressions mixing family nodes (nested/overlapping families, offsets) with "
            "plain task triggers (aliases, standard and custom outputs), 1-3 right nodes (tasks, families, suicide, "
            "optional); malformed = illegal family/task qualifier combinations; non-trivial = the line mentions a family")
    n_hashseeds = 4
    shard_size = 250

    def corpus(self):
        return [WITNESS,
                {"kind": "witness", "fm": {"20": [1, 2, 3], "21": [4, 5]},
                 "left": ["|", ["N", G.mknode(20, 1, "submit-fail-any", True)], ["N", G.mknode(7, 0, "x", False)]],
                 "right": [{"s": False, "node": G.mknode(21)}, {"s": True, "node": G.mknode(9)}]}]

    def gen(self, rng, tier):
        cases = systematic()
        n = 260 if tier == "quick" else 8000
        for i in range(n):
            k = rng.random()
            if k < 0.45:
                cases.append(gen_random(rng, True))
            elif k < 0.9:
                cases.append(gen_random(rng, False))
            else:
                cases.append(malformed(rng))
        return [c for c in cases if self._small(c)]

    @staticmethod
    def _small(c):
        if c["left"] is None:
            return True
        return len(ref_atoms(c["left"], c["fm"])) <= 9

    def impl(self, cases):
        out = []
        for c in cases:
            fams = fams_of(c)
            left, right = case_tokens(c)
            text = G.detok(left + ["=>"] + right if left else right, fams)
            r = G.run_graph(text, c["fm"], fams)
            r["text"] = text
            out.append(r)
        return out

    # ---- hint: order of the _proc_dep_pair calls as indices into the model's pair list
    @staticmethod
    def _hint(c, r):
        fams = fams_of(c)
        left, right = case_tokens(c)
        chain0 = left if left else right
        autos, i = [], 0
        while i < len(chain0):
            t = chain0[i]
            if t == "!" and i + 1 < len(chain0) and isinstance(chain0[i + 1], list) and chain0[i + 1][0] == "N":
                autos.append(G.detok(chain0[i:i + 2], fams))
                i += 2
                continue
            if isinstance(t, list) and t[0] == "N":
                autos.append(G.detok([t], fams))
            i += 1
        uniq = []
        for a in autos:
            if a not in uniq:
                uniq.append(a)
        main = (G.detok(left, fams), G.detok(right, fams)) if left else None
        hint = []
        for lft, rgt in r["calls"]:
            if lft is None:
                if rgt not in uniq:
                    return None
                idx = uniq.index(rgt)
            else:
                if main is None or (lft, rgt) != main:
                    return None
                idx = len(uniq)
            if idx in hint:
                return None
            hint.append(idx)
        return hint

    def coq_case(self, c, r):
        if "exc" in r and r["exc"] != "GraphParseError":
            return None
        if "garbled" in r:
            return None
        hint = self._hint(c, r)
        if hint is None:
            return None
        left, right = case_tokens(c)
        fm = q.clist(q.cpair(q.cnat(int(k)), q.clist(q.cnat(m) for m in v))
                     for k, v in sorted(c["fm"].items(), key=lambda kv: int(kv[0])))
        return "(FamTrig.mkCase %s %s %s %s %s)" % (
            fm, G.coq_toks(left), G.coq_toks(right), q.clist(q.cnat(i) for i in hint), G.coq_outcome(r))

    def oracle(self, c, r):
        if "exc" in r:
            if r["exc"] != "GraphParseError":
                return "unexpected exception: " + r["exc"]
            if c["kind"] in ("strict", "sys-lhs", "sys-rhs", "witness"):
                return "valid family graph rejected: " + r["text"]
            return None
        if "garbled" in r:
            return "unreadable parser result: " + "; ".join(r["garbled"])
        if c["kind"] == "malformed":
            return "malformed family trigger accepted: " + r["text"]
        if not left_wellformed(c):
            return "illegal family/task qualifier accepted: " + r["text"]
        f = lhs_failure(c, r)
        if f:
            return f + " [" + r["text"] + "]"
        f = rhs_failure(c, r)
        if f:
            return f + " [" + r["text"] + "]"
        return None

    def key(self, c, r):
        nodes = (G.expr_nodes(c["left"]) if c["left"] is not None else []) + [rn["node"] for rn in c["right"]]
        if not any(str(n["n"]) in c["fm"] for n in nodes):
            return None
        return json.dumps([c["fm"], c["left"], c["right"]], sort_keys=True)

    def classify(self, c, r, failure):
        # the known defect: a left-hand FAM:submit-fail-any expands to member:submitted.
        # Narrow: the line uses submit-fail-any on the left, and the result is exactly what
        # the documented semantics gives with that one entry replaced.
        if ("exc" not in r and "garbled" not in r and c["left"] is not None and left_wellformed(c)
                and any(str(n["n"]) in c["fm"] and n["q"] == "submit-fail-any" for n in G.expr_nodes(c["left"]))
                and lhs_failure(c, r, defect=True) is None and rhs_failure(c, r) is None):
            return SIG_SFA
        return "c15:" + hashlib.sha1(json.dumps([c["fm"], c["left"], c["right"]], sort_keys=True).encode()).hexdigest()[:12]

    def shrink(self, c):
        # smaller families
        for f, ms in c["fm"].items():
            if len(ms) > 1:
                for m in ms:
                    fm = dict(c["fm"])
                    fm[f] = [x for x in ms if x != m]
                    yield {**c, "fm": fm}
        # sub-expressions of the left side
        e = c["left"]
        if e is not None and e[0] != "N":
            for sub in e[1:]:
                yield {**c, "left": sub}
        if len(c["right"]) > 1:
            for i in range(len(c["right"])):
                yield {**c, "right": c["right"][:i] + c["right"][i + 1:]}
        # drop offsets / optional marks
        if e is not None and e[0] == "N" and e[1]["off"]:
            yield {**c, "left": ["N", {**e[1], "off": 0}]}


STREAMS = [FamStream()]

META = {
    "level_text": (
        "Coq theorems over the token-level model of GraphParser's pair processing (Model/GraphBase.v) instantiated with the "
        "family tables generated from the source (Gen/FamTables.v): for every family qualifier q-all/q-any whose table entry "
        "agrees with ALT_QUALIFIERS[q] (all 14 today), a left-hand FAM[offset]:q-all/any expands, for "
        "every family size (induction on the member list) and inside any &,|,() expression mixed with plain task triggers, to "
        "an expression whose value is the AND/OR over the members of the documented member output (finish = succeeded|failed); "
        "a right-hand family node gives every member the trigger and the declared optionality as its default. "
        "(The submit-fail-any entry used to map to member:submitted: finding fixed in /repo 399a6c1; the witnesses stay in the "
        "corpus as regression cases and the theorem now covers all 14 entries.) "
        "The model is tied to graph_parser.py by differential runs through the real parse_graph (all qualifiers x sizes 1-4 x "
        "offsets, random nested/overlapping families, mixtures, malformed qualifier combinations), compared inside Coq on "
        "truth tables of the stored expressions and on the optionality map."),
    "level_note": (
        "hand model at token level (regex substitutions as token substitutions; name-collision effects of the regexes are "
        "outside the model and excluded by the naming scheme); the processing order of the auto-trigger pairs is taken from the "
        "run as a hint, theorems do not depend on it; trusted: Coq kernel+VM, harness, the generated-table printer."),
    "technique": "Coq proof (table check by computation lifted by induction on members and on the expression) + generated tables + in-Coq differential correspondence + reference-semantics oracle",
    "design_ref": "5/C15",
}
