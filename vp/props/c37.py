"""C37 — template variables survive restart unchanged
(workflow_db_mgr.put_workflow_template_vars, templatevars.eval_var,
Scheduler._load_template_vars / load_workflow_params_and_tmpl_vars)."""
import hashlib
import json
import math
import re
import struct

from vp.core import Stream
from vp import coqfmt as q

TRUSTED = [
    "hand model Model/PyLit.v of CPython repr() for None/bool/int/float/str/list/tuple/set/dict and of the canonical "
    "sub-language of ast.literal_eval that repr produces (validated against the real put/reload path and eval_var)",
    "CPython float repr / float() enter as Section variables frepr/fparse with hypothesis H_float (finite floats print as "
    "a number token that parses back to the same float, the others print as inf/-inf/nan); str.isprintable enters as "
    "the Section variable `printable`; "
    "both are instantiated per case from the running interpreter",
    "the dict built by literal_eval from distinct keys iterates in source order; a set literal has the elements listed",
    "sqlite stores and returns the repr text unchanged (TEXT column)",
]
ASSUMES = [
    "template variable values are Python literals of the modelled types (bytes and complex are checked by the "
    "oracle only); string code points are in 0..0x10FFFF",
    "variable names are distinct and different from the internal name CYLC_TEMPLATE_VARS",
]

# ---------------------------------------------------------------------------
# canonical JSON form of a Python literal value (order of sets/dicts = iteration order)
# ---------------------------------------------------------------------------
def canon(v):
    if v is None:
        return ["n"]
    if v is True or v is False:
        return ["b", bool(v)]
    t = type(v)
    if t is int:
        return ["i", str(v)]
    if t is float:
        return ["f", repr(v)]
    if t is str:
        return ["s", [ord(ch) for ch in v]]
    if t is list:
        return ["l", [canon(x) for x in v]]
    if t is tuple:
        return ["t", [canon(x) for x in v]]
    if t is set:
        return ["S", [canon(x) for x in v]]
    if t is dict:
        return ["d", [[canon(k), canon(x)] for k, x in v.items()]]
    if t is complex:
        # compared with ==: the sign of a zero part is not significant
        # ((-0-3.5j) is stored as '(-0-3.5j)' and read back as (0-3.5j), which is == to it)
        return ["o", "complex", repr(complex(v.real + 0.0, v.imag + 0.0))]
    return ["o", t.__name__, repr(v)]


def canon_same(a, b):
    """identical value and type, recursively (sets up to order)"""
    if a[0] != b[0]:
        return False
    if a[0] in ("l", "t"):
        return len(a[1]) == len(b[1]) and all(canon_same(x, y) for x, y in zip(a[1], b[1]))
    if a[0] == "d":
        return len(a[1]) == len(b[1]) and all(
            canon_same(x[0], y[0]) and canon_same(x[1], y[1]) for x, y in zip(a[1], b[1]))
    if a[0] == "S":
        return len(a[1]) == len(b[1]) and all(any(canon_same(x, y) for y in b[1]) for x in a[1])
    return a == b


def _walk(c):
    yield c
    if c[0] in ("l", "t", "S"):
        for x in c[1]:
            yield from _walk(x)
    elif c[0] == "d":
        for k, x in c[1]:
            yield from _walk(k)
            yield from _walk(x)


def _modelled(c):
    return all(x[0] != "o" for x in _walk(c))


_NONFIN = re.compile(r"(?<![A-Za-z_])(inf|nan)")


def _defect_class(c):
    """narrow class of a value that cannot be restored"""
    cls = set()
    for x in _walk(c):
        if x[0] == "f" and x[1].lstrip("-") in ("inf", "nan"):
            cls.add("nonfinite-float")
        elif x[0] == "o" and x[1] == "complex" and _NONFIN.search(x[2]):
            cls.add("nonfinite-float")
        elif x[0] == "o" and x[1] == "ellipsis":
            cls.add("ellipsis")
    return sorted(cls)


# ---------------------------------------------------------------------------
# generator (runs in the pipeline's interpreter; only produces literal TEXTS)
# ---------------------------------------------------------------------------
_ASCII = "abzAZ09 _-.,:;=#[](){}<>/+*%$@!?~^&|`"
_QUOTE = "'\"\\"
_CTRL = "\n\t\r\x00\x01\x1b\x1f\x7f"
_LATIN = "\x80\x85\x9f\xa0\xad\xe9\xf7\xff"
_BMP = "\u0100\u0378\u200b\u2028\u2029\u4e2d\ud800\udfff\ue000\ufeff\uffff\u3000"
_ASTRAL = "\U00010000\U0001f600\U000e0001\U0010ffff\U0001d11e"


def _rand_str(rng):
    n = rng.choice([0, 1, 1, 2, 3, 4, 6])
    pools = [_ASCII, _ASCII, _QUOTE, _QUOTE, _CTRL, _LATIN, _BMP, _ASTRAL]
    style = rng.random()
    if style < 0.3:
        pools = [_ASCII, _QUOTE]
    return "".join(rng.choice(rng.choice(pools)) for _ in range(n))


def _rand_float(rng):
    r = rng.random()
    if r < 0.35:
        return rng.choice([0.0, -0.0, 0.1, 1.5, -2.25, 1e22, 1e16, 1e-7, 1.0e-5, 123456789.125, 5e-324,
                           1.7976931348623157e308, 2.2250738585072014e-308, 1 / 3, 1e21, 1e15, 9007199254740993.0])
    if r < 0.5:
        return rng.choice([1, -1]) * rng.randint(0, 10 ** 6) / rng.choice([1, 10, 1000, 7])
    while True:
        x = struct.unpack("<d", rng.getrandbits(64).to_bytes(8, "little"))[0]
        if math.isfinite(x):
            return x


def _rand_int(rng):
    r = rng.random()
    if r < 0.5:
        return rng.randint(-20, 20)
    if r < 0.8:
        return rng.choice([1, -1]) * rng.getrandbits(rng.choice([31, 64, 65, 200]))
    return rng.choice([10 ** 40, -10 ** 25, 2 ** 63, -2 ** 63, 10 ** 100 + 7, 0])


def _rand_atom(rng, hashable=False, floats=True):
    r = rng.random()
    if r < 0.08:
        return None
    if r < 0.16:
        return rng.random() < 0.5
    if r < 0.40:
        return _rand_int(rng)
    if r < 0.55 and floats:
        return _rand_float(rng)
    return _rand_str(rng)


def _rand_val(rng, depth, hashable=False):
    if depth <= 0 or rng.random() < 0.35:
        return _rand_atom(rng, hashable)
    n = rng.choice([0, 1, 1, 2, 2, 3, 4])
    r = rng.random()
    if hashable or r < 0.25:
        return tuple(_rand_val(rng, depth - 1, hashable) for _ in range(n))
    if r < 0.55:
        return [_rand_val(rng, depth - 1) for _ in range(n)]
    if r < 0.75:
        return {_rand_val(rng, 1, True): _rand_val(rng, depth - 1) for _ in range(n)}
    return {_rand_val(rng, 1, True) for _ in range(n)}


def _str_text(s, rng):
    """a Python literal for the string s (various spellings)"""
    r = rng.random()
    if r < 0.6:
        return repr(s)
    if r < 0.8:
        return ascii(s)
    body = "".join("\\x%02x" % ord(ch) if ord(ch) < 256 and rng.random() < 0.3 else
                   ("\\u%04x" % ord(ch) if ord(ch) < 65536 else "\\U%08x" % ord(ch)) for ch in s)
    return '"' + body + '"'


def _text(v, rng, fancy):
    """literal text for v; fancy = non-canonical spellings allowed"""
    if isinstance(v, str):
        return _str_text(v, rng) if fancy else repr(v)
    if isinstance(v, bool) or v is None:
        return repr(v)
    if isinstance(v, int):
        if fancy and rng.random() < 0.25:
            return rng.choice([hex, oct, bin, lambda x: format(x, "_d"), lambda x: ("+" if x >= 0 else "") + str(x)])(v)
        return repr(v)
    if isinstance(v, float):
        if fancy and rng.random() < 0.3:
            return "%.17e" % v
        return repr(v)
    sp = (lambda: rng.choice(["", " ", "  "])) if fancy else (lambda: "")
    sep = (lambda: sp() + "," + rng.choice([" ", "", "  "])) if fancy else (lambda: ", ")

    def joined(items):
        out = ""
        for i, it in enumerate(items):
            out += (sep() if i else "") + it
        return out
    if isinstance(v, list):
        items = [_text(x, rng, fancy) for x in v]
        return "[" + sp() + joined(items) + ("," if fancy and items and rng.random() < 0.2 else "") + sp() + "]"
    if isinstance(v, tuple):
        items = [_text(x, rng, fancy) for x in v]
        if len(items) == 1:
            return "(" + sp() + items[0] + sp() + ",)"
        return "(" + sp() + joined(items) + sp() + ")"
    if isinstance(v, set):
        if not v:
            return "set()"
        return "{" + sp() + joined([_text(x, rng, fancy) for x in v]) + sp() + "}"
    if isinstance(v, dict):
        return "{" + sp() + joined([_text(k, rng, fancy) + sp() + ":" + (" " if not fancy else rng.choice([" ", ""]))
                                    + _text(x, rng, fancy) for k, x in v.items()]) + sp() + "}"
    raise TypeError(v)


_HAND_LITS = [
    "inf", "nan", "-inf", "1e999", "-1e999", "007", "00", "-0", "0x10", "1_0", "1.", ".5", "1e5", "1E5", "--1", "+1",
    "1+2j", "(1)", "((1,))", "[1,]", "{1:2,}", "{}", "{ }", "set()", "set([1])", "frozenset()", "b'a'", "u'a'",
    "r'\\n'", "'a' 'b'", "'a''b'", "'''a'''", "''''", "None ", " None", "Nonee", "True1", "Truee", "'\\x4'",
    "'\\u12'", "'\\N{DASH}'", "'\\a'", "'\\0'", "'\\777'", "'\\\n'", "...", "Ellipsis", "[...]", "1if", "1 if 1 else 2",
    "[1, 2", "[1 2]", "(1,, 2)", "{1: }", "{1, 2: 3}", "{1: 2, 3}", "'abc", "\"abc'", "[]]", "1, 2", "(1, 2), 3",
    "[1,2]", "[1 ,2]", "(1 , )", "{'a' :1}", "-1.5e-7", "1e+22", "1.5e300", "1e-5", "0.1", "-0.0", "5e-324",
    "1.7976931348623157e+308", "1e308", "01.5", "1e05", "-.5", "1.e5", "1.5.2", "1e5e5", "5+3", "1-2", "-", "-a",
    "[-1, -2.5]", "(-1,)", "{-1: -2}", "[None, True, False]", "[none]", "true", "NONE", "set( )", "set ()",
    "{*()}", "[*[1]]", "f'a'", "'\\ud800'", "'\\udfff\\ud800'", "'\\U0010ffff'", "'\\U00110000'", "'\\xZZ'",
    "'\\'\"'", "\"'\\\"\"", "'\\\\'", "'\\\\\\''", "''", "\"\"", "'\\t\\n\\r'", "'\\x00\\x7f'", "' '",
    "123456789012345678901234567890", "-99999999999999999999", "[[[[[[[[[[1]]]]]]]]]]", "((((((((1,),),),),),),),)",
    "{(1, 2): [3, {4: (5,)}], 'k': {6, 7}}", "{1: {2: {3: {4: {}}}}}", "[(), [], {}, set(), '', 0]",
]


def _mutate(s, rng):
    alpha = "'\"\\,:[](){} 0179.e+-xnuU_N"
    if not s:
        return rng.choice(alpha)
    i = rng.randrange(len(s))
    r = rng.random()
    if r < 0.4:
        return s[:i] + s[i + 1:]
    if r < 0.75:
        return s[:i] + rng.choice(alpha) + s[i:]
    return s[:i] + rng.choice(alpha) + s[i + 1:]


def _gen_case(rng, kind="value"):
    nv = rng.choice([1, 2, 3, 3, 4])
    vars_ = []
    for i in range(nv):
        v = _rand_val(rng, rng.choice([0, 1, 2, 3]))
        vars_.append([f"k{i}", _text(v, rng, fancy=rng.random() < 0.4)])
    cli = []
    for i in range(nv + 1):
        if rng.random() < 0.3:
            cli.append([f"k{i}", _text(_rand_val(rng, rng.choice([0, 1, 2])), rng, fancy=False)])
    lits = []
    for _ in range(rng.choice([0, 1, 2, 3])):
        base = repr(_rand_val(rng, rng.choice([0, 1, 2])))
        r = rng.random()
        if r < 0.25:
            lits.append(base)
        elif r < 0.8:
            lits.append(_mutate(base, rng))
        else:
            lits.append(_mutate(_mutate(base, rng), rng))
    return {"kind": kind, "vars": vars_, "cli": cli, "lits": lits}


def _special_case(rng):
    """values outside the modelled types (oracle only) or refused at first start"""
    pool = ["1e999", "-1e999", "[1, 1e999]", "{'a': -1e999}", "(1e999,)", "1e999j", "1+1e999j",
            "...", "[...]", "(1, ...)", "b'a\\xff\\n'", "b''", "[b'x', 1]", "1+2j", "-3.5j", "(1-0j)", "{1j: 2}",
            "{1, 1e999}"]
    vars_ = [["k0", rng.choice(pool)]]
    if rng.random() < 0.5:
        vars_.append(["k1", _text(_rand_val(rng, 1), rng, False)])
    return {"kind": "special", "vars": vars_, "cli": [], "lits": []}


class TvarsStream(Stream):
    name = "tvars"
    coq_import = "From Cylc Require Import Model.PyLit."
    check_fn = "PyLit.check_case"
    show_fn = "PyLit.model_out"
    rule = ("random Python literal values (None/bool/int incl. 300-bit/float from random 64-bit patterns/str over ASCII, "
            "quotes, backslash, control, Latin-1, BMP incl. surrogates and non-printables, astral/nested list, tuple, set, "
            "dict to depth 3), written as CLI literals in canonical and non-canonical spellings, passed through the real "
            "load_template_vars -> put_workflow_template_vars -> DB -> load_workflow_params_and_tmpl_vars/_load_template_vars "
            "with CLI overrides, plus get_template_vars_from_db; mutated and hand-written literal texts through eval_var; "
            "non-trivial = some value is a container or a string needing an escape or a non-integer number")
    n_hashseeds = 6
    shard_size = 30
    needs_scratch_home = True

    def corpus(self):
        # the witness-* cases are the former findings (fixed in /repo 7f9125e: eval_var refuses
        # them at first start); they stay as regression cases: if such a value is accepted again
        # and cannot be restored the oracle fails with the (now "fixed") signature
        return [
            {"kind": "witness-inf", "vars": [["k0", "1e999"]], "cli": [], "lits": ["inf"]},
            {"kind": "witness-inf-nested", "vars": [["k0", "[1, -1e999]"], ["k1", "2"]], "cli": [], "lits": []},
            {"kind": "witness-ellipsis", "vars": [["k0", "..."]], "cli": [], "lits": []},
            {"kind": "hand", "vars": [["k0", "{'a\\'\"\\\\': [1, 2.5, None, True, (1,), (), set(), {1, 2}, {}]}"],
                                      ["k1", "'\\x00\\x7f\\xa0\\xad\\u2028\\ud800\\U0001f600\\U000e0001'"]],
             "cli": [["k1", "'override'"], ["k9", "[1]"]], "lits": _HAND_LITS[:60]},
            {"kind": "hand", "vars": [["k0", "10**2" if False else "100"]], "cli": [], "lits": _HAND_LITS[60:]},
        ]

    def gen(self, rng, tier):
        n = 150 if tier == "quick" else 5000
        cases = []
        for _ in range(n):
            if rng.random() < 0.08:
                cases.append(_special_case(rng))
            else:
                cases.append(_gen_case(rng))
        return cases

    # -- implementation driver ---------------------------------------------------
    def impl(self, cases):
        import os
        import shutil
        import sqlite3
        import tempfile
        import types
        from pathlib import Path
        import cylc.flow
        from cylc.flow.exceptions import InputError
        from cylc.flow.scheduler import Scheduler
        from cylc.flow.templatevars import eval_var, load_template_vars, get_template_vars_from_db
        from cylc.flow.workflow_db_mgr import WorkflowDatabaseManager

        numtok = re.compile(r"[-0-9.e+]+")

        def lit_result(text):
            try:
                return {"ok": canon(eval_var(text))}
            except InputError:
                return {"err": "InputError"}

        def run_case(c):
            res = {}
            pairs = [f"{k}={t}" for k, t in c["vars"]]
            res["rejected"] = []
            try:
                tv = load_template_vars(template_vars=pairs)
            except InputError:
                # the first start is refused as a whole: find the offending
                # variables and start again with the accepted ones only
                ok = []
                for k, t in c["vars"]:
                    try:
                        load_template_vars(template_vars=[f"{k}={t}"])
                        ok.append(f"{k}={t}")
                    except InputError:
                        res["rejected"].append([k, t])
                tv = load_template_vars(template_vars=ok)
            res["orig"] = [[k, canon(v)] for k, v in tv.items()]
            d = tempfile.mkdtemp(prefix="c37-")
            try:
                run_dir = os.path.join(d, "run")
                pri_d = os.path.join(run_dir, ".service")
                pub_d = os.path.join(run_dir, "log")
                os.makedirs(pri_d)
                os.makedirs(pub_d)
                mgr = WorkflowDatabaseManager(pri_d, pub_d)
                mgr.on_workflow_start(is_restart=False)
                mgr.put_workflow_params_1(mgr.KEY_CYLC_VERSION, cylc.flow.__version__)
                mgr.put_workflow_template_vars(tv)
                mgr.process_queued_ops()
                mgr.on_workflow_shutdown()
                con = sqlite3.connect(os.path.join(pri_d, "db"))
                rows = [list(r) for r in con.execute("SELECT key, value FROM workflow_template_vars")]
                con.close()
                res["rows"] = [[k, [ord(ch) for ch in s], lit_result(s)] for k, s in rows]
                # restart: the real loader with a stand-in for the Scheduler object
                mgr2 = WorkflowDatabaseManager(pri_d, pub_d)
                cli = load_template_vars(template_vars=[f"{k}={t}" for k, t in c["cli"]])
                res["cli"] = [[k, canon(v)] for k, v in cli.items()]
                fake = types.SimpleNamespace(workflow_db_mgr=mgr2, template_vars=cli)
                fake._load_template_vars = types.MethodType(Scheduler._load_template_vars, fake)
                try:
                    Scheduler.load_workflow_params_and_tmpl_vars(fake)
                    res["restart"] = [[k, canon(v)] for k, v in fake.template_vars.items()]
                except InputError:
                    res["restart"] = None
                # the other reader of the stored values (public DB)
                try:
                    got = get_template_vars_from_db(Path(run_dir))
                    res["from_db"] = [[k, canon(v)] for k, v in got.items()]
                except InputError:
                    res["from_db"] = None
            finally:
                shutil.rmtree(d, ignore_errors=True)
            res["lits"] = [[[ord(ch) for ch in t], lit_result(t)] for t in c["lits"]]
            # interpreter facts used to instantiate the model's Section variables
            texts = [s for _, s in rows] + list(c["lits"]) + [t for _, t in res["rejected"]]
            chars = set()
            for t in texts:
                chars.update(t)
            for _, cv in res["orig"] + res["cli"]:
                for x in _walk(cv):
                    if x[0] == "s":
                        chars.update(chr(o) for o in x[1])
            res["nonprint"] = sorted(ord(ch) for ch in chars if ord(ch) >= 128 and not ch.isprintable())
            ftab = {}
            for t in texts:
                for tok in numtok.findall(t):
                    try:
                        ftab[tok] = repr(float(tok))
                    except ValueError:
                        pass
            res["ftab"] = sorted(ftab.items())
            return res

        out = []
        for c in cases:
            try:
                out.append(run_case(c))
            except Exception as e:  # noqa
                out.append({"exc": f"{type(e).__name__}: {e}"})
        return out

    # -- Gallina terms --------------------------------------------------------------
    def _cv(self, c):
        t = c[0]
        if t == "n":
            return "VNone"
        if t == "b":
            return f"(VBool {q.cbool(c[1])})"
        if t == "i":
            return f"(VInt {q.cz(int(c[1]))})"
        if t == "f":
            return f"(VFloat {q.ccodes(c[1])})"
        if t == "s":
            return f"(VStr {q.clist(q.cz(o) for o in c[1])})"
        if t in ("l", "t", "S"):
            ctor = {"l": "VList", "t": "VTuple", "S": "VSet"}[t]
            return f"({ctor} {q.clist(self._cv(x) for x in c[1])})"
        if t == "d":
            return f"(VDict {q.clist(q.cpair(self._cv(k), self._cv(x)) for k, x in c[1])})"
        raise ValueError(c)

    def _clit(self, r):
        if "err" in r:
            return "LErr"
        if not _modelled(r["ok"]):
            return "LOther"
        return f"(LOk {self._cv(r['ok'])})"

    @staticmethod
    def _key(k):
        return q.cnat(int(k[1:]))

    def coq_case(self, c, r):
        if "exc" in r:
            return None
        orig = dict((k, v) for k, v in r["orig"])
        if not all(_modelled(v) for v in orig.values()) or not all(_modelled(v) for _, v in r["cli"]):
            return None
        if r["restart"] is not None and not all(_modelled(v) for _, v in r["restart"]):
            return None
        vars_ = q.clist(q.ctuple(self._key(k), self._cv(orig[k]), q.clist(q.cz(o) for o in s), self._clit(back))
                        for k, s, back in r["rows"])
        cli = q.clist(q.cpair(self._key(k), self._cv(v)) for k, v in r["cli"])
        restart = q.copt(r["restart"], lambda tv: q.clist(q.cpair(self._key(k), self._cv(v)) for k, v in tv))
        lits = q.clist(q.cpair(q.clist(q.cz(o) for o in t), self._clit(lr)) for t, lr in r["lits"])
        ftab = q.clist(q.cpair(q.ccodes(a), q.ccodes(b)) for a, b in r["ftab"])
        rejected = q.clist(q.ccodes(t) for _, t in r["rejected"])
        return q.crecord(c_nonprint=q.clist(q.cz(x) for x in r["nonprint"]), c_ftab=ftab, c_vars=vars_,
                         c_cli=cli, c_restart=restart, c_lits=lits, c_rejected=rejected)

    # -- property oracle ------------------------------------------------------------------
    def _fail(self, c, r):
        """(text, defect classes) of the first property failure, or None"""
        if "exc" in r:
            return "unexpected exception: " + r["exc"], []
        if r["rejected"] and c.get("kind") in ("value", "hand"):
            # every generated value of these kinds has finite floats and modelled types
            return (f"a restorable literal was refused at first start: {r['rejected'][0][1]!r}"), []
        orig = dict((k, v) for k, v in r["orig"])
        if sorted(k for k, _, _ in r["rows"]) != sorted(orig):
            return f"stored keys {sorted(k for k, _, _ in r['rows'])} differ from the accepted variables {sorted(orig)}", []
        for k, s, back in r["rows"]:
            txt = "".join(map(chr, s))
            if "err" in back:
                return (f"variable {k}: accepted at first start, stored as {txt!r}, cannot be read back on restart "
                        f"({back['err']})"), _defect_class(orig[k])
            if not canon_same(orig[k], back["ok"]):
                return f"variable {k}: stored as {txt!r}, read back as a different value/type", _defect_class(orig[k])
        cli = dict((k, v) for k, v in r["cli"])
        want = dict(orig)
        want.update(cli)
        bad = sorted(set().union(*[set(_defect_class(v)) for k, v in orig.items() if k not in cli] or [set()]))
        if r["restart"] is None:
            return "restart failed with InputError although every stored variable can be read back", bad
        got = dict((k, v) for k, v in r["restart"])
        if sorted(got) != sorted(want):
            return f"restart: variables {sorted(got)} expected {sorted(want)}", []
        for k in want:
            if not canon_same(want[k], got[k]):
                return (f"restart: variable {k} is {got[k]} expected {want[k]} "
                        f"({'command line value must win' if k in cli else 'stored value'})"), []
        if r["from_db"] is None:
            return "get_template_vars_from_db failed with InputError", bad
        got = dict((k, v) for k, v in r["from_db"])
        if sorted(got) != sorted(orig) or not all(canon_same(orig[k], got[k]) for k in orig):
            return "get_template_vars_from_db returned different variables", []
        return None

    def oracle(self, c, r):
        f = self._fail(c, r)
        return f[0] if f else None

    def classify(self, c, r, failure):
        f = self._fail(c, r)
        if f and f[1] == ["nonfinite-float"]:
            return "tvars:nonfinite-float"
        if f and f[1] == ["ellipsis"]:
            return "tvars:ellipsis"
        return super().classify(c, r, failure)

    def key(self, c, r):
        if "exc" in r:
            return None
        for _, v in r["orig"]:
            for x in _walk(v):
                if x[0] in ("l", "t", "S", "d", "f", "o"):
                    return super().key(c, r)
                if x[0] == "s" and any(o < 32 or o > 126 or o in (39, 34, 92) for o in x[1]):
                    return super().key(c, r)
        return None

    def shrink(self, c):
        for i in range(len(c["vars"])):
            if len(c["vars"]) > 1:
                yield dict(c, vars=c["vars"][:i] + c["vars"][i + 1:])
        if c["cli"]:
            yield dict(c, cli=[])
        if c["lits"]:
            yield dict(c, lits=[])


STREAMS = [TvarsStream()]

META = {
    "level_text": (
        "Coq theorems over Model/PyLit.v: every value ACCEPTED by eval_var at first start (None, bool, int of any size, "
        "float, str over all code points with any quotes/backslashes/control/non-printable characters, list/tuple/set/dict "
        "nested to any depth; no finiteness hypothesis) is read back from its stored repr as the identical value and is "
        "accepted again (c37_roundtrip: inversion proof 'whatever repr(v) parses to is v' by induction over the nested "
        "value, incl. the quote-choice and \\x/\\u/\\U escape algorithm); the acceptance check refuses no value with finite "
        "floats (c37_finite_values_accepted: the forward print/parse round trip); the restart loader restores every "
        "accepted variable and a variable given again on the command line wins and is not evaluated "
        "(c37_restart_restores_and_cli_wins, c37_cli_precedence); inf is refused at first start whatever float() does "
        "(c37_nonfinite_rejected). The model is tied to the code by differential runs: generated literals through the real "
        "load_template_vars -> put_workflow_template_vars -> sqlite -> Scheduler.load_workflow_params_and_tmpl_vars/"
        "_load_template_vars (and get_template_vars_from_db); model repr = text found in the DB, model eval_var = real "
        "eval_var result, model restart = observed template_vars, texts refused at first start are refused by the model; "
        "mutated and hand-written texts check that whenever the model accepts, eval_var returns that value."),
    "level_note": (
        "CPython's float repr/float() and str.isprintable are Section variables with hypothesis H_float, instantiated per case "
        "from the interpreter; the parser model covers the canonical spelling only (None on other spellings claims nothing); "
        "bytes and complex values are outside the model (oracle only). The two former findings (non-finite floats, Ellipsis: "
        "accepted but not restorable) are fixed in /repo 7f9125e and kept as regression witnesses."),
    "technique": "Coq proof (print/parse inversion and round trip by nested induction, fuel = text length) + in-Coq "
                 "differential correspondence on the real put/reload path + value-identity oracle",
    "design_ref": "5/C37",
}
