"""C24 — restricted expression evaluation cannot run arbitrary code
(cylc/flow/util.py restricted_evaluator, task_outputs.CompletionEvaluator,
host_select.RankingExpressionEvaluator)."""
import json

from vp.core import Stream
from vp import coqfmt as q

GEN = ["eval_whitelist"]

TRUSTED = [
    "hand model Model/RestrictedEval.v of restricted_evaluator/RestrictedNodeVisitor (pre-order visit, whitelist test, "
    "then eval) and of CPython's evaluation of BoolOp/Name trees",
    "CPython's ast.parse / compile / eval and ast.NodeVisitor.generic_visit field order (the driver serialises the tree "
    "that ast.parse produced; the model is compared with the real outcome on it)",
    "Gen/EvalWhitelist.v is regenerated from the whitelist tuple found in the closure of the running evaluators",
    "canary instrumentation in the harness (recording objects, wrapped builtins.open/__import__)",
]
ASSUMES = [
    "every BinOp node has an ast.operator child (CPython grammar; checked on every case)",
    "error_class and the supplied variables' own methods are not attacker-controlled",
]

# identifiers <-> numbers (0 = __debug__, 1 = __builtins__)
VOCAB = ["__debug__", "__builtins__", "a", "b", "c", "d", "e", "x", "open", "__import__", "print", "len", "eval",
         "exec", "getattr", "globals", "__name__", "__class__", "real", "k"]
NAME_ID = {n: i for i, n in enumerate(VOCAB)}
OTHER_ID = 99
SUPPLIED = ["a", "b", "c", "d"]
CANARY_FILE = "/var/tmp/w-c24-canary-file"

SAFE6 = {"Expression", "Name", "Load", "BoolOp", "And", "Or"}
# never acceptable to any of cylc's evaluators
DANGEROUS = {"Call", "Lambda", "ListComp", "SetComp", "DictComp", "GeneratorExp", "NamedExpr",
             "Await", "Yield", "YieldFrom", "comprehension", "arguments", "keyword"}

TEMPLATES = {
    "call1": "len({0})", "callf": "{0}({1})", "kwcall": "{0}(k={1})", "starcall": "{0}(*{1})",
    "import": "__import__('os')", "importsys": "__import__('os').system('true')",
    "open": "open('" + CANARY_FILE + "', 'w')", "evalcall": "eval('1')",
    "attr": "{0}.real", "dunder": "{0}.__class__", "sub": "{0}[0]", "subx": "{0}[{1}]", "slice": "{0}[1:2]",
    "lambda": "lambda: {0}", "lamcall": "(lambda: {0})()", "lamarg": "lambda x: {0}",
    "listcomp": "[x for x in {0}]", "setcomp": "{{x for x in {0}}}", "dictcomp": "{{x: x for x in {0}}}",
    "genexp": "(x for x in {0})", "walrus": "(x := {0})",
    "fstr": "f'{{{0}}}'", "fstr2": "f'{{{0}!r:>{{{1}}}}}'",
    "c_int": "1", "c_str": "'s'", "c_none": "None", "c_true": "True", "c_ell": "...",
    "add": "{0} + {1}", "minus": "{0} - {1}", "mul": "{0} * {1}", "matmul": "{0} @ {1}", "pow": "{0} ** {1}",
    "neg": "-{0}", "not": "not {0}", "lt": "{0} < {1}", "chain": "{0} < {1} <= {0}", "is": "{0} is {1}",
    "in": "{0} in {1}", "ifexp": "{0} if {1} else {0}", "list": "[{0}, {1}]", "tuple": "({0}, {1})",
    "dict": "{{{0}: {1}}}", "set": "{{{0}}}", "star": "[*{0}]", "await": "await {0}",
    "yield": "(yield {0})", "yieldfrom": "(yield from {0})",
    "subclasses": "().__class__.__bases__[0].__subclasses__()",
    # parents with one hole: the forbidden node goes BENEATH them
    "p_attr": "{0}.real", "p_attr2": "{0}.real.imag", "p_attrcount": "{0}.count", "p_sub": "{0}[0]",
    "p_subidx": "a[{0}]", "p_add": "{0} + 1", "p_radd": "1 + {0}", "p_mul": "{0} * b", "p_neg": "-{0}",
    "p_not": "not {0}", "p_lt": "{0} < 1", "p_rlt": "1 < {0}", "p_chain": "a < b < {0}", "p_eq": "{0} == 0",
    "p_in": "{0} in (1, 2)", "p_list": "[{0}, 1]", "p_tuple": "(1, {0})", "p_and": "{0} and a", "p_or": "b or {0}",
    "p_ifexp": "a if {0} else b", "p_callarg": "a({0})", "p_callfunc": "{0}(1)", "p_callkw": "a(k={0})",
    "p_attrcmp": "{0}.available == 0",
    # leaves: nodes that most whitelists forbid
    "l_call": "a()", "l_call1": "b(1)", "l_walrus": "(x := c)", "l_walruscall": "(x := a())",
    "l_listcomp": "[a() for _ in (1, 2)]", "l_lamcall": "(lambda: 7)()", "l_lambda": "lambda: a",
    "l_import": "__import__('os')", "l_open": "open('" + CANARY_FILE + "', 'w')", "l_attr": "a.real",
    "l_dunder": "a.__class__", "l_sub": "a[0]", "l_const": "1", "l_add": "a + b", "l_not": "not a",
    "l_and": "a and b", "l_cmp": "a < b", "l_method": "a.poke(1)", "l_replace": "a._replace(available=0)",
    "l_genexp": "(x for x in a)", "l_fstr": "f'{{a}}'", "l_await": "await a", "l_ifexp": "a if b else c",
    "l_dict": "{{a: b}}", "l_starred": "[*a]", "l_tuple": "(a, b)", "l_debug": "__debug__", "l_builtins": "__builtins__",
}
PARENTS = sorted(k for k in TEMPLATES if k.startswith("p_"))
LEAVES = sorted(k for k in TEMPLATES if k.startswith("l_"))
ARITY = {k: (2 if "{1}" in v else 1 if "{0}" in v else 0) for k, v in TEMPLATES.items()}

CUSTOM_WHITELISTS = [
    ["Expression", "Name", "Load", "BoolOp", "And", "Or"],
    ["Expression", "Name", "Load", "BoolOp", "And", "Or", "UnaryOp", "Not"],
    ["Expression", "BinOp", "Add", "Constant", "Name", "Load"],
    ["Expression", "Name", "Load", "BoolOp", "boolop", "BinOp", "operator"],
    ["Expression", "expr", "expr_context", "boolop"],
    ["Expression", "Name", "Load", "BoolOp", "And"],
    ["Name", "Load", "BoolOp", "And", "Or"],
    ["Expression", "Name", "BoolOp", "And", "Or"],
    ["Expression", "Name", "Load", "BoolOp", "And", "Or", "Compare", "cmpop", "IfExp", "Tuple", "List"],
    # generic evaluators that whitelist attribute access / subscripts / calls
    ["Expression", "Name", "Load", "Attribute", "Constant"],
    ["Expression", "Name", "Load", "Attribute", "Subscript", "Constant", "BoolOp", "And", "Or", "Compare", "cmpop"],
    ["Expression", "Name", "Load", "Attribute", "Call", "keyword", "Constant"],
]
# the production whitelists as they are expected to be (only used to AIM the nested generator:
# which parents are whitelisted; the oracle does not depend on it)
AIM_WHITELISTS = {
    "completion": ["Expression", "Name", "Load", "BoolOp", "And", "Or", "BinOp"],
    "ranking": ["Expression", "Name", "Load", "Attribute", "Subscript", "BinOp", "operator", "UnaryOp", "unaryop",
                "Constant", "Compare", "cmpop", "List", "Tuple"],
}

MALFORMED = ["", "a and", "(a", "a)", "a b", "a;b", "a\nb", "import os", "x = 1", "a and # c", "a &&  b",
             "lambda", "a if b", "[x for]", "f'{a'", "a and\nb", "1 +", "def f(): pass", "a = b or c",
             "yield", "*a", "a := b", "print 'x'"]


def render(r):
    if r[0] == "n":
        return r[1]
    if r[0] in ("and", "or"):
        return (" %s " % r[0]).join("(" + render(x) + ")" if x[0] != "n" else render(x) for x in r[1])
    args = ["(" + render(x) + ")" for x in r[2]]
    return TEMPLATES[r[1]].format(*args)


def _rand_safe(rng, depth, names):
    if depth <= 0 or rng.random() < 0.35:
        return ["n", rng.choice(names)]
    return [rng.choice(["and", "or"]), [_rand_safe(rng, depth - 1, names) for _ in range(rng.randint(2, 3))]]


def _rand_unsafe(rng, depth, names):
    t = rng.choice(sorted(TEMPLATES))
    return ["t", t, [_rand_mixed(rng, depth - 1, names, 0.25) for _ in range(ARITY[t])]]


def _rand_mixed(rng, depth, names, p_unsafe):
    if depth <= 0:
        return ["n", rng.choice(names)]
    r = rng.random()
    if r < p_unsafe:
        return _rand_unsafe(rng, depth, names)
    if r < p_unsafe + 0.3:
        return ["n", rng.choice(names)]
    return [rng.choice(["and", "or"]),
            [_rand_mixed(rng, depth - 1, names, p_unsafe) for _ in range(rng.randint(2, 3))]]


def _kinds(tree):
    out = [tree[0]]
    for c in tree[2]:
        out.extend(_kinds(c))
    return out


def _nodes(tree):
    out = [(tree[0], tree[1])]
    for c in tree[2]:
        out.extend(_nodes(c))
    return out


RESERVED = (0, 1)    # __debug__, __builtins__: resolve without being supplied -> must be rejected


def _ref_eval(tree, env):
    """Reference evaluation of a BoolOp/Name tree per the property text: only the
    supplied variables exist.  Returns ('val', id) | ('nameerror', id) | None (outside fragment)."""
    k, ident, cs = tree
    if k == "Expression":
        return _ref_eval(cs[0], env)
    if k == "Name":
        return ("val", ident) if ident in env else ("nameerror", ident)
    if k == "BoolOp":
        is_and = cs[0][0] == "And"
        last = None
        for c in cs[1:]:
            last = _ref_eval(c, env)
            if last is None or last[0] != "val":
                return last
            if env[last[1]] != is_and:
                return last
        return last
    return None


def _aim_tables():
    """For every evaluator: templates all of whose own nodes are whitelisted (ok parents) and leaf
    templates containing a node that is not (forbidden leaves).  Uses the ast module of the
    interpreter running the check (the same CPython that runs cylc)."""
    import ast
    kinds_all = [n for n in dir(ast) if isinstance(getattr(ast, n), type)
                 and issubclass(getattr(ast, n), ast.AST) and getattr(ast, n).__name__ == n]

    def expand(raw):
        bases = tuple(getattr(ast, n) for n in raw)
        return {k for k in kinds_all if issubclass(getattr(ast, k), bases)}

    def tkinds(t):
        txt = TEMPLATES[t].format("(a)", "(b)")
        tree = ast.parse(txt, mode="eval")
        ks = {type(n).__name__ for n in ast.walk(tree)}
        res = {n.id for n in ast.walk(tree) if isinstance(n, ast.Name)} & {"__debug__", "__builtins__"}
        return ks, bool(res)

    tk = {t: tkinds(t) for t in PARENTS + LEAVES}
    evs = dict(AIM_WHITELISTS)
    for i, raw in enumerate(CUSTOM_WHITELISTS):
        evs[f"custom:{i}"] = raw
    out = {}
    for ev, raw in evs.items():
        wl = expand(raw)
        ok_parents = [t for t in PARENTS if tk[t][0] <= wl]
        bad_leaves = [t for t in LEAVES if not (tk[t][0] <= wl) or tk[t][1]]
        out[ev] = (ok_parents, bad_leaves)
    return out


def _nested(rng, tier):
    """Forbidden nodes nested beneath chains of whitelisted parents, for every evaluator."""
    cases = []
    for ev, (parents, leaves) in sorted(_aim_tables().items()):
        if not parents or not leaves:
            continue

        def wrap(leaf, chain):
            r = ["t", leaf, []]
            for p in chain:
                r = ["t", p, [r]]
            return r

        def add(rec):
            env = {v: rng.random() < 0.5 for v in SUPPLIED}
            cases.append({"evaluator": ev, "recipe": rec, "env": env, "kind": "nested"})
        if tier == "thorough":
            for p in parents:
                for lf in leaves:
                    add(wrap(lf, [p]))
            n_deep = 150
        else:
            for p in parents:
                add(wrap(rng.choice(leaves), [p]))
            n_deep = 4
        for _ in range(n_deep):
            add(wrap(rng.choice(leaves), [rng.choice(parents) for _ in range(rng.randint(2, 4))]))
    return cases


class EvalStream(Stream):
    name = "eval"
    coq_import = "From Cylc Require Import Gen.EvalWhitelist Model.RestrictedEval."
    check_fn = "RestrictedEval.check_case"
    show_fn = "RestrictedEval.model_out"
    rule = ("generated expression texts: BoolOp/Name trees (supplied, unsupplied and builtin names) mixed with calls, "
            "attribute access, subscripts, lambdas, comprehensions, walrus, f-strings, constants, operators, await/yield "
            "at random positions, plus syntactically malformed texts; run through the real CompletionEvaluator, "
            "RankingExpressionEvaluator and restricted_evaluator with 12 other whitelists (incl. abstract base classes and ones with "
            "Attribute/Subscript/Call); for every evaluator, forbidden nodes are also nested beneath every whitelisted parent kind "
            "(attribute access, subscript, operators, comparisons, containers, calls; chains up to depth 4); "
            "variables bound to recording objects, builtins.open/__import__ wrapped; non-trivial = tree with >= 4 nodes")
    shard_size = 300
    n_hashseeds = 4

    def corpus(self):
        env = {"a": True, "b": False, "c": True, "d": False}
        mk = lambda ev, r, **kw: dict({"evaluator": ev, "recipe": r, "env": env}, **kw)  # noqa
        return [
            # regression (fixed findings, 9296d0f): __debug__ / __builtins__ must be rejected, not resolved
            mk("completion", ["n", "__debug__"], kind="debug"),
            mk("completion", ["or", [["n", "b"], ["n", "__debug__"]]], kind="debug"),
            mk("completion", ["n", "__builtins__"], kind="builtins-name"),
            mk("completion", ["or", [["n", "__builtins__"], ["n", "c"]]], kind="builtins-name"),
            mk("ranking", ["n", "__debug__"], kind="debug"),
            mk("custom:4", ["t", "sub", [["n", "__builtins__"]]], kind="builtins-name"),
            mk("completion", ["and", [["n", "a"], ["t", "import", []]]]),
            mk("completion", ["and", [["n", "a"], ["n", "b"], ["t", "open", []]]]),
            mk("completion", ["or", [["n", "b"], ["t", "callf", [["n", "a"], ["n", "c"]]]]]),
            mk("completion", ["t", "add", [["n", "a"], ["n", "b"]]]),
            mk("completion", ["t", "add", [["t", "call1", [["n", "a"]]], ["n", "b"]]]),
            mk("completion", ["n", "open"]),
            mk("completion", ["or", [["n", "b"], ["n", "__import__"]]]),
            mk("completion", ["or", [["n", "a"], ["n", "__builtins__"]]]),
            mk("ranking", ["t", "importsys", []]),
            mk("ranking", ["t", "subclasses", []]),
            mk("ranking", ["t", "lt", [["t", "attr", [["n", "a"]]], ["t", "c_int", []]]]),
            mk("custom:2", ["t", "add", [["t", "c_int", []], ["t", "c_int", []]]]),
            mk("custom:2", ["t", "minus", [["t", "c_int", []], ["t", "c_int", []]]]),
            mk("custom:4", ["t", "open", []]),
            # accepted by an `expr` wildcard whitelist, then compile() fails before anything is evaluated
            mk("custom:4", ["or", [["n", "globals"], ["n", "a"], ["t", "await", [["n", "b"]]]]]),
            mk("custom:4", ["or", [["n", "c"], ["t", "yield", [["n", "b"]]]]]),
            {"evaluator": "completion", "text": "a and", "env": env, "kind": "malformed"},
            # forbidden nodes beneath attribute access (seeded regression: visit_Attribute without generic_visit)
            mk("ranking", ["t", "p_attr", [["t", "l_call", []]]], kind="nested"),
            mk("ranking", ["t", "p_lt", [["t", "p_attr", [["t", "l_walruscall", []]]]]], kind="nested"),
            mk("ranking", ["t", "p_attrcount", [["t", "l_listcomp", []]]], kind="nested"),
            mk("ranking", ["t", "p_attr", [["t", "l_lamcall", []]]], kind="nested"),
            mk("ranking", ["t", "p_attrcmp", [["t", "l_replace", []]]], kind="nested"),
            mk("custom:9", ["t", "p_attr", [["t", "l_call", []]]], kind="nested"),
            mk("custom:10", ["t", "p_sub", [["t", "p_attr", [["t", "l_import", []]]]]], kind="nested"),
            mk("custom:11", ["t", "p_callfunc", [["t", "l_lambda", []]]], kind="nested"),
            mk("ranking", ["t", "p_attr", [["n", "a"]]], kind="nested-ok"),
            mk("ranking", ["t", "dunder", [["n", "a"]]], kind="nested-ok"),
        ]

    def gen(self, rng, tier):
        n = 450 if tier == "quick" else 14000
        cases = []
        for i in range(n):
            env = {v: rng.random() < 0.5 for v in SUPPLIED if rng.random() < 0.9}
            r = rng.random()
            ev = "completion" if r < 0.55 else "ranking" if r < 0.68 else f"custom:{rng.randrange(len(CUSTOM_WHITELISTS))}"
            names = SUPPLIED * 4 + ["e", "open", "__import__", "print", "len", "__builtins__", "__name__", "x",
                                    "__debug__", "globals", "eval"]
            r = rng.random()
            if r < 0.04:
                cases.append({"evaluator": ev, "text": rng.choice(MALFORMED), "env": env, "kind": "malformed"})
                continue
            if r < 0.30:
                rec, kind = _rand_safe(rng, rng.randint(0, 3), names), "safe"
            elif r < 0.85:
                rec, kind = _rand_mixed(rng, rng.randint(1, 3), names, 0.3), "mixed"
            else:
                rec, kind = _rand_unsafe(rng, rng.randint(1, 2), names), "unsafe"
            cases.append({"evaluator": ev, "recipe": rec, "env": env, "kind": kind})
        cases.extend(_nested(rng, tier))
        return cases

    # ---------------------------------------------------------------- impl
    def impl(self, cases):
        import ast
        import builtins
        import inspect  # noqa  (pre-import: _get_exception imports it lazily)
        import os
        import re
        from cylc.flow.util import restricted_evaluator
        from cylc.flow.task_outputs import CompletionEvaluator
        from cylc.flow.host_select import RankingExpressionEvaluator
        from vp.gen.eval_whitelist import PROBE  # noqa  (same closure lookup as the generator)

        log = []

        class Canary:
            def __init__(self, ident, truth):
                object.__setattr__(self, "_i", ident)
                object.__setattr__(self, "_t", truth)

            def __bool__(self):
                log.append(["bool", self._i])
                return self._t

            def __getattr__(self, name):
                log.append(["getattr", self._i, name])
                return self

            def __setattr__(self, name, v):
                log.append(["setattr", self._i, name])

            def __getitem__(self, k):
                log.append(["getitem", self._i])
                return self

            def __call__(self, *a, **k):
                log.append(["call", self._i])
                return self

            def __iter__(self):
                log.append(["iter", self._i])
                return iter(())

            def __contains__(self, x):
                log.append(["contains", self._i])
                return False

            def __format__(self, spec):
                log.append(["format", self._i])
                return "c"

            def __repr__(self):
                log.append(["repr", self._i])
                return "c"

            def __hash__(self):
                log.append(["hash", self._i])
                return 1

            def __eq__(self, o):
                log.append(["eq", self._i])
                return self is o

        def _op(nm):
            def f(self, *a):
                log.append([nm, self._i])
                return self
            return f
        for nm in ("add", "radd", "sub", "rsub", "mul", "rmul", "matmul", "rmatmul", "pow", "rpow", "neg",
                   "lt", "le", "gt", "ge", "truediv", "mod", "invert", "pos", "index"):
            setattr(Canary, f"__{nm}__", _op(nm))

        kinds = sorted(n for n in dir(ast) if isinstance(getattr(ast, n), type)
                       and issubclass(getattr(ast, n), ast.AST) and getattr(ast, n).__name__ == n)

        def expand(raw):
            bases = tuple(getattr(ast, n) for n in raw)
            return [k for k in kinds if issubclass(getattr(ast, k), bases)]

        def closure_wl(ev):
            for cell in (ev.__closure__ or ()):
                v = cell.cell_contents
                if isinstance(v, ast.NodeVisitor) and hasattr(v, "_whitelist"):
                    return [t.__name__ for t in v._whitelist]
            raise RuntimeError("whitelist not found in closure")

        class Rej(Exception):
            def __init__(self, message, error_type=None):
                super().__init__(message)
                self.error_type = error_type

        evaluators = {"completion": (CompletionEvaluator, expand(closure_wl(CompletionEvaluator))),
                      "ranking": (RankingExpressionEvaluator, expand(closure_wl(RankingExpressionEvaluator)))}
        for i, raw in enumerate(CUSTOM_WHITELISTS):
            evaluators[f"custom:{i}"] = (
                restricted_evaluator(*[getattr(ast, n) for n in raw], error_class=Rej), expand(raw))

        def ser(node):
            ident = 0
            if isinstance(node, ast.Name):
                ident = NAME_ID.get(node.id, OTHER_ID)
            cs = []
            for _f, v in ast.iter_fields(node):
                if isinstance(v, list):
                    cs.extend(ser(x) for x in v if isinstance(x, ast.AST))
                elif isinstance(v, ast.AST):
                    cs.append(ser(v))
            return [type(node).__name__, ident, cs]

        real_open, real_import = builtins.open, builtins.__import__
        effects = []

        def w_open(f, *a, **k):
            if f == CANARY_FILE:
                effects.append("open")
            return real_open(f, *a, **k)

        def w_import(name, *a, **k):
            if name in ("os", "subprocess", "sys", "shutil"):
                effects.append("import " + name)
            return real_import(name, *a, **k)

        out = []
        for c in cases:
            try:
                text = c["text"] if "text" in c else render(c["recipe"])
                ev, wl = evaluators[c["evaluator"]]
                try:
                    tree = ser(ast.parse(text.strip(), mode="eval"))
                except SyntaxError:
                    tree = None
                variables = {n: Canary(NAME_ID[n], t) for n, t in c["env"].items()}
                del log[:]
                del effects[:]
                builtins.open, builtins.__import__ = w_open, w_import
                try:
                    try:
                        v = ev(text, **variables)
                        if isinstance(v, Canary):
                            res = {"o": "val", "v": v._i}
                        elif v is True:
                            res = {"o": "true"}
                        elif type(v) is dict and not v:
                            res = {"o": "emptydict"}
                        else:
                            res = {"o": "other", "type": type(v).__name__}
                    except NameError as e:
                        m = re.match(r"name '(\w+)' is not defined", str(e))
                        res = {"o": "nameerror", "n": NAME_ID.get(m.group(1), OTHER_ID) if m else -1}
                    except Exception as e:  # noqa
                        msg = str(e)
                        m = re.search(r'"(\w+)" not permitted\Z', msg)
                        if m and (isinstance(e, Rej) or type(e).__name__ in ("InvalidCompletionExpression", "ValueError")):
                            res = {"o": "rejected", "kind": m.group(1)}
                            if isinstance(e, Rej) and e.error_type != m.group(1):
                                res = {"exc": "error_type does not match the message"}
                        elif tree is None and type(e).__name__ in ("InvalidCompletionExpression", "ValueError", "Rej"):
                            res = {"o": "syntax"}
                        else:
                            res = {"o": "runtime", "type": type(e).__name__}
                finally:
                    builtins.open, builtins.__import__ = real_open, real_import
                res["log"] = list(log)[:50]
                res["effects"] = list(effects)
                if os.path.exists(CANARY_FILE):
                    res["effects"].append("file created")
                    os.unlink(CANARY_FILE)
                res["tree"] = tree
                res["text"] = text
                res["wl"] = wl
                out.append(res)
            except Exception as e:  # noqa
                out.append({"exc": f"{type(e).__name__}: {e}"[:300]})
        return out

    # ---------------------------------------------------------------- model
    def coq_case(self, c, r):
        if "exc" in r:
            return None

        def tree(t):
            return f"(Node {q.cstr(t[0])} {q.cnat(t[1])} {q.clist(tree(x) for x in t[2])})"
        if r["tree"] is not None and len(_kinds(r["tree"])) > 400:
            return None
        o = r["o"]
        impl = {"val": lambda: f"(Val (VObj {q.cnat(r['v'])}))", "true": lambda: "Unsupported", "emptydict": lambda: "Unsupported",
                "nameerror": lambda: f"(NameErr {q.cnat(max(r['n'], 0))})",
                "rejected": lambda: f"(Rejected {q.cstr(r['kind'])})", "syntax": lambda: "SyntaxErr",
                "other": lambda: "Unsupported", "runtime": lambda: "Unsupported"}[o]()
        if c["evaluator"] == "completion":
            wl = "EvalWhitelist.completion_whitelist"
        elif c["evaluator"] == "ranking":
            wl = "EvalWhitelist.ranking_whitelist"
        else:
            wl = q.clist(q.cstr(k) for k in r["wl"])
        tests = [e[1] for e in r["log"] if e[0] == "bool"]
        return q.crecord(
            c_wl=wl, c_ops="EvalWhitelist.operator_kinds",
            c_tree=q.copt(r["tree"], tree),
            c_env=q.clist(q.cpair(q.cnat(NAME_ID[n]), q.cbool(t)) for n, t in sorted(c["env"].items())),
            c_impl_tests=q.clist(q.cnat(i) for i in tests),
            c_impl=impl)

    # ---------------------------------------------------------------- oracle
    def oracle(self, c, r):
        if "exc" in r:
            return "unexpected exception: " + r["exc"]
        if r["effects"]:
            return f"side effect during restricted evaluation of {r['text']!r}: {r['effects']}"
        o, tree = r["o"], r["tree"]
        if tree is None:
            return None if o == "syntax" else f"text that does not parse gave outcome {o}"
        if o == "syntax":
            return "parsable text reported as a syntax error"
        kinds = _kinds(tree)
        allowed = set(r["wl"])
        if c["evaluator"] == "completion":
            allowed = SAFE6 | {"BinOp"}       # fixed by the property, not read from the code
        # a node is bad if its class is not whitelisted, or it is a Name that the interpreter would
        # resolve without its being supplied (`__debug__`, `__builtins__`; fix 9296d0f)
        bad = [k for k, ident in _nodes(tree) if k not in allowed or (k == "Name" and ident in RESERVED)]
        if o == "rejected":
            if r["log"]:
                return f"part of {r['text']!r} was evaluated before it was rejected: {r['log'][:4]}"
            if not bad:
                return f"{r['text']!r} rejected ({r['kind']}) although every node is whitelisted"
            if c["evaluator"] != "completion" and r["kind"] != bad[0]:
                return f"reported {r['kind']} but the first non-whitelisted node in visit order is {bad[0]}"
            if c["evaluator"] == "completion" and r["kind"] not in kinds:
                return f"reported node kind {r['kind']} does not occur in the tree"
            return None
        # accepted and evaluated
        if bad:
            what = "non-whitelisted " + bad[0] if bad[0] not in allowed else "a name that is not a supplied variable (__debug__/__builtins__)"
            return f"{r['text']!r} was evaluated although it contains {what}"
        dang = [k for k in kinds if k in DANGEROUS]
        if dang and c["evaluator"] in ("completion", "ranking"):
            return f"{r['text']!r} containing {dang[0]} was accepted by {c['evaluator']}"
        if c["evaluator"] == "completion":
            if any(k not in SAFE6 for k in kinds):
                return f"{r['text']!r} accepted by CompletionEvaluator but is not an and/or tree over names"
            if any(e[0] != "bool" for e in r["log"]):
                return f"evaluation touched supplied objects other than by truth-testing: {r['log'][:4]}"
            env = {NAME_ID[n]: t for n, t in c["env"].items()}
            ref = _ref_eval(tree, env)
            got = {"val": ("val", r.get("v")), "nameerror": ("nameerror", r.get("n"))}.get(o, (o,))
            if ref != got:
                return (f"{r['text']!r}: only the supplied variables {sorted(c['env'])} should be visible, expected {ref}, "
                        f"got {got}")
        return None

    def key(self, c, r):
        if "exc" in r or r.get("tree") is None or len(_kinds(r["tree"])) < 4:
            return None
        return json.dumps([c["evaluator"], r["text"], sorted(c["env"].items())])

    def classify(self, c, r, failure):
        if "a name that is not a supplied variable" in failure and r.get("o") in ("true", "emptydict"):
            # the findings fixed by 9296d0f
            nm = "__debug__" if r["o"] == "true" else "__builtins__"
            return f"eval:completion:{nm}-resolves-without-being-supplied"
        kind = "effects" if r.get("effects") else r.get("o", "exc")
        return f"eval:{c['evaluator'].split(':')[0]}:{kind}"

    def shrink(self, c):
        if "recipe" not in c:
            return

        def subs(r):
            if r[0] == "n":
                return
            kids = r[1] if r[0] in ("and", "or") else r[2]
            for k in kids:
                yield k
            if r[0] in ("and", "or") and len(kids) > 2:
                for i in range(len(kids)):
                    yield [r[0], kids[:i] + kids[i + 1:]]
            for i, k in enumerate(kids):
                for s in subs(k):
                    nk = kids[:i] + [s] + kids[i + 1:]
                    yield [r[0], nk] if r[0] in ("and", "or") else ["t", r[1], nk]
        for s in subs(c["recipe"]):
            yield dict(c, recipe=s)
        for n in list(c["env"]):
            e = dict(c["env"]); del e[n]
            yield dict(c, env=e)


STREAMS = [EvalStream()]

META = {
    "level_text": (
        "Coq theorems over Model/RestrictedEval.v for every AST (rose tree of node kinds), every whitelist and every "
        "variable binding: an expression is rejected iff some node kind is not whitelisted, the kind reported is the first "
        "such node in NodeVisitor order, a rejected expression yields no evaluation at all (empty access trace, outcome "
        "independent of the variables), evaluation is reached only when every node is whitelisted; with the "
        "CompletionEvaluator whitelist regenerated from /repo every accepted tree consists of Expression/BoolOp/And/Or/"
        "Name/Load only (BinOp can never pass because no operator is whitelisted), its value is one of the supplied "
        "objects (or NameError; `__debug__`/`__builtins__` are rejected by the visitor under every whitelist), depends only on "
        "the variables it names, and the only thing done to them is truth-testing; "
        "no Call/Lambda/comprehension/NamedExpr/Await/Yield is whitelisted by either of cylc's evaluators. Tied to util.py "
        "by in-Coq comparison on generated expressions with side-effect canaries."),
    "level_note": (
        "hand model; CPython's parser/compiler/eval trusted; evaluation semantics modelled only for trees inside the BoolOp/Name "
        "fragment (trees with other whitelisted nodes: accept/reject only)"),
    "technique": "Coq proof (induction over rose trees) + generated whitelist (GEN) + in-Coq differential correspondence + canary oracle",
    "design_ref": "5/C24",
}
