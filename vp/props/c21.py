"""C21 — database writes are atomic and the public database converges
(cylc/flow/rundb.py, cylc/flow/workflow_db_mgr.py)."""
import ast
import hashlib
import json

from vp.core import Stream, REPO
from vp import coqfmt as q

TRUSTED = [
    "hand model Model/Db.v of CylcWorkflowDAOTable.add_*_item, CylcWorkflowDAO.execute_queued_items/_execute_stmt "
    "and WorkflowDatabaseManager.process_queued_ops/recover_pub_from_pri (tables and columns numbered, cell values "
    "option Z mapped by the harness to a value of the column's declared type)",
    "SQLite semantics of single-row DELETE / INSERT OR REPLACE / UPDATE with `==` WHERE clauses, transactions and "
    "rollback (modelled in apply_tbl / exec_queued; validated by the differential run on real sqlite files)",
    "fault injection harness: sqlite3.connect is wrapped (in the test subprocess only) so that the k-th executemany "
    "or the commit raises sqlite3.OperationalError after executing j rows; public-DB locks are real EXCLUSIVE locks",
]
ASSUMES = [
    "update items have the (set_args, where_args) form and do not assign primary-key columns (true of every caller in "
    "workflow_db_mgr.py), so SQL statements fail only for external reasons",
    "a failing private-database write ends the scheduler (process_queued_ops propagates the exception); convergence "
    "theorems are about histories in which private writes succeed",
    "values stored in a column have the column's declared type (no sqlite type-affinity conversion)",
]

MAGIC = -1  # model value of the string 'CYLC_TEMPLATE_VARS'


# ---------------------------------------------------------------------------
# schema, read from the current source text (fail closed)
# ---------------------------------------------------------------------------
def _schema():
    """[(name, [(colname, datatype, is_pk), ...]), ...] in sorted-name order,
    from the TABLES_ATTRS literal of the current /repo source."""
    src = (REPO / "cylc" / "flow" / "rundb.py").read_text()
    tree = ast.parse(src)
    cls = next(n for n in tree.body if isinstance(n, ast.ClassDef) and n.name == "CylcWorkflowDAO")
    consts, attrs = {}, None
    for st in cls.body:
        if isinstance(st, ast.Assign) and len(st.targets) == 1 and isinstance(st.targets[0], ast.Name):
            nm = st.targets[0].id
            if nm == "TABLES_ATTRS":
                attrs = st.value
            elif isinstance(st.value, ast.Constant) and isinstance(st.value.value, str):
                consts[nm] = st.value.value
    if not isinstance(attrs, ast.Dict):
        raise RuntimeError("C21: cannot find the TABLES_ATTRS literal in rundb.py")
    out = {}
    for k, v in zip(attrs.keys, attrs.values):
        name = consts[k.id] if isinstance(k, ast.Name) else ast.literal_eval(k)
        cols = []
        for item in ast.literal_eval(v):
            a = item[1] if len(item) > 1 else {}
            cols.append((item[0], a.get("datatype", "TEXT"), bool(a.get("is_primary_key", False))))
        out[name] = cols
    return sorted(out.items())


def _rowid_alias(cols):
    pk = [c for c in cols if c[2]]
    return len(pk) == 1 and pk[0][1].upper() == "INTEGER"


# ---------------------------------------------------------------------------
# generator
# ---------------------------------------------------------------------------
def _val(rng, cols, ci, allow_none=True, allow_magic=True):
    typ = cols[ci][1].upper()
    r = rng.random()
    if allow_none and r < 0.08:
        return None
    if allow_magic and ci == 0 and typ == "TEXT" and r > 0.97:
        return MAGIC
    return rng.randint(0, 2)


def _gen_op(rng, ti, cols, pkupdate=False, protos=None):
    """one queued operation; cell values mostly come from one of the case's
    prototype rows for the table, so that deletes/updates hit existing rows and
    inserts collide on the primary key"""
    n = len(cols)
    pk = [i for i, c in enumerate(cols) if c[2]]
    nonpk = [i for i in range(n) if i not in pk]
    rowid = _rowid_alias(cols)
    proto = rng.choice(protos) if protos else None

    def val(c, allow_none=True):
        if proto is not None and rng.random() < (0.9 if c in pk else 0.6):
            v = proto[c]
            if v is not None or allow_none:
                return v
        return _val(rng, cols, c, allow_none=allow_none)

    r = rng.random()
    if r < 0.40:       # insert, dict form
        keys = set(pk) if rng.random() < 0.9 else set(rng.sample(pk, rng.randint(0, len(pk))) if pk else [])
        for c in nonpk:
            if rng.random() < 0.6:
                keys.add(c)
        if rowid:
            keys |= set(pk)
        d = []
        for c in sorted(keys):
            none_ok = not (rowid and c in pk) and (c not in pk or rng.random() < 0.1)
            d.append([c, val(c, allow_none=none_ok)])
        rng.shuffle(d)
        return ["insd", ti, d]
    if r < 0.50:       # insert, list form (short lists are padded, long ones cut)
        ln = rng.choice([n, n, n, max(1, n - 1), n + 2, max(1, len(pk)), rng.randint(1, n)])
        l = []
        for c in range(ln):
            cc = min(c, n - 1)
            none_ok = not (rowid and cc in pk) and (cc not in pk or rng.random() < 0.1)
            l.append(val(cc, allow_none=none_ok))
        return ["insl", ti, l]
    if r < 0.75:       # delete
        r2 = rng.random()
        if r2 < 0.06:
            w = []
        elif r2 < 0.6 and pk:
            w = [[c, val(c, allow_none=False)] for c in pk]
        else:
            cs = rng.sample(range(n), rng.randint(1, min(3, n)))
            w = [[c, val(c, allow_none=rng.random() < 0.3)] for c in sorted(cs)]
        rng.shuffle(w)
        return ["del", ti, w]
    # update
    pool = list(range(n)) if pkupdate else nonpk
    if not pool:
        return ["del", ti, [[c, val(c, allow_none=False)] for c in pk]]
    sc = rng.sample(pool, rng.randint(1, min(2, len(pool))))
    s = [[c, _val(rng, cols, c, allow_none=not (rowid and c in pk))] for c in sc]
    r2 = rng.random()
    if r2 < 0.1:
        w = []
    elif r2 < 0.7 and pk:
        w = [[c, val(c, allow_none=False)] for c in pk]
    else:
        cs = rng.sample(range(n), rng.randint(1, min(2, n)))
        w = [[c, val(c, allow_none=rng.random() < 0.2)] for c in sorted(cs)]
    return ["upd", ti, s, w]


def _protos(rng, cols):
    rowid = _rowid_alias(cols)
    out = []
    for _ in range(rng.randint(2, 3)):
        out.append([_val(rng, cols, c, allow_none=(not cols[c][2]) and rng.random() < 0.5, allow_magic=False)
                    for c in range(len(cols))])
    return out


def _gen_case(rng, schema, kind="valid", n_lock=1):
    nt = len(schema)
    withpk = [i for i, (_, c) in enumerate(schema) if any(x[2] for x in c)]
    nopk = [i for i in range(nt) if i not in withpk]
    tabs = set(rng.sample(withpk, rng.randint(1, 2)))
    if nopk and rng.random() < 0.6:
        tabs.add(rng.choice(nopk))
    tabs = sorted(tabs)
    protos = {ti: _protos(rng, schema[ti][1]) for ti in tabs}
    mx = rng.choice([2, 2, 3, 3, 4, 100])
    events = []
    n_ev = rng.randint(2, 7)
    p_pub = rng.choice([0.0, 0.3, 0.5, 0.8])
    locks_left = n_lock
    for _ in range(n_ev):
        ops = []
        for _ in range(rng.choice([0, 1, 1, 2, 2, 3, 4, 5])):
            ti = rng.choice(tabs)
            ops.append(_gen_op(rng, ti, schema[ti][1], pkupdate=(kind == "pkupdate" and rng.random() < 0.4),
                               protos=protos[ti]))
        fpri = None
        if rng.random() < 0.12:
            fpri = [rng.randint(0, 4), rng.randint(0, 3)]
        fpub = None
        if rng.random() < p_pub:
            if locks_left > 0 and rng.random() < 0.25:
                fpub = ["lock"]
                locks_left -= 1
            else:
                fpub = ["inj", rng.randint(0, 5), rng.randint(0, 3)]
        events.append({"ops": ops, "fpri": fpri, "fpub": fpub})
        if rng.random() < 0.7:
            events.append("health")
    # a clean tail: two fault-free writes and a health check
    ti = rng.choice(tabs)
    events.append({"ops": [_gen_op(rng, ti, schema[ti][1], protos=protos[ti])], "fpri": None, "fpub": None})
    events.append({"ops": [], "fpri": None, "fpub": None})
    events.append("health")
    return {"kind": kind, "max": mx, "tables": tabs, "events": events, "_protos": protos}


def _retry_case(rng, schema):
    """runs of public failures up to (and beyond) the recovery threshold"""
    c = _gen_case(rng, schema, kind="retry-run", n_lock=0)
    mx = c["max"] = rng.choice([2, 3, 5])
    ti = rng.choice(c["tables"])
    evs = []
    for i in range(mx + rng.randint(-1, 1)):
        ops = [_gen_op(rng, ti, schema[ti][1], protos=c["_protos"][ti])] if rng.random() < 0.7 else []
        evs.append({"ops": ops, "fpri": None, "fpub": ["inj", 0, 0]})
        evs.append("health")
    c["events"] = c["events"][:2] + evs + c["events"][-3:]
    return c


def _multi_case(rng, schema):
    """fill a table with its prototype rows, then several deletes / updates with
    the same statement template in one batch (executemany with > 1 row)"""
    c = _gen_case(rng, schema, kind="multi", n_lock=0)
    ti = rng.choice(c["tables"])
    cols = schema[ti][1]
    pk = [i for i, x in enumerate(cols) if x[2]] or [0]
    nonpk = [i for i in range(len(cols)) if i not in pk] or [len(cols) - 1]
    protos = [[v if v is not None or ci not in pk else 0 for ci, v in enumerate(p)] for p in c["_protos"][ti]]
    fill = [["insl", ti, p] for p in protos]
    second = []
    for p in rng.sample(protos, rng.randint(2, len(protos))):
        w = [[ci, p[ci]] for ci in pk]
        if rng.random() < 0.5:
            second.append(["del", ti, w])
        else:
            second.append(["upd", ti, [[nonpk[0], rng.randint(3, 5)]], w])
    f = rng.choice([None, None, ["inj", rng.randint(0, 2), rng.randint(0, 2)]])
    c["events"] = [{"ops": fill, "fpri": None, "fpub": f}, {"ops": second, "fpri": None, "fpub": None},
                   "health"] + c["events"]
    return c


def _strip(c):
    c.pop("_protos", None)
    return c


# the witnesses of the two findings (task_pool: PK (cycle,name,flow_nums); task_events: no PK)
def _witnesses(schema):
    names = [n for n, _ in schema]
    out = []
    if "task_pool" in names:
        t = names.index("task_pool")
        row = [[0, 1], [1, 2], [2, 0], [3, 1]]
        out.append({"kind": "witness-merged-reorder", "max": 100, "tables": [t], "events": [
            {"ops": [["insd", t, row]], "fpri": None, "fpub": ["lock"]},
            "health",
            {"ops": [["del", t, [[0, 1], [1, 2], [2, 0]]]], "fpri": None, "fpub": None},
            "health",
            {"ops": [], "fpri": None, "fpub": None}]})
    if "task_events" in names:
        t = names.index("task_events")
        ev = lambda k, f: {"ops": [["insd", t, [[0, k], [1, 1], [4, 0]]]] if k is not None else [],
                           "fpri": None, "fpub": f}
        out.append({"kind": "witness-stale-replay", "max": 3, "tables": [t], "events": [
            ev(0, ["inj", 0, 0]), "health", ev(None, ["inj", 0, 0]), "health",
            ev(None, ["lock"]), "health", ev(1, None), "health"]})
    return out


# ---------------------------------------------------------------------------
# classification helpers (oracle side; independent of the Gallina model)
# ---------------------------------------------------------------------------
def _op_sig(o):
    """(kind rank, statement template) of an op as the DAO would group it"""
    if o[0] == "del":
        return (0, tuple(sorted(c for c, _ in o[2])))
    if o[0] in ("insd", "insl"):
        return (1, ())
    return (2, (tuple(sorted(c for c, _ in o[2])), tuple(sorted(c for c, _ in o[3]))))


def _reordered(batches, table):
    """does executing the merged queue change the statement order for `table`
    relative to the batches executed one after the other?"""
    def grouped(ops):
        sigs = [_op_sig(o) for o in ops if o[1] == table]
        first = {}
        for i, s in enumerate(sigs):
            first.setdefault(s, i)
        return [s for _, s in sorted(enumerate(sigs), key=lambda x: (x[1][0], first[x[1]], x[0]))]
    seq = []
    for b in batches:
        seq += grouped(b)
    merged = grouped([o for b in batches for o in b])
    return merged != seq


# ---------------------------------------------------------------------------
# reference semantics of one committed batch (oracle side, plain Python lists)
# ---------------------------------------------------------------------------
def _sql_eq(a, b):
    return a is not None and b is not None and a == b


def _ref_apply(schema, tables, ops):
    """rows of every table after one batch executed by the DAO on its own:
    per table all deletes, then all inserts, then all updates (each kind in
    queue order, grouped by statement template at first occurrence)"""
    out = {k: [list(r) for r in v] for k, v in tables.items()}
    by_table = {}
    for o in ops:
        by_table.setdefault(o[1], []).append(o)
    for ti, tops in by_table.items():
        ncols, pk = schema[ti]
        rows = out.get(str(ti), [])
        order = {}
        for i, o in enumerate(tops):
            order.setdefault(_op_sig(o), i)
        for o in sorted(tops, key=lambda o: (_op_sig(o)[0], order[_op_sig(o)])):
            if o[0] == "del":
                w = [(c, v) for c, v in o[2] if c < ncols]
                rows = [r for r in rows if not all(_sql_eq(r[c], v) for c, v in w)]
            elif o[0] in ("insd", "insl"):
                if o[0] == "insd":
                    d = dict((c, v) for c, v in reversed(o[2]))
                    new = [d.get(c) for c in range(ncols)]
                else:
                    new = (list(o[2]) + [None] * ncols)[:ncols]
                if pk:
                    rows = [r for r in rows if not all(_sql_eq(r[c], new[c]) for c in pk)]
                rows = rows + [new]
            else:
                s_ = [(c, v) for c, v in o[2] if c < ncols]
                w = [(c, v) for c, v in o[3] if c < ncols]
                new_rows = []
                for r in rows:
                    if all(_sql_eq(r[c], v) for c, v in w):
                        r = list(r)
                        for c, v in s_:
                            r[c] = v
                    new_rows.append(r)
                rows = new_rows
        if rows:
            out[str(ti)] = sorted(rows, key=lambda r: json.dumps(r))
        else:
            out.pop(str(ti), None)
    return out


def _has_magic(ops):
    return any(v == MAGIC for o in ops for part in o[2:] for v in ([x[1] for x in part] if part and isinstance(part[0], list) else part))


class DbStream(Stream):
    name = "db"
    coq_import = "From Cylc Require Import Model.Db."
    check_fn = "Db.check_case"
    show_fn = "Db.model_out"
    rule = ("event sequences on the real WorkflowDatabaseManager (process_queued_ops with generated batches of "
            "delete/insert(dict,list)/update items over 2-3 of the real tables incl. one without primary key, values from a "
            "3-element domain plus NULL so that keys collide; private/public faults injected at statement k row j, the commit, "
            "or by a real EXCLUSIVE lock; recover_pub_from_pri interleaved; MAX_TRIES in {2,3,4,5,100}); private and public table "
            "contents, n_tries and pending statements compared after every event; non-trivial = at least one fault fires "
            "or a table holds >= 2 rows")
    n_hashseeds = 8
    shard_size = 25
    needs_scratch_home = True
    impl_timeout = 900

    def corpus(self):
        return _witnesses(_schema())

    def gen(self, rng, tier):
        schema = _schema()
        n = 100 if tier == "quick" else 2000
        cases = []
        for i in range(n):
            r = rng.random()
            if r < 0.12:
                cases.append(_strip(_retry_case(rng, schema)))
            elif r < 0.24:
                cases.append(_strip(_multi_case(rng, schema)))
            elif r < 0.30:
                cases.append(_strip(_gen_case(rng, schema, kind="pkupdate")))
            else:
                cases.append(_strip(_gen_case(rng, schema)))
        return cases

    # -- implementation driver ------------------------------------------------
    def impl(self, cases):
        import os
        import shutil
        import sqlite3
        import tempfile
        from cylc.flow.rundb import CylcWorkflowDAO
        from cylc.flow.workflow_db_mgr import WorkflowDatabaseManager

        real_connect = sqlite3.connect
        PLAN = {}

        class FaultyConn(sqlite3.Connection):
            def _plan(self):
                return PLAN.get(getattr(self, "_vp_path", None))

            def executemany(self, stmt, args):
                p = self._plan()
                if p is not None:
                    n = p["n"]
                    p["n"] += 1
                    if n == p["k"]:
                        args = list(args)
                        j = min(p["j"], len(args))
                        if j:
                            super().executemany(stmt, args[:j])
                        p["fired"] = True
                        raise sqlite3.OperationalError("injected fault")
                return super().executemany(stmt, args)

            def commit(self):
                p = self._plan()
                if p is not None and p["n"] == p["k"]:
                    p["n"] += 1
                    p["fired"] = True
                    raise sqlite3.OperationalError("injected commit fault")
                return super().commit()

        def connect(path, *a, **kw):
            kw.setdefault("factory", FaultyConn)
            conn = real_connect(path, *a, **kw)
            try:
                conn._vp_path = os.path.realpath(os.fspath(path))
            except Exception:
                pass
            return conn

        tables = sorted(CylcWorkflowDAO.TABLES_ATTRS.items())
        live = []
        for name, attrs in tables:
            cols = []
            for item in attrs:
                a = item[1] if len(item) > 1 else {}
                cols.append([item[0], a.get("datatype", "TEXT"), bool(a.get("is_primary_key", False))])
            live.append([name, cols])
        schema_out = [[len(c), [i for i, x in enumerate(c) if x[2]]] for _, c in live]

        def enc(ti, ci, v):
            if v is None:
                return None
            typ = live[ti][1][ci][1].upper()
            if typ == "TEXT":
                return "CYLC_TEMPLATE_VARS" if v == MAGIC else f"s{v}"
            if typ == "REAL":
                return float(v)
            return int(v)

        def dec(v):
            if v is None:
                return None
            if isinstance(v, str):
                if v == "CYLC_TEMPLATE_VARS":
                    return MAGIC
                if v[:1] == "s" and v[1:].lstrip("-").isdigit():
                    return int(v[1:])
                raise ValueError(f"undecodable cell {v!r}")
            if isinstance(v, float):
                if v != int(v):
                    raise ValueError(f"undecodable cell {v!r}")
                return int(v)
            if isinstance(v, int):
                return v
            raise ValueError(f"undecodable cell {v!r}")

        def dump(path, tabs, full=True):
            con = real_connect(f"file:{path}?mode=ro", uri=True)
            try:
                out = {}
                for ti in range(len(live)):
                    if ti not in tabs and not full:
                        continue
                    if ti in tabs:
                        rows = [[dec(x) for x in r] for r in con.execute(f"SELECT * FROM {live[ti][0]}")]
                        if rows:
                            out[str(ti)] = sorted(rows, key=lambda r: json.dumps(r))
                    else:
                        n = con.execute(f"SELECT count(*) FROM {live[ti][0]}").fetchone()[0]
                        if n:
                            out[str(ti)] = [["unexpected rows", n]]
                return out
            finally:
                con.close()

        def pending(dao):
            return sum(len(t.delete_queues) + (1 if t.insert_queue else 0) + len(t.update_queues)
                       for t in dao.tables.values())

        def run_case(c):
            src_schema = [[n, [list(x) for x in cols]] for n, cols in _schema()]
            if src_schema != live:
                return {"exc": "schema-mismatch: TABLES_ATTRS of the imported module differs from the source text"}
            d = tempfile.mkdtemp(prefix="c21-")
            old_max = CylcWorkflowDAO.MAX_TRIES
            locker = None
            try:
                CylcWorkflowDAO.MAX_TRIES = c["max"]
                os.makedirs(os.path.join(d, "pri"))
                os.makedirs(os.path.join(d, "pub"))
                mgr = WorkflowDatabaseManager(os.path.join(d, "pri"), os.path.join(d, "pub"))
                mgr.on_workflow_start(is_restart=False)
                # create_tables leaves the private connection open; an empty first
                # write closes it through the real code path (state of every later call)
                mgr.process_queued_ops()
                pri_path = os.path.realpath(mgr.pri_path)
                pub_path = os.path.realpath(mgr.pub_path)
                tabs = set(c["tables"])
                obs = []
                for ei, ev in enumerate(c["events"]):
                    raised = False
                    last = ei == len(c["events"]) - 1      # untouched tables are inspected once, at the end
                    if ev == "health":
                        mgr.recover_pub_from_pri()
                    else:
                        for o in ev["ops"]:
                            ti = o[1]
                            nm = live[ti][0]
                            cn = [x[0] for x in live[ti][1]]
                            if o[0] == "del":
                                mgr.db_deletes_map.setdefault(nm, []).append(
                                    {cn[ci]: enc(ti, ci, v) for ci, v in o[2]})
                            elif o[0] == "insd":
                                mgr.db_inserts_map.setdefault(nm, []).append(
                                    {cn[ci]: enc(ti, ci, v) for ci, v in o[2]})
                            elif o[0] == "insl":
                                mgr.db_inserts_map.setdefault(nm, []).append(
                                    [enc(ti, min(ci, len(cn) - 1), v) for ci, v in enumerate(o[2])])
                            else:
                                mgr.db_updates_map[nm].append(
                                    ({cn[ci]: enc(ti, ci, v) for ci, v in o[2]},
                                     {cn[ci]: enc(ti, ci, v) for ci, v in o[3]}))
                        PLAN.clear()
                        if ev["fpri"]:
                            PLAN[pri_path] = {"k": ev["fpri"][0], "j": ev["fpri"][1], "n": 0}
                        if ev["fpub"] and ev["fpub"][0] == "inj":
                            PLAN[pub_path] = {"k": ev["fpub"][1], "j": ev["fpub"][2], "n": 0}
                        if ev["fpub"] and ev["fpub"][0] == "lock":
                            locker = real_connect(pub_path, isolation_level=None)
                            locker.execute("BEGIN EXCLUSIVE")
                        try:
                            mgr.process_queued_ops()
                        except sqlite3.Error:
                            raised = True
                        finally:
                            PLAN.clear()
                            if locker is not None:
                                locker.execute("ROLLBACK")
                                locker.close()
                                locker = None
                    obs.append({"raised": raised, "tries": mgr.pub_dao.n_tries,
                                "npri": pending(mgr.pri_dao), "npub": pending(mgr.pub_dao),
                                "pri": dump(pri_path, tabs, last), "pub": dump(pub_path, tabs, last)})
                mgr.on_workflow_shutdown()
                return {"schema": schema_out, "obs": obs}
            finally:
                CylcWorkflowDAO.MAX_TRIES = old_max
                if locker is not None:
                    try:
                        locker.close()
                    except Exception:
                        pass
                shutil.rmtree(d, ignore_errors=True)

        sqlite3.connect = connect
        CylcWorkflowDAO.CONN_TIMEOUT = 0.05   # only shortens the wait on the EXCLUSIVE lock
        out = []
        try:
            for c in cases:
                try:
                    out.append(run_case(c))
                except Exception as e:  # noqa
                    out.append({"exc": f"{type(e).__name__}: {e}"})
        finally:
            sqlite3.connect = real_connect
        return out

    # -- Gallina case -----------------------------------------------------------
    @staticmethod
    def _cval(v):
        return q.copt(v, q.cz)

    def _cdict(self, d):
        return q.clist(q.cpair(q.cnat(c), self._cval(v)) for c, v in d)

    def _cop(self, o):
        if o[0] == "del":
            return q.capp("ODel", q.cnat(o[1]), self._cdict(o[2]))
        if o[0] == "insd":
            return q.capp("OInsD", q.cnat(o[1]), self._cdict(o[2]))
        if o[0] == "insl":
            return q.capp("OInsL", q.cnat(o[1]), q.clist(self._cval(v) for v in o[2]))
        return q.capp("OUpd", q.cnat(o[1]), self._cdict(o[2]), self._cdict(o[3]))

    def _ctables(self, t):
        return q.clist(q.cpair(q.cnat(int(k)), q.clist(q.clist(self._cval(v) for v in row) for row in rows))
                       for k, rows in sorted(t.items(), key=lambda kv: int(kv[0])))

    def coq_case(self, c, r):
        if "exc" in r:
            return None
        schema = r["schema"]
        for ev in c["events"]:
            if ev == "health":
                continue
            for o in ev["ops"]:
                if o[0] == "upd" and any(ci in schema[o[1]][1] for ci, _ in o[2]):
                    return None      # assigns a primary-key column: outside the modelled fragment
        for ob in r["obs"]:
            for t in list(ob["pri"].values()) + list(ob["pub"].values()):
                if t and t[0] and t[0][0] == "unexpected rows":
                    return None
        evs = []
        for ev in c["events"]:
            if ev == "health":
                evs.append("EvHealth")
            else:
                fpri = q.copt(ev["fpri"], lambda f: q.cpair(q.cnat(f[0]), q.cnat(f[1])))
                fpub = q.copt(ev["fpub"], lambda f: q.cpair(q.cnat(0), q.cnat(0)) if f[0] == "lock"
                              else q.cpair(q.cnat(f[1]), q.cnat(f[2])))
                evs.append(q.capp("EvProcess", q.clist(self._cop(o) for o in ev["ops"]), fpri, fpub))
        obs = [q.crecord(o_raised=q.cbool(o["raised"]), o_tries=q.cnat(o["tries"]),
                         o_npri=q.cnat(o["npri"]), o_npub=q.cnat(o["npub"]),
                         o_pri=self._ctables(o["pri"]), o_pub=self._ctables(o["pub"]))
               for o in r["obs"]]
        sch = q.clist(q.cpair(q.cnat(n), q.clist(q.cnat(p) for p in pk)) for n, pk in schema)
        return q.crecord(c_max=q.cnat(c["max"]), c_schema=sch, c_events=q.clist(evs), c_obs=q.clist(obs))

    # -- property oracle ----------------------------------------------------------
    def _walk(self, c, r):
        """yield (failure text, class) for the first property failure"""
        prev = {"raised": False, "tries": 0, "npri": 0, "npub": 0, "pri": {}, "pub": {}}
        pending = []          # batches queued in the public DAO and not yet written
        stale = False         # a recovery copy happened while the public queue was non-empty
        for i, (ev, o) in enumerate(zip(c["events"], r["obs"])):
            for side in ("pri", "pub"):
                for t in o[side].values():
                    if t and t[0] and t[0][0] == "unexpected rows":
                        return f"event {i}: rows appeared in a table the batch never touched ({side})", "foreign-table"
            if ev == "health":
                if o["pri"] != prev["pri"]:
                    return f"event {i}: recover_pub_from_pri changed the private database", "health-pri"
                if prev["tries"] >= c["max"]:
                    if o["pub"] != o["pri"] or o["tries"] != 0:
                        return (f"event {i}: after {prev['tries']} failed attempts (MAX_TRIES={c['max']}) the recovery "
                                f"did not make public equal private: pri={o['pri']} pub={o['pub']} n_tries={o['tries']}"), "recover"
                    if o["npub"]:
                        stale = True
                elif o["pub"] != prev["pub"] or o["tries"] != prev["tries"]:
                    return f"event {i}: recover_pub_from_pri acted below the threshold", "health-early"
            else:
                pending.append(ev["ops"])
                if o["raised"]:
                    if o["pri"] != prev["pri"]:
                        return (f"event {i}: private write failed but the private database changed: "
                                f"before={prev['pri']} after={o['pri']}"), "pri-atomic"
                    if o["pub"] != prev["pub"]:
                        return f"event {i}: private write failed and the public database changed", "pub-atomic"
                    if ev["ops"] and not o["npri"]:
                        return f"event {i}: private write failed and its queue was dropped", "pri-queue"
                else:
                    if o["npri"]:
                        return f"event {i}: private write returned normally with {o['npri']} statements still queued", "pri-queue"
                    if (prev["npri"] == 0 and not _has_magic(ev["ops"]) and not any(
                            op[0] == "upd" and any(ci in r["schema"][op[1]][1] for ci, _ in op[2]) for op in ev["ops"])):
                        want = _ref_apply(r["schema"], prev["pri"], ev["ops"])
                        if want != o["pri"]:
                            return (f"event {i}: the private database after the committed batch is not the batch applied "
                                    f"to the previous state: expected {want} got {o['pri']}"), "pri-content"
                    if o["tries"] > prev["tries"]:            # public write failed
                        if o["pub"] != prev["pub"]:
                            return (f"event {i}: public write failed but the public database changed: "
                                    f"before={prev['pub']} after={o['pub']}"), "pub-atomic"
                        if not o["npub"]:
                            return f"event {i}: public write failed and its queue was dropped (no retry possible)", "pub-queue"
                    elif o["npub"] == 0:                      # public write went through (or nothing was pending)
                        if o["tries"] != 0 and prev["npub"] + len(ev["ops"]) > 0:
                            return f"event {i}: public write succeeded but n_tries={o['tries']}", "tries"
                        if o["pub"] != o["pri"]:
                            diff = sorted(set(k for k in set(o["pub"]) | set(o["pri"]) if o["pub"].get(k) != o["pri"].get(k)))
                            if stale:
                                cls = "stale-queue-replayed-after-recovery"
                            elif len(pending) > 1 and any(_reordered(pending, int(t)) for t in diff):
                                cls = "merged-retry-reorders-statements"
                            else:
                                cls = None
                            return (f"event {i}: public write succeeded but public != private in tables {diff}: "
                                    f"pri={ {k: o['pri'].get(k) for k in diff} } pub={ {k: o['pub'].get(k) for k in diff} }"), cls
                        pending = []
                        stale = False
                    else:
                        return f"event {i}: public n_tries did not grow but {o['npub']} statements are still queued", "pub-queue"
            prev = o
        return None

    def oracle(self, c, r):
        if "exc" in r:
            return "unexpected exception: " + r["exc"]
        if len(r["obs"]) != len(c["events"]):
            return "harness: observation count mismatch"
        w = self._walk(c, r)
        return w[0] if w else None

    def classify(self, c, r, failure):
        if "exc" not in r and len(r.get("obs", [])) == len(c["events"]):
            w = self._walk(c, r)
            if w and w[1] in ("stale-queue-replayed-after-recovery", "merged-retry-reorders-statements"):
                return "db:" + w[1]
            if w and w[1]:
                return "db:" + w[1] + ":" + hashlib.sha1(json.dumps(c, sort_keys=True).encode()).hexdigest()[:10]
        return super().classify(c, r, failure)

    def key(self, c, r):
        if "exc" in r:
            return None
        big = any(len(rows) >= 2 for o in r["obs"] for rows in o["pri"].values())
        fault = any(o["raised"] or o["tries"] for o in r["obs"])
        if not (big or fault):
            return None
        return super().key(c, r)

    def shrink(self, c):
        evs = c["events"]
        for i in range(len(evs)):
            yield dict(c, events=evs[:i] + evs[i + 1:])
        for i, ev in enumerate(evs):
            if ev != "health":
                for j in range(len(ev["ops"])):
                    e2 = dict(ev, ops=ev["ops"][:j] + ev["ops"][j + 1:])
                    yield dict(c, events=evs[:i] + [e2] + evs[i + 1:])
                if ev["fpri"]:
                    yield dict(c, events=evs[:i] + [dict(ev, fpri=None)] + evs[i + 1:])
                if ev["fpub"]:
                    yield dict(c, events=evs[:i] + [dict(ev, fpub=None)] + evs[i + 1:])


STREAMS = [DbStream()]

META = {
    "level_text": (
        "Coq theorems over Model/Db.v, for all schemas, batches, histories and fault positions: (1) a fault at any statement "
        "index or at the commit, after any number of rows, makes the private write raise and leaves both databases and the "
        "queue unchanged; any write either commits every queued statement or changes nothing (c21_private_atomic, "
        "c21_write_all_or_nothing); (2) along every history the public queue is exactly the outstanding batches merged, "
        "n_tries counts them, and the next public write that goes through applies retained+new items and resets n_tries "
        "(c21_public_retry); (3) 'public converges' as written is REFUTED by a vm_compute witness (merged retry executes "
        "deletes before inserts) and proved for histories whose merged batches commute, with a syntactic sufficient condition "
        "(per-table statement order preserved) (c21_public_converges_if_commuting, c21_commuting_if_order_preserved); "
        "(4) recovery at MAX_TRIES re-synchronises (public = private, queues empty, n_tries 0: c21_converges_after_recover), "
        "the write after it converges (c21_recovered_write_converges) and (3) holds across recoveries for every MAX_TRIES "
        "(histories contain health checks); the former stale-queue replay (fixed in /repo fc5ba1e) is kept as a regression "
        "witness. The model is tied to rundb.py/workflow_db_mgr.py by differential runs of the real "
        "WorkflowDatabaseManager on sqlite files (contents of both files, n_tries and queue sizes compared inside Coq after "
        "every call) with faults injected at statement k / row j / commit and real EXCLUSIVE locks; the oracle checks "
        "atomicity, retry and convergence directly on the files."),
    "level_note": (
        "Hand model; SQLite's transaction/rollback and single-row statement semantics are modelled (apply_tbl, exec_loop) and "
        "validated only by the differential run; updates assigning primary-key columns (which could fail with IntegrityError) "
        "and raw-SQL update items are outside the modelled fragment (oracle-checked only). One open finding (merged-retry "
        "reordering) and one fixed finding (stale queue replayed after recovery, fc5ba1e) are listed in known_findings.d/C21.json."),
    "technique": "Coq proof (invariants over histories, per-table decomposition) + in-Coq differential correspondence with "
                 "fault injection on real sqlite files + file-level oracle",
    "design_ref": "5/C21",
}
