"""C33 — xtriggers are called with the documented discipline (cylc/flow/xtrigger_mgr.py).

Component level: the real XtriggerManager with a stub process pool (records
put_command, callbacks are fed by the harness), stub broadcast/DB/data-store
managers, fake task proxies carrying state.xtriggers dicts, and a virtual clock
(`time` patched in xtrigger_mgr and xtriggers.wall_clock).
"""
from vp.core import Stream
from vp import coqfmt as q

TRUSTED = [
    "hand model Model/Xtrig.v of XtriggerManager.call_xtriggers_async/callback/housekeep "
    "(signatures computed by the real get_xtrig_ctx().get_signature() and numbered by the harness)",
    "stub proc_pool / broadcast_mgr / workflow_db_mgr / data_store_mgr; fake task proxies; virtual clock",
    "hand model Model/XtrigLoop.v of the xtrigger section of Scheduler._main_loop (which tasks go to "
    "call_xtriggers_async, that housekeep gets every pooled task, do_housekeeping); stream xtloop: the shared in-process "
    "scheduler driver vp/sched/driver.py (fake process pool) plus this module's wrappers around Scheduler._main_loop, "
    "SubProcPool.process, XtriggerManager.call_xtriggers_async/callback/housekeep, scen.render_flow (adds the "
    "[[xtriggers]] section and `@x => t` lines) and a virtual clock in xtrigger_mgr; xtrigger results are scripted in "
    "the callback wrapper",
]
ASSUMES = [
    "callbacks arrive only for submitted (active) signatures, once per submission (C42)",
    "housekeep() is given every task proxy of the pool",
    "c33_interval is proved for consecutive submissions with no housekeeping-forget of the signature in between; "
    "across a forget the interval is NOT kept (open known finding, c33_interval_unconditional_refuted)",
]

SIG_FORGET = "xtrig:interval-not-kept-after-housekeeping-forgot-succeeded-signature"

ARGS = {"point": "%(point)s", "name": "%(name)s", "id": "%(id)s", "const": "k"}
OKS = ["true", "true", "false", "false", "error", "garbage"]


def _gen(rng):
    nl = rng.randint(1, 4)
    labels = []
    for k in range(nl):
        if rng.random() < 0.25:
            labels.append({"label": k, "kind": rng.choice(["clock_abs", "clock_rel"]), "t": rng.randint(0, 30)})
        else:
            labels.append({"label": k, "kind": "func", "arg": rng.choice(list(ARGS)),
                           "succeed": rng.random() < 0.5, "intvl": rng.choice([0, 1, 2, 3, 5, 10])})
    # identical function labels (same args) give shared signatures
    if nl >= 2 and rng.random() < 0.3:
        src = rng.choice(labels)
        dst = rng.choice(labels)
        if dst is not src:
            keep = dst["label"]
            dst.clear()
            dst.update(src)
            dst["label"] = keep
            if dst["kind"] == "func":
                dst["intvl"] = rng.choice([0, 2, 5])
    nt = rng.randint(1, 4)
    tasks = []
    for i in range(nt):
        ls = rng.sample(range(nl), rng.randint(1, nl))
        tasks.append({"id": i, "name": rng.choice(["a", "b"]), "point": rng.randint(1, 3), "labels": ls})
    ops = []
    now = rng.randint(0, 5)
    for _ in range(rng.randint(4, 22)):
        x = rng.random()
        if x < 0.55:
            now += rng.choice([0, 0, 1, 1, 2, 3, 5, 8])
            ops.append(["call", rng.randrange(nt), now])
        elif x < 0.85:
            if rng.random() < 0.04:
                ops.append(["cb", rng.randrange(8), rng.choice(OKS), "inactive"])
            else:
                ops.append(["cb", rng.randrange(8), rng.choice(OKS)])
        else:
            sub = [t["id"] for t in tasks if rng.random() < 0.8]
            ops.append(["hk", sub])
    return {"labels": labels, "tasks": tasks, "ops": ops}


class XtrigStream(Stream):
    name = "xtrig"
    coq_import = "From Cylc Require Import Model.Xtrig."
    check_fn = "Xtrig.check_case"
    show_fn = "Xtrig.model_out"
    rule = ("random xtrigger configs (1-4 labels: echo() functions with per-point/per-name/per-task/constant args and "
            "intervals 0..10, wall_clock labels with absolute or point-relative trigger times, duplicated labels sharing a "
            "signature), 1-4 fake tasks over 3 cycle points, op sequences call_xtriggers_async(task) under a virtual clock / "
            "callback(active signature; success, not-yet, error, garbage output; rarely a non-active signature) / "
            "housekeep(subset of tasks); non-trivial = some signature was submitted at least twice or shared by two tasks")
    n_hashseeds = 4
    shard_size = 200
    needs_scratch_home = True

    def corpus(self):
        return [
            # de-duplication across tasks + interval + success + dependents + housekeeping
            {"labels": [{"label": 0, "kind": "func", "arg": "const", "succeed": True, "intvl": 5}],
             "tasks": [{"id": 0, "name": "a", "point": 1, "labels": [0]}, {"id": 1, "name": "b", "point": 2, "labels": [0]}],
             "ops": [["call", 0, 0], ["call", 1, 1], ["cb", 0, "false"], ["call", 1, 3], ["call", 0, 5], ["cb", 0, "true"],
                     ["call", 0, 6], ["hk", [0, 1]], ["call", 1, 7], ["hk", [0, 1]], ["call", 1, 8]]},
            # witness of the open finding: succeeded, forgotten by housekeeping, needed again:
            # re-submitted at t=2 although it was submitted at t=0 with interval 10
            {"labels": [{"label": 0, "kind": "func", "arg": "const", "succeed": True, "intvl": 10}],
             "tasks": [{"id": 0, "name": "a", "point": 1, "labels": [0]}, {"id": 1, "name": "a", "point": 2, "labels": [0]}],
             "ops": [["call", 0, 0], ["cb", 0, "true"], ["call", 0, 1], ["hk", [0]], ["call", 1, 2]]},
            # wall clocks
            {"labels": [{"label": 0, "kind": "clock_rel", "t": 5}, {"label": 1, "kind": "clock_abs", "t": 12}],
             "tasks": [{"id": 0, "name": "a", "point": 1, "labels": [0, 1]}, {"id": 1, "name": "a", "point": 1, "labels": [0]}],
             "ops": [["call", 0, 100], ["call", 0, 106], ["call", 1, 0], ["hk", [0, 1]], ["call", 0, 13], ["hk", [0, 1]]]},
            {"labels": [{"label": 0, "kind": "func", "arg": "point", "succeed": False, "intvl": 2}],
             "tasks": [{"id": 0, "name": "a", "point": 1, "labels": [0]}],
             "ops": [["call", 0, 0], ["cb", 0, "error"], ["cb", 0, "true", "inactive"], ["call", 0, 1], ["call", 0, 2]]},
        ]

    def gen(self, rng, tier):
        n = 260 if tier == "quick" else 6000
        return [_gen(rng) for _ in range(n)]

    # ------------------------------------------------------------ driver
    def impl(self, cases):
        import json
        import logging
        from types import SimpleNamespace
        from cylc.flow import LOG
        import cylc.flow.xtrigger_mgr as xm
        import cylc.flow.xtriggers.wall_clock as wc
        from cylc.flow.subprocctx import SubFuncContext
        LOG.setLevel(logging.CRITICAL + 1)
        clock = [0]
        xm.time = lambda: clock[0]
        wc.time = lambda: clock[0]

        class FakeTask:
            def __init__(self, t):
                self.id_ = t["id"]
                self.point = t["point"]
                self.tdef = SimpleNamespace(name=t["name"])
                self.identity = f"{t['point']}/{t['name']}"
                self.state = SimpleNamespace(xtriggers={f"L{k}": False for k in t["labels"]})

            def get_clock_trigger_time(self, point, offset):
                return int(point) * 100 + int(offset)

            def __str__(self):
                return self.identity

        class Pool:
            def __init__(self):
                self.calls = []

            def put_command(self, ctx, callback=None, **kw):
                self.calls.append((ctx, callback))

        out = []
        for c in cases:
            try:
                pool = Pool()
                noop = lambda *a, **k: None  # noqa
                schd = SimpleNamespace(
                    workflow="wf", owner="me", proc_pool=pool,
                    workflow_db_mgr=SimpleNamespace(put_xtriggers=noop),
                    broadcast_mgr=SimpleNamespace(put_broadcast=noop),
                    data_store_mgr=SimpleNamespace(delta_xtrigger=noop))
                mgr = xm.XtriggerManager(schd, workflow_run_dir="/nonexistent", workflow_share_dir="/nonexistent")
                coll = xm.XtriggerCollator()
                clock_labels = set()
                for lb in c["labels"]:
                    name = f"L{lb['label']}"
                    if lb["kind"] == "func":
                        ctx = SubFuncContext(name, "echo", [ARGS[lb["arg"]]], {"succeed": lb["succeed"]}, lb["intvl"])
                        coll.add_trig(name, ctx, "/nonexistent")
                    else:
                        kw = {"trigger_time": lb["t"]} if lb["kind"] == "clock_abs" else {"offset": lb["t"]}
                        ctx = SubFuncContext(name, "wall_clock", [], kw)
                        # (register as the retry-timer clocks are: no ISO8601 validation of our integer offsets)
                        coll.functx_map[name] = ctx
                        coll.wall_clock_labels.add(name)
                        clock_labels.add(lb["label"])
                mgr.add_xtriggers(coll)
                tasks = [FakeTask(t) for t in c["tasks"]]
                # number the signatures
                signum, sigs, intv, trig = {}, {}, {}, {}
                for t in tasks:
                    sigs[t.id_] = {}
                    for name in t.state.xtriggers:
                        k = int(name[1:])
                        fctx = mgr.get_xtrig_ctx(t, name)
                        s = fctx.get_signature()
                        signum.setdefault(s, len(signum))
                        sigs[t.id_][k] = signum[s]
                        intv[(t.id_, k)] = fctx.intvl
                        if k in clock_labels:
                            trig[(t.id_, k)] = fctx.func_kwargs["trigger_time"]
                last_ctx = {}
                trace = []

                def observe(n0, err, op):
                    for ctx, _cb in pool.calls[n0:]:
                        last_ctx[signum[ctx.get_signature()]] = ctx
                    as_int = lambda v: int(v) if float(v) == int(v) else v  # noqa
                    return {
                        "op": op,
                        "submitted": [signum[ctx.get_signature()] for ctx, _ in pool.calls[n0:]],
                        "cb_is_mgr": all(cb == mgr.callback for _, cb in pool.calls[n0:]),
                        "error": err,
                        "active": [signum[s] for s in mgr.active],
                        "sat": sorted(signum[s] for s in mgr.sat_xtrig),
                        "tnext": sorted([signum[s], as_int(v)] for s, v in mgr.t_next_call.items()),
                        "flags": [[t.id_, [[int(n[1:]), bool(v)] for n, v in t.state.xtriggers.items()]] for t in tasks],
                    }

                for o in c["ops"]:
                    n0 = len(pool.calls)
                    err = None
                    if o[0] == "call":
                        clock[0] = o[2]
                        mgr.call_xtriggers_async(tasks[o[1]])
                        op = ["call", o[1], o[2]]
                    elif o[0] == "hk":
                        mgr.housekeep([t for t in tasks if t.id_ in o[1]])
                        op = ["hk", o[1]]
                    else:
                        act = [signum[s] for s in mgr.active]
                        if len(o) > 3:
                            cand = [v for v in sorted(signum.values()) if v not in act]
                        else:
                            cand = act
                        if not cand:
                            continue
                        s = cand[o[1] % len(cand)]
                        ctx = last_ctx.get(s)
                        if ctx is None:
                            # never submitted: build a context with that signature
                            for t in tasks:
                                for k, v in sigs[t.id_].items():
                                    if v == s and ctx is None:
                                        ctx = mgr.get_xtrig_ctx(t, f"L{k}")
                        ctx.ret_code, ctx.out, ctx.err = 0, None, None
                        if o[2] == "true":
                            ctx.out = json.dumps([True, {"a": "1"}])
                        elif o[2] == "false":
                            ctx.out = json.dumps([False, {}])
                        elif o[2] == "error":
                            ctx.ret_code, ctx.err = 1, "boom"
                        else:
                            ctx.out = "not json"
                        try:
                            mgr.callback(ctx)
                        except ValueError as e:
                            err = f"ValueError: {e}"[:60]
                        op = ["cb", s, o[2] == "true"]
                    trace.append(observe(n0, err, op))
                out.append({
                    "trace": trace,
                    "sigs": {str(t): {str(k): v for k, v in d.items()} for t, d in sigs.items()},
                    "intvl": [[t, k, (int(v) if float(v) == int(v) else v)] for (t, k), v in intv.items()],
                    "trig": [[t, k, v] for (t, k), v in trig.items()],
                })
            except Exception as e:  # noqa
                import traceback
                out.append({"exc": f"{type(e).__name__}: {e}", "tb": traceback.format_exc()[-600:]})
        return out

    # ------------------------------------------------------------ Coq case
    def coq_case(self, c, r):
        if "exc" in r:
            return None
        intv = {(t, k): v for t, k, v in r["intvl"]}
        trig = {(t, k): v for t, k, v in r["trig"]}
        if any(not isinstance(v, int) for v in list(intv.values()) + list(trig.values())):
            return None
        tasks = []
        for t in c["tasks"]:
            es = []
            for k in t["labels"]:
                es.append(q.crecord(
                    e_label=q.cnat(k), e_sig=q.cnat(r["sigs"][str(t["id"])][str(k)]),
                    e_clock=q.copt(trig.get((t["id"], k)), q.cz), e_intvl=q.cz(intv[(t["id"], k)]),
                    e_sat="false"))
            tasks.append(q.crecord(x_id=q.cnat(t["id"]), x_entries=q.clist(es)))
        items = []
        for ob in r["trace"]:
            o = ob["op"]
            if o[0] == "call":
                op = f"(XCall {q.cnat(o[1])} {q.cz(o[2])})"
            elif o[0] == "hk":
                op = f"(XHousekeep {q.clist(q.cnat(i) for i in o[1])})"
            else:
                op = f"(XCallback {q.cnat(o[1])} {q.cbool(o[2])})"
            if any(not isinstance(v, int) for _, v in ob["tnext"]):
                return None
            obs = q.crecord(
                xo_submitted=q.clist(q.cnat(s) for s in ob["submitted"]),
                xo_error=q.cbool(ob["error"] is not None),
                xo_active=q.clist(q.cnat(s) for s in ob["active"]),
                xo_sat=q.clist(q.cnat(s) for s in ob["sat"]),
                xo_tnext=q.clist(q.cpair(q.cnat(s), q.cz(v)) for s, v in ob["tnext"]),
                xo_flags=q.clist(q.cpair(q.cnat(t), q.clist(q.cpair(q.cnat(k), q.cbool(b)) for k, b in fl))
                                 for t, fl in ob["flags"]))
            items.append(q.cpair(op, obs))
        return q.crecord(c_tasks=q.clist(tasks), c_trace=q.clist(items))

    # ------------------------------------------------------------ oracle
    def oracle(self, c, r):
        if "exc" in r:
            return "unexpected exception: " + r["exc"] + " " + r.get("tb", "")[-300:]
        sigs = {int(t): {int(k): v for k, v in d.items()} for t, d in r["sigs"].items()}
        intv = {(t, k): v for t, k, v in r["intvl"]}
        clock_sigs = {sigs[t][k] for t, k, _ in r["trig"]}
        flags = {t["id"]: {k: False for k in t["labels"]} for t in c["tasks"]}
        last_sub = {}        # sig -> [time, interval, forgotten-by-housekeep-since?] of the last submission
        known = None         # first occurrence of the known deviation (reported only if nothing else fails)
        succeeded = set()    # succeeded and not forgotten since
        prev_sat, prev_active = set(), []
        for ob in r["trace"]:
            o = ob["op"]
            new_flags = {t: dict(fl) for t, fl in ob["flags"]}
            if len(set(ob["active"])) != len(ob["active"]):
                return f"two-calls-in-progress: active = {ob['active']}"
            if o[0] != "call" and ob["submitted"]:
                return f"submission outside call_xtriggers_async: {o} submitted {ob['submitted']}"
            if not ob["cb_is_mgr"]:
                return "a command was put without the manager's callback"
            if o[0] == "call":
                tid, now = o[1], o[2]
                if len(set(ob["submitted"])) != len(ob["submitted"]):
                    return f"same signature submitted twice in one call: {ob['submitted']}"
                for s in ob["submitted"]:
                    if s in clock_sigs:
                        return f"wall_clock signature {s} sent to the process pool"
                    if s in prev_active:
                        return f"two-calls-in-progress: {s} submitted while a call was still in progress"
                    if s in succeeded:
                        return f"called-after-success: {s} submitted although it succeeded and is still needed"
                    if s in last_sub and now < last_sub[s][0] + last_sub[s][1]:
                        if not last_sub[s][2]:
                            return (f"interval: {s} submitted at {now}, previous submission at {last_sub[s][0]} "
                                    f"with interval {last_sub[s][1]}")
                        known = known or (
                            f"interval-after-forget: {s} submitted at {now}, previous submission at {last_sub[s][0]} "
                            f"with interval {last_sub[s][1]}; in between it succeeded and housekeep forgot it "
                            f"(with its t_next_call entry) because no task needed it")
                    iv = [intv[(tid, k)] for k, v in sigs[tid].items() if v == s and not flags[tid][k]]
                    last_sub[s] = [now, iv[0] if iv else 0, False]
                    if s not in [sigs[tid][k] for k in flags[tid] if not flags[tid][k]]:
                        return f"{s} submitted but task {tid} has no unsatisfied label with that signature"
                # dependents of succeeded signatures become satisfied
                for k, was in flags[tid].items():
                    if not was and sigs[tid][k] in prev_sat and not new_flags[tid][k]:
                        return f"dependent-not-satisfied: task {tid} label {k} (signature {sigs[tid][k]} has succeeded)"
                    if not was and new_flags[tid][k] and sigs[tid][k] not in ob["sat"]:
                        return f"task {tid} label {k} satisfied but its signature {sigs[tid][k]} has not succeeded"
            if o[0] == "cb" and ob["error"] is None:
                if o[2]:
                    succeeded.add(o[1])
                    if o[1] not in ob["sat"]:
                        return f"success of {o[1]} not recorded"
                if o[1] in ob["active"] and prev_active.count(o[1]) == 1:
                    return f"{o[1]} still active after its callback"
            for s in ob["sat"]:
                if s in clock_sigs:
                    succeeded.add(s)
            # flags: never revert; change only for the called task
            for t, fl in new_flags.items():
                for k, v in fl.items():
                    if flags[t][k] and not v:
                        return f"task {t} label {k} went back to unsatisfied"
                    if v != flags[t][k] and not (o[0] == "call" and o[1] == t):
                        return f"task {t} label {k} changed during {o}"
            if o[0] == "hk":
                needed = {sigs[t][k] for t in o[1] for k, v in flags[t].items() if not v}
                for s in prev_sat - set(ob["sat"]):
                    if s in needed:
                        return f"forgot-needed: housekeep forgot {s} although a task still needs it"
                    succeeded.discard(s)
                    if s in last_sub:
                        last_sub[s][2] = True
            elif prev_sat - set(ob["sat"]):
                return f"succeeded signatures {sorted(prev_sat - set(ob['sat']))} forgotten outside housekeep"
            flags = new_flags
            prev_sat, prev_active = set(ob["sat"]), list(ob["active"])
        return known

    def classify(self, c, r, failure):
        if failure.startswith("interval-after-forget:"):
            return SIG_FORGET
        return "xtrig:" + failure.split(":")[0].split(" ")[0]

    def key(self, c, r):
        if not isinstance(r, dict) or "trace" not in r:
            return None
        subs = [s for ob in r["trace"] for s in ob["submitted"]]
        shared = len({(t, v) for t, d in r["sigs"].items() for v in d.values()}) > len(
            {v for d in r["sigs"].values() for v in d.values()})
        if len(subs) == len(set(subs)) and not shared:
            return None
        return super().key(c, r)

    def shrink(self, c):
        ops = c["ops"]
        for i in range(len(ops)):
            yield {**c, "ops": ops[:i] + ops[i + 1:]}
        if len(c["tasks"]) > 1:
            last = c["tasks"][-1]["id"]
            ops2 = [o for o in ops if not (o[0] == "call" and o[1] == last)]
            ops2 = [[o[0], [i for i in o[1] if i != last]] if o[0] == "hk" else o for o in ops2]
            yield {**c, "tasks": c["tasks"][:-1], "ops": ops2}



# ===========================================================================
# scheduler level: the xtrigger section of Scheduler._main_loop on the real
# Scheduler (shared in-process driver vp/sched/driver.py, wrapped from outside)
# ===========================================================================
import json
import random

from vp.sched import scen
from vp.sched.stream import SchedStream

_XT = {"schd": None, "tick": -1, "step": 1, "plan": {}, "ncalls": {}, "xt": None}
_XT_INSTALLED = [False]
KEEP_XT = {"xt_pass", "xt_call", "xt_cb", "xt_hk", "xt_cb_error", "tick", "tick_end", "op", "op_rejected"}


def _xt_render(scn, o_render):
    """flow.cylc of a scenario with its [[xtriggers]] section and `@label => task` lines"""
    xt = scn.get("xt")
    if not xt:
        return o_render(scn)
    sec = ["    [[xtriggers]]"]
    for lb in xt["labels"]:
        args = {"const": f'"{lb["name"]}"', "point": f'"{lb["name"]}", "%(point)s"',
                "name": f'"{lb["name"]}", "%(name)s"'}[lb["arg"]]
        sec.append(f'        {lb["name"]} = echo({args}, succeed=True):PT{lb["intvl"]}S')
    txt = o_render(scn, extra_sched="\n".join(sec))
    out, si, inside = [], -1, False
    for ln in txt.split("\n"):
        st = ln.strip()
        if not inside and st.endswith('= """'):
            inside, si = True, si + 1
        elif inside and st == '"""':
            members = [l["rhs"] for l in scn["sections"][si]["lines"] if l["lhs"] is None]
            for t, labs in xt["deps"].items():
                if t in members and labs:
                    out.append("            " + " & ".join("@" + x for x in labs) + " => " + t)
            inside = False
        out.append(ln)
    return "\n".join(out)


def _xt_install():
    if _XT_INSTALLED[0]:
        return
    _XT_INSTALLED[0] = True
    from vp.sched import driver as D
    import cylc.flow.xtrigger_mgr as xm
    from cylc.flow.scheduler import Scheduler
    from cylc.flow.subprocpool import SubProcPool

    xm.time = lambda: _XT["tick"] * _XT["step"]

    o_render = scen.render_flow
    scen.render_flow = lambda scn, *a, **k: _xt_render(scn, o_render) if not a and not k else o_render(scn, *a, **k)

    def view(t):
        mgr = _XT["schd"].xtrigger_mgr
        labs = []
        for k, v in t.state.xtriggers.items():
            c = mgr.get_xtrig_ctx(t, k)
            iv = c.intvl
            labs.append([k, bool(v), c.get_signature(), int(iv) if float(iv) == int(iv) else iv])
        return [D.tid(t), t.state.status, bool(t.state.is_queued), bool(t.state.is_runahead), bool(t.state.is_held),
                labs, id(t)]

    def mgr_view(mgr):
        return {"active": list(mgr.active), "sat": sorted(mgr.sat_xtrig),
                "tnext": sorted([k, int(v) if float(v) == int(v) else v] for k, v in mgr.t_next_call.items()),
                "due": bool(mgr.do_housekeeping)}

    o_loop = Scheduler._main_loop

    async def n_loop(self):
        _XT["schd"] = self
        _XT["tick"] += 1
        return await o_loop(self)
    Scheduler._main_loop = n_loop

    o_proc = SubProcPool.process

    def n_proc(self):
        r = o_proc(self)
        schd = _XT["schd"]
        if schd is not None and schd.proc_pool is self and _XT["xt"]:
            mgr = schd.xtrigger_mgr
            D.ev("xt_pass", now=xm.time(), pool=[view(t) for t in schd.pool.get_tasks()], mgr=mgr_view(mgr))
        return r
    SubProcPool.process = n_proc

    o_call = xm.XtriggerManager.call_xtriggers_async

    def n_call(self, itask):
        n0 = len(self.active)
        r = o_call(self, itask)
        D.ev("xt_call", id=D.tid(itask), now=xm.time(), submitted=list(self.active[n0:]), after=view(itask), mgr=mgr_view(self))
        return r
    xm.XtriggerManager.call_xtriggers_async = n_call

    o_cb = xm.XtriggerManager.callback

    def n_cb(self, ctx):
        sig = ctx.get_signature()
        n = _XT["ncalls"][sig] = _XT["ncalls"].get(sig, 0) + 1
        k = _XT["plan"].get(ctx.label, _XT["plan"].get("*", 1))
        ok = bool(k) and n >= k
        ctx.ret_code = 0
        ctx.out = json.dumps([True, {"n": str(n)}]) if ok else json.dumps([False, {}])
        try:
            r = o_cb(self, ctx)
        except Exception as exc:
            D.ev("xt_cb_error", sig=sig, exc=f"{type(exc).__name__}: {exc}")
            raise
        D.ev("xt_cb", sig=sig, ok=ok, now=xm.time(), mgr=mgr_view(self))
        return r
    xm.XtriggerManager.callback = n_cb

    o_hk = xm.XtriggerManager.housekeep

    def n_hk(self, itasks):
        itasks = list(itasks)
        schd = _XT["schd"]
        before = mgr_view(self)
        r = o_hk(self, itasks)
        D.ev("xt_hk", passed=[D.tid(t) for t in itasks], pool=[view(t) for t in schd.pool.get_tasks()],
             before=before, mgr=mgr_view(self))
        return r
    xm.XtriggerManager.housekeep = n_hk



def _xt_passes(trace):
    """Group the trace into steps: ("cb", event) and ("pass", pass_event, [call events], hk_event|None)."""
    out = []
    cur = None
    for e in trace:
        k = e["e"]
        if k == "xt_pass":
            cur = ["pass", e, [], None]
            out.append(cur)
        elif k == "xt_cb":
            cur = None
            out.append(["cb", e])
        elif k == "xt_call" and cur is not None:
            cur[2].append(e)
        elif k == "xt_hk" and cur is not None:
            cur[3] = e
        elif k in ("tick", "tick_end"):
            cur = None
    return out


def _elig(v):
    return v[1] == "waiting" and not v[2] and not v[3]


class XtLoopStream(SchedStream):
    """The xtrigger section of the real Scheduler._main_loop on generated workflows with `@x => task` xtriggers."""
    coq_import = "From Cylc Require Import Model.Xtrig Model.XtrigLoop."
    check_fn = "XtrigLoop.check_case"
    show_fn = "XtrigLoop.model_out"
    shard_size = 12

    def __init__(self, n_quick=18, n_thorough=400):
        super().__init__("C33", name="xtloop", feat={"disorder": False, "hold": True, "queues": True, "max_tasks": 3,
                                                      "max_fcp": 5}, n_quick=n_quick, n_thorough=n_thorough)
        self.cache_key = "sched-xtloop:v1"
        self.rule = ("generated integer-cycling workflows (1-3 tasks, 3-5 cycles, runahead limit P0-P2, optional queues with "
                     "limits, hold/release commands) in which 1-2 tasks depend on 1-2 xtriggers `@x => t` (echo-like functions "
                     "whose signature is constant / per cycle point / per task name, intervals 0-10 s), run on the real "
                     "Scheduler in-process under a virtual clock (1-3 s per main-loop iteration); the xtrigger function's "
                     "result is scripted (succeeds at its 1st-3rd call); every main-loop pass (callbacks delivered, tasks "
                     "handed to call_xtriggers_async, tasks handed to housekeep, manager state, task flags) is compared with "
                     "Model/XtrigLoop.v; non-trivial = a housekeeping ran while a pooled task that was NOT checked in that "
                     "pass (runahead-limited / queued / held / not waiting) still needed a succeeded signature")

    def corpus(self):
        base = {"icp": 1, "fcp": 5, "tasks": ["foo"], "sections": [{"rec": "P1", "lines": [{"lhs": None, "rhs": "foo"}]}],
                "customs": {}, "opt": [["foo", "succeeded", False]], "runahead": 1, "queues": {}, "seed": 3,
                "fail_rate": 0.0, "custom_rate": 1.0, "disorder": 0.0, "max_ticks": 40, "ops": [],
                "xt": {"labels": [{"name": "poll", "arg": "const", "intvl": 10}], "deps": {"foo": ["poll"]},
                       "plan": {"poll": 1}, "step": 1}}
        # seeded/C33/demo2.py: P1 = @poll => foo, cycles 1..5, runahead P1, succeeds at the first call: exactly one call
        c1 = json.loads(json.dumps(base))
        # succeeds at the third call, interval 3, 2 s per iteration; a held instance keeps needing it
        c2 = json.loads(json.dumps(base))
        c2["xt"] = {"labels": [{"name": "poll", "arg": "const", "intvl": 3}], "deps": {"foo": ["poll"]},
                    "plan": {"poll": 3}, "step": 2}
        c2["runahead"] = 2
        c2["ops"] = [{"tick": 0, "cmd": "hold", "args": {"tasks": ["2/foo"]}},
                     {"tick": 14, "cmd": "release", "args": {"tasks": ["2/foo"]}}]
        return [c1, c2]

    def _cases(self, r, n):
        out = []
        while len(out) < n:
            s = scen.gen_scenario(r, self.feat)
            if s["fcp"] < 3:
                continue
            s.pop("baseline", None)
            s["runahead"] = r.choice([0, 1, 1, 2])
            s["max_ticks"] = 70
            nl = r.randint(1, 2)
            labels = [{"name": f"x{i}", "arg": r.choice(["const", "const", "point", "name"]),
                       "intvl": r.choice([0, 2, 3, 5, 10])} for i in range(nl)]
            deps = {}
            for t in r.sample(s["tasks"], r.randint(1, min(2, len(s["tasks"])))):
                deps[t] = sorted(r.sample([lb["name"] for lb in labels], r.randint(1, nl)))
            s["xt"] = {"labels": labels, "deps": deps, "plan": {lb["name"]: r.choice([1, 1, 2, 3]) for lb in labels},
                       "step": r.choice([1, 1, 2, 3])}
            out.append(s)
        return out

    def gen(self, rng, tier):
        return self._cases(random.Random(rng.randrange(1 << 30)), self.n_quick if tier == "quick" else self.n_thorough)

    def search(self, rng, tier):
        return self._cases(random.Random(rng.randrange(1 << 30)), 3 * self.n_quick)

    def impl(self, cases):
        import os
        from pathlib import Path
        from vp.sched import driver
        if _xt_install not in driver.EXTRA_PATCHES:
            driver.EXTRA_PATCHES.append(_xt_install)
        home = Path(os.environ["HOME"])
        out = []
        for c in cases:
            for _attempt in range(3):
                _XT.update({"schd": None, "tick": -1, "step": c["xt"]["step"], "plan": c["xt"]["plan"], "ncalls": {},
                            "xt": c["xt"]})
                r = driver.run_many([c], home)[0]
                if not r["meta"].get("error"):
                    break
            if r["meta"].get("error") and "BrokenBarrierError" in str(r["meta"]["error"]):
                r["meta"]["flaky"] = True
            r["trace"] = [({"e": "tick_end", "n": e["n"]} if e["e"] == "tick_end" else e)
                          for e in r["trace"] if e["e"] in KEEP_XT]
            out.append(r)
        return out

    # ------------------------------------------------------------ Coq case
    def coq_case(self, c, r):
        if r["meta"].get("error") or r["meta"].get("flaky"):
            return None
        tids, sigs, labs, objs = {}, {}, {}, {}
        tn = lambda i: tids.setdefault(tuple(i), len(tids))        # noqa
        sn = lambda x: sigs.setdefault(x, len(sigs))               # noqa
        ln = lambda x: labs.setdefault(x, len(labs))               # noqa
        items = []

        def add_new(views):
            for v in views:
                if objs.get(tuple(v[0])) != v[6]:
                    objs[tuple(v[0])] = v[6]
                    if any(not isinstance(l[3], int) for l in v[5]):
                        raise ValueError("non-integer interval")
                    es = q.clist(q.crecord(e_label=q.cnat(ln(l[0])), e_sig=q.cnat(sn(l[2])), e_clock="None",
                                           e_intvl=q.cz(l[3]), e_sat="false") for l in v[5])
                    t = q.crecord(x_id=q.cnat(tn(v[0])), x_entries=es)
                    items.append(q.cpair(f"(LAdd {t})", "None"))

        def obs(called, submitted, hk, mgr, flags):
            if any(not isinstance(v, int) for _k, v in mgr["tnext"]):
                raise ValueError("non-integer time")
            return "(Some " + q.crecord(
                lo_called=q.clist(q.cnat(tn(i)) for i in called),
                lo_submitted=q.clist(q.cnat(sn(x)) for x in submitted),
                lo_hk=q.copt(hk, lambda l: q.clist(q.cnat(tn(i)) for i in l)),
                lo_active=q.clist(q.cnat(sn(x)) for x in mgr["active"]),
                lo_sat=q.clist(q.cnat(x) for x in sorted(sn(x) for x in mgr["sat"])),
                lo_tnext=q.clist(q.cpair(q.cnat(k), q.cz(v)) for k, v in sorted((sn(k), v) for k, v in mgr["tnext"])),
                lo_due=q.cbool(mgr["due"]),
                lo_flags=q.clist(q.cpair(q.cnat(tn(i)), q.clist(q.cpair(q.cnat(ln(l[0])), q.cbool(l[1])) for l in fl))
                                 for i, fl in flags)) + ")"
        try:
            for st in _xt_passes(r["trace"]):
                if st[0] == "cb":
                    e = st[1]
                    items.append(q.cpair(f"(LCallback {q.cnat(sn(e['sig']))} {q.cbool(e['ok'])})",
                                         obs([], [], None, e["mgr"], [])))
                    continue
                _k, p, calls, hk = st
                add_new(p["pool"])
                if hk is not None:
                    add_new(hk["pool"])
                pool = q.clist(q.cpair(q.cnat(tn(v[0])), q.cbool(_elig(v))) for v in p["pool"])
                pool_hk = [v[0] for v in (hk["pool"] if hk is not None else p["pool"])]
                latest = {tuple(v[0]): v[5] for v in p["pool"]}
                for e in calls:
                    latest[tuple(e["id"])] = e["after"][5]
                if hk is not None:
                    for v in hk["pool"]:
                        latest[tuple(v[0])] = v[5]
                mgr = hk["mgr"] if hk is not None else calls[-1]["mgr"] if calls else p["mgr"]
                if hk is None:
                    mgr = dict(mgr)
                items.append(q.cpair(
                    f"(LPass {q.cz(p['now'])} {pool} {q.clist(q.cnat(tn(i)) for i in pool_hk)})",
                    obs([e["id"] for e in calls], [x for e in calls for x in e["submitted"]],
                        None if hk is None else hk["passed"], mgr, sorted(latest.items()))))
        except ValueError:
            return None
        if not items:
            return None
        return q.clist(items)

    # ------------------------------------------------------------ oracle
    def oracle(self, c, r):
        if r["meta"].get("flaky"):
            return None
        if r["meta"].get("error"):
            return "error: scheduler run raised " + r["meta"]["error"]
        for e in r["trace"]:
            if e["e"] == "xt_cb_error":
                return f"error: xtrigger callback raised {e['exc']}"
        in_progress = set()
        last = {}            # sig -> [time, interval, forgotten since?]
        succeeded = set()    # succeeded and not (legitimately) forgotten since
        ncalls = {}
        known = None
        for st in _xt_passes(r["trace"]):
            if st[0] == "cb":
                e = st[1]
                in_progress.discard(e["sig"])
                if e["ok"]:
                    succeeded.add(e["sig"])
                    if e["sig"] not in e["mgr"]["sat"]:
                        return f"success of {e['sig']} not recorded"
                continue
            _k, p, calls, hk = st
            pool = {tuple(v[0]): v for v in p["pool"]}
            exp_called = [v[0] for v in p["pool"] if _elig(v) and any(not l[1] for l in v[5])]
            if [e["id"] for e in calls] != exp_called:
                return (f"pass-discipline: t={p['now']}: call_xtriggers_async was called for {[e['id'] for e in calls]}, "
                        f"the waiting, non-queued, non-runahead tasks with unsatisfied xtriggers are {exp_called}")
            sat = set(p["mgr"]["sat"])
            for e in calls:
                v = pool[tuple(e["id"])]
                now = e["now"]
                for x in e["submitted"]:
                    ncalls[x] = ncalls.get(x, 0) + 1
                    if x in in_progress:
                        return f"two-calls-in-progress: t={now}: {x} called while a call is still in progress"
                    if x in succeeded:
                        need = [f"{w[0][0]}/{w[0][1]}" for w in p["pool"] if any(l[2] == x and not l[1] for l in w[5])]
                        return (f"called-after-success: t={now}: {x} called again (call no. {ncalls[x]}) although it had "
                                f"succeeded and pooled tasks {need} needed it all along")
                    iv = [l[3] for l in v[5] if l[2] == x and not l[1]]
                    if x in last and now < last[x][0] + last[x][1]:
                        if not last[x][2]:
                            return (f"interval: t={now}: {x} called {now - last[x][0]}s after the previous call "
                                    f"(interval {last[x][1]}s)")
                        known = known or (f"interval-after-forget: t={now}: {x} called {now - last[x][0]}s after the previous "
                                          f"call (interval {last[x][1]}s); in between it succeeded and housekeep forgot it")
                    last[x] = [now, iv[0] if iv else 0, False]
                    in_progress.add(x)
                for (lab, was, sg, _iv), (lab2, now_sat, _s2, _i2) in zip(v[5], e["after"][5]):
                    if not was and sg in sat and not now_sat:
                        return f"dependent-not-satisfied: {e['id']} label {lab}: {sg} has succeeded"
                    if not was and now_sat and sg not in e["mgr"]["sat"]:
                        return f"{e['id']} label {lab} satisfied but {sg} has not succeeded"
                sat = set(e["mgr"]["sat"])
            if hk is not None:
                pooled = {tuple(v[0]) for v in hk["pool"]}
                passed = {tuple(i) for i in hk["passed"]}
                gone = set(hk["before"]["sat"]) - set(hk["mgr"]["sat"])
                for x in sorted(gone):
                    need = [f"{v[0][0]}/{v[0][1]}" for v in hk["pool"] if any(l[2] == x and not l[1] for l in v[5])]
                    if need:
                        return (f"forgot-needed: t={p['now']}: housekeeping forgot the succeeded {x} although pooled task(s) "
                                f"{need} still need it (housekeep was given {sorted(passed)} of the pool {sorted(pooled)})")
                    succeeded.discard(x)
                    if x in last:
                        last[x][2] = True
                if passed != pooled:
                    return (f"pass-discipline: t={p['now']}: housekeep was given {sorted(passed)}, the pool holds "
                            f"{sorted(pooled)}")
            elif (p["mgr"]["due"] or any(e["mgr"]["due"] for e in calls)):
                return f"pass-discipline: t={p['now']}: housekeeping was due but did not run"
        return known

    def classify(self, c, r, failure):
        if failure.startswith("interval-after-forget:"):
            return SIG_FORGET
        return "xtloop:" + failure.split(":")[0].split(" ")[0]

    def key(self, c, r):
        if not isinstance(r, dict) or "trace" not in r:
            return None
        for st in _xt_passes(r["trace"]):
            if st[0] == "pass" and st[3] is not None:
                hk = st[3]
                called = {tuple(e["id"]) for e in st[2]}
                for v in hk["pool"]:
                    if tuple(v[0]) not in called and any(l[2] in hk["before"]["sat"] and not l[1] for l in v[5]):
                        return json.dumps([c["sections"], c["seed"], c["xt"], c["runahead"], c["ops"]], sort_keys=True)
        return None

    def shrink(self, c):
        ops = c.get("ops", [])
        for i in range(len(ops)):
            c2 = json.loads(json.dumps(c))
            del c2["ops"][i]
            yield c2
        if c.get("queues"):
            c2 = json.loads(json.dumps(c))
            c2["queues"] = {}
            yield c2
        for c2 in super().shrink(c):
            if set(c2["xt"]["deps"]) <= {l["rhs"] for sec in c2["sections"] for l in sec["lines"]}:
                yield c2


STREAMS = [XtrigStream(), XtLoopStream()]

META = {
    "level_text": (
        "Coq theorems over Model/Xtrig.v for every history of call_xtriggers_async(task, now)/callback(sig, result)/"
        "housekeep(tasks) with arbitrary clock values: `active` never holds a signature twice and a signature is never "
        "submitted while active (at most one call in progress); between two consecutive submissions of a signature with no "
        "housekeeping-forget in between the clock advanced by at least the interval of the first; after a success no "
        "submission of that signature until housekeep forgets it, which happens only when no task handed to housekeep has "
        "it unsatisfied; a call on a task satisfies every label whose signature has succeeded, and a signature some task "
        "still needs survives housekeeping. The model is tied to the real XtriggerManager by differential histories "
        "compared in Coq (stub pool, virtual clock). Over Model/XtrigLoop.v (the xtrigger section of Scheduler._main_loop, "
        "tied to the real Scheduler by the xtloop stream): a succeeded signature that SOME pooled task, whatever its "
        "runahead/queued/held flags, still has unsatisfied survives every pass and is not called in it; it disappears only "
        "in a pass where no pooled task needs it; the variant that hands housekeep only the tasks checked in the pass is "
        "refuted; sections 1-3 hold for every loop history."),
    "level_note": (
        "Hand model; stubs for proc_pool/broadcast/DB/data store; signatures numbered. The interval guarantee does not "
        "span a housekeeping-forget (after success, when no task needs the signature, housekeep deletes its t_next_call "
        "entry and a later task re-submits it at once): the unconditional statement is refuted in Props/C33.v "
        "(c33_interval_unconditional_refuted) and filed as an open known finding; c33_interval is the restricted theorem. "
        "force_satisfy, sequential-spawn and restart loading are outside this property. Trusted: Coq kernel+VM, harness."),
    "technique": "Coq proof (invariants + ghost-event trace induction) + in-Coq differential correspondence + discipline oracle",
    "design_ref": "5/C33",
}
