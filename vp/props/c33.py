"""C33 — xtriggers are called with the documented discipline (cylc/flow/xtrigger_mgr.py).

Component level: the real XtriggerManager with a stub process pool (records
put_command, callbacks are fed by the harness), stub broadcast/DB/data-store
managers, fake task proxies carrying state.xtriggers dicts, and a virtual clock
(`time` patched in xtrigger_mgr and xtriggers.wall_clock).
"""
from vp.core import Stream
from vp import coqfmt as q

TRUSTED = [
    "hand model Model/Xtrig.v of XtriggerManager.call_xtriggers_async/callback/housekeep "
    "(signatures computed by the real get_xtrig_ctx().get_signature() and numbered by the harness)",
    "stub proc_pool / broadcast_mgr / workflow_db_mgr / data_store_mgr; fake task proxies; virtual clock",
]
ASSUMES = [
    "callbacks arrive only for submitted (active) signatures, once per submission (C42)",
    "housekeep() is given every task proxy of the pool",
    "c33_interval is proved for consecutive submissions with no housekeeping-forget of the signature in between; "
    "across a forget the interval is NOT kept (open known finding, c33_interval_unconditional_refuted)",
]

SIG_FORGET = "xtrig:interval-not-kept-after-housekeeping-forgot-succeeded-signature"

ARGS = {"point": "%(point)s", "name": "%(name)s", "id": "%(id)s", "const": "k"}
OKS = ["true", "true", "false", "false", "error", "garbage"]


def _gen(rng):
    nl = rng.randint(1, 4)
    labels = []
    for k in range(nl):
        if rng.random() < 0.25:
            labels.append({"label": k, "kind": rng.choice(["clock_abs", "clock_rel"]), "t": rng.randint(0, 30)})
        else:
            labels.append({"label": k, "kind": "func", "arg": rng.choice(list(ARGS)),
                           "succeed": rng.random() < 0.5, "intvl": rng.choice([0, 1, 2, 3, 5, 10])})
    # identical function labels (same args) give shared signatures
    if nl >= 2 and rng.random() < 0.3:
        src = rng.choice(labels)
        dst = rng.choice(labels)
        if dst is not src:
            keep = dst["label"]
            dst.clear()
            dst.update(src)
            dst["label"] = keep
            if dst["kind"] == "func":
                dst["intvl"] = rng.choice([0, 2, 5])
    nt = rng.randint(1, 4)
    tasks = []
    for i in range(nt):
        ls = rng.sample(range(nl), rng.randint(1, nl))
        tasks.append({"id": i, "name": rng.choice(["a", "b"]), "point": rng.randint(1, 3), "labels": ls})
    ops = []
    now = rng.randint(0, 5)
    for _ in range(rng.randint(4, 22)):
        x = rng.random()
        if x < 0.55:
            now += rng.choice([0, 0, 1, 1, 2, 3, 5, 8])
            ops.append(["call", rng.randrange(nt), now])
        elif x < 0.85:
            if rng.random() < 0.04:
                ops.append(["cb", rng.randrange(8), rng.choice(OKS), "inactive"])
            else:
                ops.append(["cb", rng.randrange(8), rng.choice(OKS)])
        else:
            sub = [t["id"] for t in tasks if rng.random() < 0.8]
            ops.append(["hk", sub])
    return {"labels": labels, "tasks": tasks, "ops": ops}


class XtrigStream(Stream):
    name = "xtrig"
    coq_import = "From Cylc Require Import Model.Xtrig."
    check_fn = "Xtrig.check_case"
    show_fn = "Xtrig.model_out"
    rule = ("random xtrigger configs (1-4 labels: echo() functions with per-point/per-name/per-task/constant args and "
            "intervals 0..10, wall_clock labels with absolute or point-relative trigger times, duplicated labels sharing a "
            "signature), 1-4 fake tasks over 3 cycle points, op sequences call_xtriggers_async(task) under a virtual clock / "
            "callback(active signature; success, not-yet, error, garbage output; rarely a non-active signature) / "
            "housekeep(subset of tasks); non-trivial = some signature was submitted at least twice or shared by two tasks")
    n_hashseeds = 4
    shard_size = 200
    needs_scratch_home = True

    def corpus(self):
        return [
            # de-duplication across tasks + interval + success + dependents + housekeeping
            {"labels": [{"label": 0, "kind": "func", "arg": "const", "succeed": True, "intvl": 5}],
             "tasks": [{"id": 0, "name": "a", "point": 1, "labels": [0]}, {"id": 1, "name": "b", "point": 2, "labels": [0]}],
             "ops": [["call", 0, 0], ["call", 1, 1], ["cb", 0, "false"], ["call", 1, 3], ["call", 0, 5], ["cb", 0, "true"],
                     ["call", 0, 6], ["hk", [0, 1]], ["call", 1, 7], ["hk", [0, 1]], ["call", 1, 8]]},
            # witness of the open finding: succeeded, forgotten by housekeeping, needed again:
            # re-submitted at t=2 although it was submitted at t=0 with interval 10
            {"labels": [{"label": 0, "kind": "func", "arg": "const", "succeed": True, "intvl": 10}],
             "tasks": [{"id": 0, "name": "a", "point": 1, "labels": [0]}, {"id": 1, "name": "a", "point": 2, "labels": [0]}],
             "ops": [["call", 0, 0], ["cb", 0, "true"], ["call", 0, 1], ["hk", [0]], ["call", 1, 2]]},
            # wall clocks
            {"labels": [{"label": 0, "kind": "clock_rel", "t": 5}, {"label": 1, "kind": "clock_abs", "t": 12}],
             "tasks": [{"id": 0, "name": "a", "point": 1, "labels": [0, 1]}, {"id": 1, "name": "a", "point": 1, "labels": [0]}],
             "ops": [["call", 0, 100], ["call", 0, 106], ["call", 1, 0], ["hk", [0, 1]], ["call", 0, 13], ["hk", [0, 1]]]},
            {"labels": [{"label": 0, "kind": "func", "arg": "point", "succeed": False, "intvl": 2}],
             "tasks": [{"id": 0, "name": "a", "point": 1, "labels": [0]}],
             "ops": [["call", 0, 0], ["cb", 0, "error"], ["cb", 0, "true", "inactive"], ["call", 0, 1], ["call", 0, 2]]},
        ]

    def gen(self, rng, tier):
        n = 260 if tier == "quick" else 6000
        return [_gen(rng) for _ in range(n)]

    # ------------------------------------------------------------ driver
    def impl(self, cases):
        import json
        import logging
        from types import SimpleNamespace
        from cylc.flow import LOG
        import cylc.flow.xtrigger_mgr as xm
        import cylc.flow.xtriggers.wall_clock as wc
        from cylc.flow.subprocctx import SubFuncContext
        LOG.setLevel(logging.CRITICAL + 1)
        clock = [0]
        xm.time = lambda: clock[0]
        wc.time = lambda: clock[0]

        class FakeTask:
            def __init__(self, t):
                self.id_ = t["id"]
                self.point = t["point"]
                self.tdef = SimpleNamespace(name=t["name"])
                self.identity = f"{t['point']}/{t['name']}"
                self.state = SimpleNamespace(xtriggers={f"L{k}": False for k in t["labels"]})

            def get_clock_trigger_time(self, point, offset):
                return int(point) * 100 + int(offset)

            def __str__(self):
                return self.identity

        class Pool:
            def __init__(self):
                self.calls = []

            def put_command(self, ctx, callback=None, **kw):
                self.calls.append((ctx, callback))

        out = []
        for c in cases:
            try:
                pool = Pool()
                noop = lambda *a, **k: None  # noqa
                schd = SimpleNamespace(
                    workflow="wf", owner="me", proc_pool=pool,
                    workflow_db_mgr=SimpleNamespace(put_xtriggers=noop),
                    broadcast_mgr=SimpleNamespace(put_broadcast=noop),
                    data_store_mgr=SimpleNamespace(delta_xtrigger=noop))
                mgr = xm.XtriggerManager(schd, workflow_run_dir="/nonexistent", workflow_share_dir="/nonexistent")
                coll = xm.XtriggerCollator()
                clock_labels = set()
                for lb in c["labels"]:
                    name = f"L{lb['label']}"
                    if lb["kind"] == "func":
                        ctx = SubFuncContext(name, "echo", [ARGS[lb["arg"]]], {"succeed": lb["succeed"]}, lb["intvl"])
                        coll.add_trig(name, ctx, "/nonexistent")
                    else:
                        kw = {"trigger_time": lb["t"]} if lb["kind"] == "clock_abs" else {"offset": lb["t"]}
                        ctx = SubFuncContext(name, "wall_clock", [], kw)
                        # (register as the retry-timer clocks are: no ISO8601 validation of our integer offsets)
                        coll.functx_map[name] = ctx
                        coll.wall_clock_labels.add(name)
                        clock_labels.add(lb["label"])
                mgr.add_xtriggers(coll)
                tasks = [FakeTask(t) for t in c["tasks"]]
                # number the signatures
                signum, sigs, intv, trig = {}, {}, {}, {}
                for t in tasks:
                    sigs[t.id_] = {}
                    for name in t.state.xtriggers:
                        k = int(name[1:])
                        fctx = mgr.get_xtrig_ctx(t, name)
                        s = fctx.get_signature()
                        signum.setdefault(s, len(signum))
                        sigs[t.id_][k] = signum[s]
                        intv[(t.id_, k)] = fctx.intvl
                        if k in clock_labels:
                            trig[(t.id_, k)] = fctx.func_kwargs["trigger_time"]
                last_ctx = {}
                trace = []

                def observe(n0, err, op):
                    for ctx, _cb in pool.calls[n0:]:
                        last_ctx[signum[ctx.get_signature()]] = ctx
                    as_int = lambda v: int(v) if float(v) == int(v) else v  # noqa
                    return {
                        "op": op,
                        "submitted": [signum[ctx.get_signature()] for ctx, _ in pool.calls[n0:]],
                        "cb_is_mgr": all(cb == mgr.callback for _, cb in pool.calls[n0:]),
                        "error": err,
                        "active": [signum[s] for s in mgr.active],
                        "sat": sorted(signum[s] for s in mgr.sat_xtrig),
                        "tnext": sorted([signum[s], as_int(v)] for s, v in mgr.t_next_call.items()),
                        "flags": [[t.id_, [[int(n[1:]), bool(v)] for n, v in t.state.xtriggers.items()]] for t in tasks],
                    }

                for o in c["ops"]:
                    n0 = len(pool.calls)
                    err = None
                    if o[0] == "call":
                        clock[0] = o[2]
                        mgr.call_xtriggers_async(tasks[o[1]])
                        op = ["call", o[1], o[2]]
                    elif o[0] == "hk":
                        mgr.housekeep([t for t in tasks if t.id_ in o[1]])
                        op = ["hk", o[1]]
                    else:
                        act = [signum[s] for s in mgr.active]
                        if len(o) > 3:
                            cand = [v for v in sorted(signum.values()) if v not in act]
                        else:
                            cand = act
                        if not cand:
                            continue
                        s = cand[o[1] % len(cand)]
                        ctx = last_ctx.get(s)
                        if ctx is None:
                            # never submitted: build a context with that signature
                            for t in tasks:
                                for k, v in sigs[t.id_].items():
                                    if v == s and ctx is None:
                                        ctx = mgr.get_xtrig_ctx(t, f"L{k}")
                        ctx.ret_code, ctx.out, ctx.err = 0, None, None
                        if o[2] == "true":
                            ctx.out = json.dumps([True, {"a": "1"}])
                        elif o[2] == "false":
                            ctx.out = json.dumps([False, {}])
                        elif o[2] == "error":
                            ctx.ret_code, ctx.err = 1, "boom"
                        else:
                            ctx.out = "not json"
                        try:
                            mgr.callback(ctx)
                        except ValueError as e:
                            err = f"ValueError: {e}"[:60]
                        op = ["cb", s, o[2] == "true"]
                    trace.append(observe(n0, err, op))
                out.append({
                    "trace": trace,
                    "sigs": {str(t): {str(k): v for k, v in d.items()} for t, d in sigs.items()},
                    "intvl": [[t, k, (int(v) if float(v) == int(v) else v)] for (t, k), v in intv.items()],
                    "trig": [[t, k, v] for (t, k), v in trig.items()],
                })
            except Exception as e:  # noqa
                import traceback
                out.append({"exc": f"{type(e).__name__}: {e}", "tb": traceback.format_exc()[-600:]})
        return out

    # ------------------------------------------------------------ Coq case
    def coq_case(self, c, r):
        if "exc" in r:
            return None
        intv = {(t, k): v for t, k, v in r["intvl"]}
        trig = {(t, k): v for t, k, v in r["trig"]}
        if any(not isinstance(v, int) for v in list(intv.values()) + list(trig.values())):
            return None
        tasks = []
        for t in c["tasks"]:
            es = []
            for k in t["labels"]:
                es.append(q.crecord(
                    e_label=q.cnat(k), e_sig=q.cnat(r["sigs"][str(t["id"])][str(k)]),
                    e_clock=q.copt(trig.get((t["id"], k)), q.cz), e_intvl=q.cz(intv[(t["id"], k)]),
                    e_sat="false"))
            tasks.append(q.crecord(x_id=q.cnat(t["id"]), x_entries=q.clist(es)))
        items = []
        for ob in r["trace"]:
            o = ob["op"]
            if o[0] == "call":
                op = f"(XCall {q.cnat(o[1])} {q.cz(o[2])})"
            elif o[0] == "hk":
                op = f"(XHousekeep {q.clist(q.cnat(i) for i in o[1])})"
            else:
                op = f"(XCallback {q.cnat(o[1])} {q.cbool(o[2])})"
            if any(not isinstance(v, int) for _, v in ob["tnext"]):
                return None
            obs = q.crecord(
                xo_submitted=q.clist(q.cnat(s) for s in ob["submitted"]),
                xo_error=q.cbool(ob["error"] is not None),
                xo_active=q.clist(q.cnat(s) for s in ob["active"]),
                xo_sat=q.clist(q.cnat(s) for s in ob["sat"]),
                xo_tnext=q.clist(q.cpair(q.cnat(s), q.cz(v)) for s, v in ob["tnext"]),
                xo_flags=q.clist(q.cpair(q.cnat(t), q.clist(q.cpair(q.cnat(k), q.cbool(b)) for k, b in fl))
                                 for t, fl in ob["flags"]))
            items.append(q.cpair(op, obs))
        return q.crecord(c_tasks=q.clist(tasks), c_trace=q.clist(items))

    # ------------------------------------------------------------ oracle
    def oracle(self, c, r):
        if "exc" in r:
            return "unexpected exception: " + r["exc"] + " " + r.get("tb", "")[-300:]
        sigs = {int(t): {int(k): v for k, v in d.items()} for t, d in r["sigs"].items()}
        intv = {(t, k): v for t, k, v in r["intvl"]}
        clock_sigs = {sigs[t][k] for t, k, _ in r["trig"]}
        flags = {t["id"]: {k: False for k in t["labels"]} for t in c["tasks"]}
        last_sub = {}        # sig -> [time, interval, forgotten-by-housekeep-since?] of the last submission
        known = None         # first occurrence of the known deviation (reported only if nothing else fails)
        succeeded = set()    # succeeded and not forgotten since
        prev_sat, prev_active = set(), []
        for ob in r["trace"]:
            o = ob["op"]
            new_flags = {t: dict(fl) for t, fl in ob["flags"]}
            if len(set(ob["active"])) != len(ob["active"]):
                return f"two-calls-in-progress: active = {ob['active']}"
            if o[0] != "call" and ob["submitted"]:
                return f"submission outside call_xtriggers_async: {o} submitted {ob['submitted']}"
            if not ob["cb_is_mgr"]:
                return "a command was put without the manager's callback"
            if o[0] == "call":
                tid, now = o[1], o[2]
                if len(set(ob["submitted"])) != len(ob["submitted"]):
                    return f"same signature submitted twice in one call: {ob['submitted']}"
                for s in ob["submitted"]:
                    if s in clock_sigs:
                        return f"wall_clock signature {s} sent to the process pool"
                    if s in prev_active:
                        return f"two-calls-in-progress: {s} submitted while a call was still in progress"
                    if s in succeeded:
                        return f"called-after-success: {s} submitted although it succeeded and is still needed"
                    if s in last_sub and now < last_sub[s][0] + last_sub[s][1]:
                        if not last_sub[s][2]:
                            return (f"interval: {s} submitted at {now}, previous submission at {last_sub[s][0]} "
                                    f"with interval {last_sub[s][1]}")
                        known = known or (
                            f"interval-after-forget: {s} submitted at {now}, previous submission at {last_sub[s][0]} "
                            f"with interval {last_sub[s][1]}; in between it succeeded and housekeep forgot it "
                            f"(with its t_next_call entry) because no task needed it")
                    iv = [intv[(tid, k)] for k, v in sigs[tid].items() if v == s and not flags[tid][k]]
                    last_sub[s] = [now, iv[0] if iv else 0, False]
                    if s not in [sigs[tid][k] for k in flags[tid] if not flags[tid][k]]:
                        return f"{s} submitted but task {tid} has no unsatisfied label with that signature"
                # dependents of succeeded signatures become satisfied
                for k, was in flags[tid].items():
                    if not was and sigs[tid][k] in prev_sat and not new_flags[tid][k]:
                        return f"dependent-not-satisfied: task {tid} label {k} (signature {sigs[tid][k]} has succeeded)"
                    if not was and new_flags[tid][k] and sigs[tid][k] not in ob["sat"]:
                        return f"task {tid} label {k} satisfied but its signature {sigs[tid][k]} has not succeeded"
            if o[0] == "cb" and ob["error"] is None:
                if o[2]:
                    succeeded.add(o[1])
                    if o[1] not in ob["sat"]:
                        return f"success of {o[1]} not recorded"
                if o[1] in ob["active"] and prev_active.count(o[1]) == 1:
                    return f"{o[1]} still active after its callback"
            for s in ob["sat"]:
                if s in clock_sigs:
                    succeeded.add(s)
            # flags: never revert; change only for the called task
            for t, fl in new_flags.items():
                for k, v in fl.items():
                    if flags[t][k] and not v:
                        return f"task {t} label {k} went back to unsatisfied"
                    if v != flags[t][k] and not (o[0] == "call" and o[1] == t):
                        return f"task {t} label {k} changed during {o}"
            if o[0] == "hk":
                needed = {sigs[t][k] for t in o[1] for k, v in flags[t].items() if not v}
                for s in prev_sat - set(ob["sat"]):
                    if s in needed:
                        return f"forgot-needed: housekeep forgot {s} although a task still needs it"
                    succeeded.discard(s)
                    if s in last_sub:
                        last_sub[s][2] = True
            elif prev_sat - set(ob["sat"]):
                return f"succeeded signatures {sorted(prev_sat - set(ob['sat']))} forgotten outside housekeep"
            flags = new_flags
            prev_sat, prev_active = set(ob["sat"]), list(ob["active"])
        return known

    def classify(self, c, r, failure):
        if failure.startswith("interval-after-forget:"):
            return SIG_FORGET
        return "xtrig:" + failure.split(":")[0].split(" ")[0]

    def key(self, c, r):
        if not isinstance(r, dict) or "trace" not in r:
            return None
        subs = [s for ob in r["trace"] for s in ob["submitted"]]
        shared = len({(t, v) for t, d in r["sigs"].items() for v in d.values()}) > len(
            {v for d in r["sigs"].values() for v in d.values()})
        if len(subs) == len(set(subs)) and not shared:
            return None
        return super().key(c, r)

    def shrink(self, c):
        ops = c["ops"]
        for i in range(len(ops)):
            yield {**c, "ops": ops[:i] + ops[i + 1:]}
        if len(c["tasks"]) > 1:
            last = c["tasks"][-1]["id"]
            ops2 = [o for o in ops if not (o[0] == "call" and o[1] == last)]
            ops2 = [[o[0], [i for i in o[1] if i != last]] if o[0] == "hk" else o for o in ops2]
            yield {**c, "tasks": c["tasks"][:-1], "ops": ops2}


STREAMS = [XtrigStream()]

META = {
    "level_text": (
        "Coq theorems over Model/Xtrig.v for every history of call_xtriggers_async(task, now)/callback(sig, result)/"
        "housekeep(tasks) with arbitrary clock values: `active` never holds a signature twice and a signature is never "
        "submitted while active (at most one call in progress); between two consecutive submissions of a signature with no "
        "housekeeping-forget in between the clock advanced by at least the interval of the first; after a success no "
        "submission of that signature until housekeep forgets it, which happens only when no task handed to housekeep has "
        "it unsatisfied; a call on a task satisfies every label whose signature has succeeded, and a signature some task "
        "still needs survives housekeeping. The model is tied to the real XtriggerManager by differential histories "
        "compared in Coq (stub pool, virtual clock)."),
    "level_note": (
        "Hand model; stubs for proc_pool/broadcast/DB/data store; signatures numbered. The interval guarantee does not "
        "span a housekeeping-forget (after success, when no task needs the signature, housekeep deletes its t_next_call "
        "entry and a later task re-submits it at once): the unconditional statement is refuted in Props/C33.v "
        "(c33_interval_unconditional_refuted) and filed as an open known finding; c33_interval is the restricted theorem. "
        "force_satisfy, sequential-spawn and restart loading are outside this property. Trusted: Coq kernel+VM, harness."),
    "technique": "Coq proof (invariants + ghost-event trace induction) + in-Coq differential correspondence + discipline oracle",
    "design_ref": "5/C33",
}
