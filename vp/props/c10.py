"""C10 — stale, duplicate and out-of-order job messages cannot corrupt state
(task level)."""
from vp.props.taskmsg_common import (TaskMsgStream, steps, op_msg, RANK, lined_up, same_state,
                                     exhausted)
from vp.props import c09 as _c09

GEN = ["taskmsg_tables"]
TRUSTED = list(_c09.TRUSTED)
ASSUMES = [
    "task level only; poll results are attributed to the task's current submit number (TaskJobManager."
    "_manip_task_jobs_callback drops results of other submit numbers) - checked at scheduler level",
    "final-outcome theorem: messages about the latest job are those the job emitted (one outcome, no submission "
    "failure, no expiry) and no polled/internal 'started' is delivered after the outcome (late poll = known finding)",
    "no manual intervention, no vacation messages, live run mode",
]


def backwards(kind, st):
    if kind == ("std", "started"):
        return st in ("failed", "succeeded")
    if kind == ("failed",):
        return st == "succeeded"
    if kind == ("subfail",):
        return RANK[st] > RANK["submit-failed"]
    if kind == ("std", "submitted"):
        return RANK[st] >= RANK["submitted"]
    return False


class C10Stream(TaskMsgStream):
    def clauses(self, c, r):
        v = []
        sts = steps(c, r)
        for i, (b, op, a) in enumerate(sts):
            kind, flag, stale = op_msg(op, b)
            if kind is None:
                continue
            if flag == "received" and stale:
                if not same_state(a, b) or a["eff"]:
                    v.append(("stale-changed", f"step {i} {op}: stale message changed the task or had effects {a['eff']}"))
            elif b["st"] == "waiting" and lined_up(b) and kind != ("std", "expired"):
                if not same_state(a, b) or a["eff"]:
                    v.append(("retry-window", f"step {i} {op}: message processed while a retry is lined up"))
            elif flag == "received" and backwards(kind, b["st"]):
                if a["eff"] != [["poll"]] or not same_state(a, b):
                    v.append(("backward-not-polled",
                              f"step {i} {op}: status {b['st']} -> {a['st']}, effects {a['eff']}"))
            elif ["poll"] in a["eff"]:
                v.append(("spurious-poll", f"step {i} {op}: poll requested in status {b['st']}"))
        # final status/outputs of each submission vs the job's actual outcome
        seg_start = None
        bounds = []
        for i, (b, op, a) in enumerate(sts):
            if op[0] == "prep" and a["sn"] != b["sn"]:
                if seg_start is not None:
                    bounds.append((seg_start, i))
                seg_start = i
        if seg_start is not None:
            bounds.append((seg_start, len(sts)))
        for lo, hi in bounds:
            f = self._segment(sts, lo, hi)
            if f:
                v.append(f)
        return v

    @staticmethod
    def _segment(sts, lo, hi):
        start = sts[lo][2]
        outcome, first, late, customs = None, None, False, set()
        for i in range(lo + 1, hi):
            b, op, a = sts[i]
            if op[0] == "prep":
                if b["st"] != "preparing":
                    continue          # not applied by the harness
                continue
            kind, flag, stale = op_msg(op, b)
            if flag == "received" and stale:
                continue
            if kind in (("subfail",), ("std", "expired")):
                return None           # not a job-consistent history
            if kind in (("std", "succeeded"), ("failed",)):
                o = "succeeded" if kind[0] == "std" else "failed"
                if outcome is not None and outcome != o:
                    return None
                if outcome is None:
                    outcome, first = o, i
            elif kind == ("std", "started") and flag != "received" and outcome is not None:
                late = True
            elif kind[0] == "custom":
                customs.add(f"c{kind[1]}")
        if outcome is None or {"succeeded", "failed", "submit-failed"} & set(start["outs"]):
            return None
        b0 = sts[first][0]
        want = "succeeded" if outcome == "succeeded" else ("failed" if exhausted(b0["exec"]) else "waiting")
        end = sts[hi - 1][2]
        eo = set(end["outs"])
        bad = None
        if end["st"] != want:
            bad = f"final status {end['st']} but the job {outcome} (expected {want})"
        elif not {"submitted", "started"} <= eo or (("succeeded" in eo) != (want == "succeeded")) \
                or (("failed" in eo) != (want == "failed")):
            bad = f"final outputs {sorted(eo)} do not match the outcome {outcome}/{want}"
        elif not {x for x in eo if x.startswith("c")} <= ({x for x in start["outs"] if x.startswith("c")} | customs):
            bad = f"final outputs {sorted(eo)} contain a custom output the job did not emit"
        if bad:
            return (("late-poll-final" if late else "final-mismatch"),
                    f"submission {start['sn']} (steps {lo}..{hi - 1}): {bad}")
        return None


STREAMS = [C10Stream()]

META = {
    "level_text": (
        "Coq theorems over Model/TaskMsg.v for all tasks and messages: a received message with a submit number other than "
        "the current one leaves the task unchanged with no effects; a received started/failed/submission-failed/submitted "
        "message that would move the status backwards returns poll=true and leaves the (well-formed) task unchanged; a "
        "waiting task with a retry lined up ignores every non-expire message; for a job-consistent history of the latest "
        "submission (any interleaving, duplicates, stale messages, poll results, at least one delivery of the outcome, no "
        "polled 'started' after it) the final status is the outcome (or waiting-for-retry exactly when a retry remained) "
        "and the outputs are those the job emitted. The statement without the late-poll restriction is refuted in Coq "
        "(known finding). Model tied to the code by per-step differential runs."),
    "level_note": _c09.META["level_note"],
    "technique": _c09.META["technique"],
    "design_ref": "5/C10",
}
