"""C10 — stale, duplicate and out-of-order job messages cannot corrupt state
(task level)."""
from vp.props.taskmsg_common import (TaskMsgStream, steps, op_msg, RANK, lined_up, same_state,
                                     exhausted)
from vp.props import c09 as _c09

GEN = ["taskmsg_tables"]
TRUSTED = list(_c09.TRUSTED)
ASSUMES = [
    "batch stream: the real Scheduler.process_queued_task_messages is called on a stub scheduler object (real queue, "
    "real TaskEventsManager.process_message, pool lookup and poll_task_jobs stubbed); process_job_message (messages of "
    "tasks that are not in the pool) is stubbed and not modelled",
    "task level only; poll results are attributed to the task's current submit number (TaskJobManager."
    "_manip_task_jobs_callback drops results of other submit numbers) - checked at scheduler level",
    "final-outcome theorem: messages about the latest job are those the job emitted (one outcome, no submission "
    "failure, no expiry) and no polled/internal 'started' is delivered after the outcome (late poll = known finding)",
    "no manual intervention, no vacation messages, live run mode",
]


def backwards(kind, st):
    if kind == ("std", "started"):
        return st in ("failed", "succeeded")
    if kind == ("failed",):
        return st == "succeeded"
    if kind == ("subfail",):
        return RANK[st] > RANK["submit-failed"]
    if kind == ("std", "submitted"):
        return RANK[st] >= RANK["submitted"]
    return False


class C10Stream(TaskMsgStream):
    def clauses(self, c, r):
        v = []
        sts = steps(c, r)
        for i, (b, op, a) in enumerate(sts):
            kind, flag, stale = op_msg(op, b)
            if kind is None:
                continue
            if flag == "received" and stale:
                if not same_state(a, b) or a["eff"]:
                    v.append(("stale-changed", f"step {i} {op}: stale message changed the task or had effects {a['eff']}"))
            elif b["st"] == "waiting" and lined_up(b) and kind != ("std", "expired"):
                if not same_state(a, b) or a["eff"]:
                    v.append(("retry-window", f"step {i} {op}: message processed while a retry is lined up"))
            elif flag == "received" and backwards(kind, b["st"]):
                if a["eff"] != [["poll"]] or not same_state(a, b):
                    v.append(("backward-not-polled",
                              f"step {i} {op}: status {b['st']} -> {a['st']}, effects {a['eff']}"))
            elif ["poll"] in a["eff"]:
                v.append(("spurious-poll", f"step {i} {op}: poll requested in status {b['st']}"))
        # final status/outputs of each submission vs the job's actual outcome
        seg_start = None
        bounds = []
        for i, (b, op, a) in enumerate(sts):
            if op[0] == "prep" and a["sn"] != b["sn"]:
                if seg_start is not None:
                    bounds.append((seg_start, i))
                seg_start = i
        if seg_start is not None:
            bounds.append((seg_start, len(sts)))
        for lo, hi in bounds:
            f = self._segment(sts, lo, hi)
            if f:
                v.append(f)
        return v

    @staticmethod
    def _segment(sts, lo, hi):
        start = sts[lo][2]
        outcome, first, late, customs = None, None, False, set()
        for i in range(lo + 1, hi):
            b, op, a = sts[i]
            if op[0] == "prep":
                if b["st"] != "preparing":
                    continue          # not applied by the harness
                continue
            kind, flag, stale = op_msg(op, b)
            if flag == "received" and stale:
                continue
            if kind in (("subfail",), ("std", "expired")):
                return None           # not a job-consistent history
            if kind in (("std", "succeeded"), ("failed",)):
                o = "succeeded" if kind[0] == "std" else "failed"
                if outcome is not None and outcome != o:
                    return None
                if outcome is None:
                    outcome, first = o, i
            elif kind == ("std", "started") and flag != "received" and outcome is not None:
                late = True
            elif kind[0] == "custom":
                customs.add(f"c{kind[1]}")
        if outcome is None or {"succeeded", "failed", "submit-failed"} & set(start["outs"]):
            return None
        b0 = sts[first][0]
        want = "succeeded" if outcome == "succeeded" else ("failed" if exhausted(b0["exec"]) else "waiting")
        end = sts[hi - 1][2]
        eo = set(end["outs"])
        bad = None
        if end["st"] != want:
            bad = f"final status {end['st']} but the job {outcome} (expected {want})"
        elif not {"submitted", "started"} <= eo or (("succeeded" in eo) != (want == "succeeded")) \
                or (("failed" in eo) != (want == "failed")):
            bad = f"final outputs {sorted(eo)} do not match the outcome {outcome}/{want}"
        elif not {x for x in eo if x.startswith("c")} <= ({x for x in start["outs"] if x.startswith("c")} | customs):
            bad = f"final outputs {sorted(eo)} contain a custom output the job did not emit"
        if bad:
            return (("late-poll-final" if late else "final-mismatch"),
                    f"submission {start['sn']} (steps {lo}..{hi - 1}): {bad}")
        return None



META = {
    "level_text": (
        "Coq theorems over Model/TaskMsg.v for all tasks and messages: a received message with a submit number other than "
        "the current one leaves the task unchanged with no effects; a received started/failed/submission-failed/submitted "
        "message that would move the status backwards returns poll=true and leaves the (well-formed) task unchanged; a "
        "waiting task with a retry lined up ignores every non-expire message; for a job-consistent history of the latest "
        "submission (any interleaving, duplicates, stale messages, poll results, at least one delivery of the outcome, no "
        "polled 'started' after it) the final status is the outcome (or waiting-for-retry exactly when a retry remained) "
        "and the outputs are those the job emitted. The statement without the late-poll restriction is refuted in Coq "
        "(known finding). Batch level (Model/TaskBatch.v = the per-task loop of Scheduler.process_queued_task_messages): the "
        "task is polled iff some message of its batch, where it is processed, asked for it (= is current and backward); a "
        "batch equals the sequence of its single-message batches (state, effects, OR of polls); the poll decision is "
        "invariant under permutation of batches of stale/custom/backward messages; 'last message decides' is refuted. "
        "Models tied to the code by per-step differential runs and by runs of the real process_queued_task_messages on "
        "real TaskMsg queues."),
    "level_note": _c09.META["level_note"],
    "technique": _c09.META["technique"],
    "design_ref": "5/C10",
}


# ==========================================================================
# batch level: Scheduler.process_queued_task_messages
# ==========================================================================
import json as _json
from vp.core import Stream
from vp.props import taskmsg_common as _T
from vp import coqfmt as _q

BATCH_PREFIXES = [
    [], [["prep"]], [["prep"], ["subres", True]],
    [["prep"], ["subres", True], ["msg", "started", "received", 0]],
    [["prep"], ["msg", "started", "received", 0], ["msg", "succeeded", "received", 0]],
    [["prep"], ["msg", "started", "received", 0], ["msg", "failed/ERR", "received", 0]],
    [["prep"], ["subres", False]],
    [["prep"], ["msg", "started", "received", 0], ["msg", "failed", "received", 0], ["prep"],
     ["subres", True]],
]
BATCH_SYMS = ["submitted", "started", "succeeded", "failed", "submission failed", "custom", "other",
              "expired"]


def _batch_msg(rng, k):
    sym = rng.choice(BATCH_SYMS[:7] + ["started", "started", "custom", "other", "submitted", "failed"])
    if rng.random() < 0.03:
        sym = "expired"
    return [_T._text(rng, sym, k), rng.choices([0, -1, 1], [8, 2, 1])[0]]


def gen_batch(rng):
    n, m, k = rng.randint(0, _T.NMAX), rng.randint(0, _T.NMAX), rng.randint(0, _T.KMAX)
    pre = [list(o) for o in rng.choice(BATCH_PREFIXES)]
    if rng.random() < 0.25:
        pre = _T.gen_random(rng, 5)["ops"]
    batch = [_batch_msg(rng, k) for _ in range(rng.randint(1, 5))]
    c = {"n": n, "m": m, "k": k, "pre": pre, "batch": batch, "in_pool": rng.random() > 0.08,
         "kind": "batch"}
    if rng.random() < 0.3:
        # messages of a second pool task (succeeded) interleaved in the same queue
        c["decoy"] = [rng.choice(["started", "hello world", "failed"]) for _ in range(rng.randint(1, 3))]
    return c


def _call_queue(fx, tasks, queue_items):
    """put TaskMsg objects on a real queue and call the real
    Scheduler.process_queued_task_messages on a stub scheduler object"""
    import queue
    from types import SimpleNamespace
    from cylc.flow.id import Tokens
    from cylc.flow.network.resolvers import TaskMsg
    from cylc.flow.scheduler import Scheduler

    polled = []
    by_id = {t.identity: t for t in tasks.values() if t is not None}
    schd = SimpleNamespace(
        message_queue=queue.Queue(),
        pool=SimpleNamespace(_get_task_by_id=lambda id_: by_id.get(id_)),
        # messages of tasks that are not in the pool go to process_job_message (job-only
        # bookkeeping in the data store / DB, outside this model): stubbed
        task_events_mgr=SimpleNamespace(
            process_message=fx["tem"].process_message,
            FLAG_RECEIVED=fx["tem"].FLAG_RECEIVED,
            process_job_message=lambda *a, **k: True),
        task_job_mgr=SimpleNamespace(poll_task_jobs=lambda itasks, msg=None: polled.append(list(itasks))),
        tokens=Tokens("~u/vp-taskmsg"),
        config=SimpleNamespace(get_taskdef=lambda name: fx["cfg"].taskdefs[name]),
    )
    for name, subnum, text in queue_items:
        schd.message_queue.put(TaskMsg(Tokens(f"1/{name}/{subnum:02d}", relative=True),
                                       "2020-01-01T00:00:00Z", "INFO", text))
    Scheduler.process_queued_task_messages(schd)
    return polled


def _subnum(itask, rel):
    n = itask.submit_num + rel
    return n if n >= 0 else itask.submit_num + 1      # any other number is stale alike


def run_batch_case(c):
    decoy_case = {"n": 2, "m": 2, "k": 2} if (c["n"], c["m"], c["k"]) != (2, 2, 2) else {"n": 0, "m": 0, "k": 0}
    decoy_pre = [["prep"], ["msg", "started", "received", 0], ["msg", "succeeded", "received", 0]]
    out = {}
    for mode in ("batch", "singles"):
        fx, tdef, itask = _T.new_task(c)
        rec = fx["rec"]
        for op in c["pre"]:
            _T.apply_op(fx, tdef, itask, op)
        decoy = None
        if c.get("decoy"):
            _, dtdef, decoy = _T.new_task(decoy_case)
            for op in decoy_pre:
                _T.apply_op(fx, dtdef, decoy, op)
        before = _T._observe(itask, [])
        rec["eff"] = []
        tasks = {"main": itask if c["in_pool"] else None, "decoy": decoy}
        items = [(tdef.name, _subnum(itask, rel), text) for text, rel in c["batch"]]
        ditems = [(decoy.tdef.name, decoy.submit_num, text) for text in c.get("decoy", [])] if decoy else []
        if mode == "batch":
            merged = []
            for i in range(max(len(items), len(ditems))):
                merged += items[i:i + 1] + ditems[i:i + 1]
            calls = _call_queue(fx, tasks, merged)
            out["before"] = before
            out["after"] = _T._observe(itask, rec["eff"])
            out["polled"] = any(itask in l for l in calls)
            out["decoy_polled"] = bool(decoy) and any(decoy in l for l in calls)
            out["calls"] = [len(l) for l in calls]
            out["dups"] = any(len(set(map(id, l))) != len(l) for l in calls)
        else:
            singles, eff = [], []
            for it in items:
                b = _T._observe(itask, [])
                rec["eff"] = []
                calls = _call_queue(fx, tasks, [it])
                eff += rec["eff"]
                singles.append({"st": b["st"], "exec": b["exec"], "sub": b["sub"],
                                "polled": any(itask in l for l in calls)})
            dpoll = False
            for it in ditems:
                dpoll = any(decoy in l for l in _call_queue(fx, tasks, [it])) or dpoll
            out["singles"] = singles
            out["singles_after"] = _T._observe(itask, eff)
            out["decoy_singles_polled"] = dpoll
    return out


class BatchStream(Stream):
    name = "taskbatch"
    coq_import = "From Cylc Require Import Gen.TaskMsgTables Model.TaskMsg Model.TaskBatch."
    check_fn = "TaskBatch.check_case"
    show_fn = "TaskBatch.model_out"
    needs_scratch_home = True
    n_hashseeds = 4
    rule = ("a real TaskProxy brought to a generated state (8 fixed prefixes or random ops), then 1-5 TaskMsg objects "
            "(lifecycle messages incl. backward/duplicate ones, custom/progress texts, stale submit numbers; sometimes "
            "interleaved with messages of a second pool task, sometimes the task is not in the pool) on a real queue "
            "processed by the real Scheduler.process_queued_task_messages (stub scheduler object); compared: final task, "
            "spawn/retry effects, whether poll_task_jobs got the task; the same messages are also delivered as "
            "single-message batches; thorough adds all batches of length <= 3 over 8 texts x 8 prefixes; "
            "non-trivial = batch of >= 2 messages in which some message asks for a poll or changes the status")

    def corpus(self):
        return [
            # late 'started' for a failed task, then a progress message (the last message does not ask for a poll)
            {"n": 0, "m": 0, "k": 1, "in_pool": True, "kind": "batch",
             "pre": [["prep"], ["msg", "started", "received", 0], ["msg", "failed/ERR", "received", 0]],
             "batch": [["started", 0], ["out 0 done", 0]]},
            {"n": 0, "m": 0, "k": 0, "in_pool": True, "kind": "batch", "decoy": ["started", "hello world"],
             "pre": [["prep"], ["subres", True]], "batch": [["submitted", 0], ["hello world", 0], ["started", -1]]},
            {"n": 1, "m": 0, "k": 0, "in_pool": False, "kind": "batch",
             "pre": [["prep"], ["msg", "started", "received", 0], ["msg", "succeeded", "received", 0]],
             "batch": [["started", 0], ["failed", 0]]},
        ]

    def gen(self, rng, tier):
        cases = [gen_batch(rng) for _ in range(300 if tier == "quick" else 4000)]
        if tier == "thorough":
            import itertools
            for pre in BATCH_PREFIXES:
                for ln in (1, 2, 3):
                    for combo in itertools.product(BATCH_SYMS, repeat=ln):
                        cases.append({"n": rng.randint(0, 1), "m": rng.randint(0, 1), "k": 1, "in_pool": True,
                                      "pre": [list(o) for o in pre], "kind": "batch-exhaustive",
                                      "batch": [[_T.custom_msg(0) if s == "custom" else
                                                 ("hello world" if s == "other" else s), 0] for s in combo]})
        return cases

    def impl(self, cases):
        out = []
        for c in cases:
            try:
                out.append(run_batch_case(c))
            except Exception as e:  # noqa
                import traceback
                out.append({"exc": f"{type(e).__name__}: {e}", "tb": traceback.format_exc()[-1500:]})
        return out

    def coq_case(self, c, r):
        if "exc" in r:
            return None
        return _q.crecord(
            b_n=_q.cnat(c["n"]), b_m=_q.cnat(c["m"]), b_k=_q.cnat(c["k"]),
            b_pre=_q.clist(_T.op_coq(o) for o in c["pre"]),
            b_inpool=_q.cbool(c["in_pool"]),
            b_batch=_q.clist(_q.cpair(_T.msg_coq(t), _q.cz(rel)) for t, rel in c["batch"]),
            b_impl=_T.obs_coq(r["after"]), b_polled=_q.cbool(r["polled"]))

    def oracle(self, c, r):
        if "exc" in r:
            return "[exception] unexpected exception: " + r["exc"]
        v = []
        if r["dups"] or len(r["calls"]) > 1:
            v.append(("poll-calls", f"poll_task_jobs calls {r['calls']} (duplicates: {r['dups']})"))
        if not c["in_pool"]:
            if not same_state(r["after"], r["before"]) or r["after"]["eff"] or r["polled"]:
                v.append(("not-in-pool", "a task that is not in the pool was changed or polled"))
        else:
            want = False
            for (text, rel), s in zip(c["batch"], r["singles"]):
                kind = _T.msg_kind(text)
                ask = (rel == 0 and backwards(kind, s["st"])
                       and not (s["st"] == "waiting" and lined_up(s)))
                if s["polled"] != ask:
                    v.append(("single-poll", f"message {text!r} rel {rel} in status {s['st']}: poll requested = "
                              f"{s['polled']}, backward = {ask}"))
                want = want or ask
            if r["polled"] != want:
                v.append(("batch-poll", f"batch {c['batch']}: task polled = {r['polled']} but "
                          f"{'a' if want else 'no'} message of the batch would move the status backwards"))
            if r["polled"] != any(s["polled"] for s in r["singles"]):
                v.append(("batch-vs-singles-poll", f"batch polled = {r['polled']}, single-message batches "
                          f"{[s['polled'] for s in r['singles']]}"))
            if not same_state(r["after"], r["singles_after"]) or r["after"]["eff"] != r["singles_after"]["eff"]:
                v.append(("batch-vs-singles-state", f"batch -> {r['after']}, one by one -> {r['singles_after']}"))
        if c.get("decoy") and r["decoy_polled"] != r["decoy_singles_polled"]:
            v.append(("decoy-poll", f"second task polled = {r['decoy_polled']}, one by one "
                      f"{r['decoy_singles_polled']}"))
        if v:
            return "; ".join(f"[{t}] {x}" for t, x in v[:4])
        return None

    def key(self, c, r):
        if "exc" in r or len(c["batch"]) < 2 or not c["in_pool"]:
            return None
        if not (r["polled"] or r["after"]["st"] != r["before"]["st"]):
            return None
        return _json.dumps([c["n"], c["m"], c["k"], c["pre"], c["batch"]])

    def classify(self, c, r, failure):
        tag = failure.split("]")[0].lstrip("[") if failure.startswith("[") else "other"
        return f"{self.name}:{tag}"

    def shrink(self, c):
        for i in range(len(c["batch"])):
            if len(c["batch"]) > 1:
                yield dict(c, batch=c["batch"][:i] + c["batch"][i + 1:])
        for i in range(len(c["pre"])):
            yield dict(c, pre=c["pre"][:i] + c["pre"][i + 1:])
        if c.get("decoy"):
            yield {k: v for k, v in c.items() if k != "decoy"}


STREAMS = [C10Stream(), BatchStream()]
