"""C06 — holds: pool automaton (Model/Pool.v) + real scheduler traces with hold/release/hold-point commands."""
from vp.sched.stream import SchedStream
from vp.props.c01 import TRUSTED, ASSUMES  # noqa

STREAMS = [SchedStream("C06", name="sched-hold", feat={"hold": True, "abs": True}),
           # holds must persist across restarts: the restart scenarios of C19 (same feature set, shared runs)
           SchedStream("C06", name="sched-restart", feat={"restart": True, "hold": True, "abs": True},
                       n_quick=24, n_thorough=500)]
META = {
    "level_text": ("Coq theorems over the pool automaton: a held task is never queued, never released from a queue and never enters "
                   "preparation unless manually triggered; the held flag is set only for instances in the hold set or beyond the hold "
                   "point and cleared only after release; a future instance in the hold set is held when it spawns; at every accepted tick "
                   "end the real hold set/hold point equal the abstract ones. Tie: real scheduler runs with generated hold / release / "
                   "set-hold-point / release-hold-point commands (on pooled and future ids) interleaved with spawning and job events must be "
                   "accepted by the automaton. Persistence across restart: the second stream stops and restarts the scheduler at generated "
                   "iterations; the hold set, hold point and every held flag after reload must equal the abstract ones."),
    "level_note": TRUSTED[0],
    "technique": "Coq proof of hold guards of the pool automaton + in-Coq trace validation of real runs with hold commands",
    "design_ref": "5/C06",
}
