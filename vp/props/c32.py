"""C32 — clock expiry only expires eligible tasks.

Stream: generated date-cycling workflows with clock-expire offsets (positive,
negative, zero), run on the real Scheduler in-process through the shared driver
(vp/sched/driver.py) with the C32 extension vp/sched/expire_ext.py: a virtual clock
(the value `TaskProxy.clock_expire` reads) chosen per main-loop iteration by the
scenario, and checkpoints around `clock_expire_tasks` and `release_tasks_to_run`.

Every main-loop iteration of every run becomes one checkpoint of the Coq case:
Model/Expire.v recomputes the expiry pass on the recorded pool and clock value and
the release/submit step that follows, and both are compared with what the real
scheduler did (pool field by field, events in order) inside Coq.  The oracle states
the property on the recorded history without the model.
"""
from __future__ import annotations

import ast
import json
import os
import random
import re
from pathlib import Path

from vp import coqfmt as q
from vp.core import Stream

TRUSTED = [
    "Model/Expire.v is a hand model of clock_expire_tasks / clock_expire / state_reset(expired) / process_message(expired) / "
    "spawn_on_output / remove_if_complete / remove and of queue_if_ready / queue_or_trigger / release_tasks_to_run; the graph "
    "children, parentless successors and expiry times given to it are computed by this file from the generated workflow "
    "(not read from cylc); completion expressions are read from the loaded task definitions.",
    "Trusted: Coq kernel+VM; the in-process driver vp/sched/driver.py (fake process pool) and vp/sched/expire_ext.py "
    "(virtual clock = the `time` name of cylc.flow.task_proxy, checkpoints by wrapping clock_expire_tasks, "
    "release_tasks_to_run, spawn_on_output, remove_if_complete).",
]
ASSUMES = [
    "Gregorian date cycling from 2000-01-01 (P1D), UTC; one flow (plus no-flow triggers; iterations in which flows merge are "
    "checked by the oracle only); no suicide triggers, xtriggers, "
    "reload or `cylc set --out=expired`; jobs are simulated by the harness and job preparation never stays pending",
]

NAMES = ["a", "b", "c", "d", "e"]
OFFS = [("", 0), ("PT0S", 0), ("PT1H", 3600), ("PT6H", 21600), ("P1D", 86400), ("-P1D", -86400),
        ("-PT6H", -21600), ("P1DT12H", 129600), ("-PT1H", -3600), ("PT30M", 1800)]
OFFSEC = dict(OFFS)
DAY = 86400
STATUSES = {"waiting": "Waiting", "expired": "Expired", "preparing": "Preparing", "submit-failed": "SubmitFailed",
            "submitted": "Submitted", "running": "Running", "failed": "Failed", "succeeded": "Succeeded"}
OUTNUM = {"expired": 0, "submitted": 1, "started": 2, "succeeded": 3, "failed": 4, "submit_failed": 5}

SIG_SUCC = "expire:runahead-limited-expiry-drops-parentless-successor"


# ---------------------------------------------------------------------------
# scenarios
# ---------------------------------------------------------------------------
def point_str(day: int) -> str:
    return str(20000101 + day)


def render(scn) -> str:
    so = scn["succ_opt"]

    def node(t):
        return t + ("?" if so[t] else "")

    out = ["[scheduler]", "    allow implicit tasks = True", "    cycle point format = CCYYMMDD",
           "    [[events]]", "        stall timeout = PT0S", "        abort on stall timeout = False",
           "        inactivity timeout = PT10M",
           "[scheduling]", "    initial cycle point = 20000101",
           f"    final cycle point = {point_str(scn['ncycles'] - 1)}",
           f"    runahead limit = P{scn['runahead']}",
           "    [[special tasks]]",
           "        clock-expire = " + ", ".join(t + (f"({o})" if o else "") for t, o in sorted(scn["expire"].items()))]
    if scn.get("queue_limit"):
        out += ["    [[queues]]", "        [[[default]]]", f"            limit = {scn['queue_limit']}"]
    out += ["    [[graph]]", '        P1D = """']
    for e in scn["edges"]:
        p = e["p"] + ("[-P1D]" if e["off"] == -1 else "")
        if e["out"] == "succeeded":
            lhs = p + ("?" if so[e["p"]] else "")
        elif e["out"] == "started":
            lhs = p + ":started"
        else:
            lhs = p + ":" + e["out"] + "?"
        out.append(f"            {lhs} => {node(e['c'])}")
    for t in scn["solo"]:
        out.append(f"            {node(t)}")
    out.append('        """')
    out += ["[runtime]", "    [[root]]", "        script = true"]
    for t in scn["tasks"]:
        out.append(f"    [[{t}]]")
        if t in scn.get("retries", {}):
            out.append(f"        execution retry delays = {scn['retries'][t]}")
    return "\n".join(out) + "\n"


def gen_workflow(r: random.Random) -> dict:
    nt = r.randint(2, 5)
    tasks = NAMES[:nt]
    ncyc = r.randint(2, 4)
    etasks = r.sample(tasks, r.randint(1, min(3, nt)))
    expire = {t: r.choice(OFFS)[0] for t in etasks}
    succ_opt = {t: r.random() < 0.45 for t in tasks}
    edges, seen = [], set()

    def add(p, out, off, c):
        k = (p, out, off, c)
        if k in seen or (p == c and off == 0):
            return
        seen.add(k)
        edges.append({"p": p, "out": out, "off": off, "c": c})

    for e in etasks:
        i = tasks.index(e)
        later = tasks[i + 1:]
        if r.random() < 0.75:
            if later and r.random() < 0.8:
                add(e, "expired", 0, r.choice(later))
            else:
                add(e, "expired", -1, r.choice([t for t in tasks if t != e] or [e]))
        if later and r.random() < 0.5:
            add(e, "succeeded", 0, r.choice(later))
    for i, t in enumerate(tasks):
        if i and r.random() < 0.55:
            p = r.choice(tasks[:i])
            out = r.choice(["succeeded", "succeeded", "started", "failed"])
            if out == "failed" and not succ_opt[p]:
                out = "succeeded"
            add(p, out, r.choice([0, 0, 0, -1]), t)
        if r.random() < 0.2:
            add(t, "succeeded", -1, t)
    used = {e["c"] for e in edges}
    solo = [t for t in tasks if t not in used]
    scn = {"tasks": tasks, "ncycles": ncyc, "expire": expire, "succ_opt": succ_opt, "edges": edges, "solo": solo,
           "runahead": r.choice([0, 1, 1, 2, 3]), "queue_limit": r.choice([None, None, 1, 2]),
           "retries": {t: "2*PT1H" for t in etasks if r.random() < 0.3},
           "fail_rate": r.choice([0.0, 0.0, 0.3, 0.6]), "customs": {}, "seed": r.randrange(1 << 20),
           "disorder": 0.0, "max_ticks": 30}
    return scn


def instances(scn):
    return [(d, t) for d in range(scn["ncycles"]) for t in scn["tasks"]]


def exp_time(scn, day, name):
    if name not in scn["expire"]:
        return None
    return day * DAY + OFFSEC[scn["expire"][name]]


def ref_children(scn, day, name, out, clip=True):
    """graph children of output `out` of instance (day, name): the reference semantics of the generated graph
    (clip: only the children inside the workflow's cycle range, i.e. those that can exist)"""
    res = set()
    for e in scn["edges"]:
        if e["p"] == name and e["out"] == out:
            cd = day - e["off"]
            if 0 <= cd and (cd < scn["ncycles"] or not clip):
                res.add((cd, e["c"]))
    return sorted(res)


def ref_parentless(scn, day, name):
    ps = [e for e in scn["edges"] if e["c"] == name]
    return all(day + e["off"] < 0 for e in ps)


def ref_next(scn, day, name):
    for d in range(day + 1, scn["ncycles"]):
        if ref_parentless(scn, d, name):
            return d
    return None


def expiry_times(scn):
    return sorted({exp_time(scn, d, t) for d, t in instances(scn) if t in scn["expire"]})


def gen_clock(r: random.Random, scn, kind=None, k=None, delta=None) -> list:
    ts = expiry_times(scn)
    n = 24
    kind = kind or r.choice(["ramp", "ramp", "cross", "cross", "cross", "exact", "past", "never", "random"])
    lo = ts[0] - 7200
    if kind == "ramp":
        step = r.choice([900, 1800, 3600, 21600, 43200, 86400])
        start = r.choice([lo, ts[0] - step, ts[0], r.choice(ts) - 2 * step])
        return [start + i * step for i in range(n)]
    if kind in ("cross", "exact"):
        tgt = r.choice(ts)
        k = r.randint(0, 14) if k is None else k
        d = (0 if kind == "exact" else r.choice([-1, 0, 1, 1, 3600, 90000])) if delta is None else delta
        pre = r.choice([lo, tgt - 1, tgt - 3600])
        pre = min(pre, tgt + d)
        later = r.choice([0, 0, 3600, 86400, 5 * 86400])
        return [pre if i < k else (tgt + d if i < k + 3 else tgt + d + later * (i - k - 2)) for i in range(n)]
    if kind == "past":
        return [ts[-1] + r.choice([0, 1, 86400])] * n
    if kind == "never":
        return [lo] * n
    cur, out = r.choice([lo, ts[0] - 1]), []
    for _ in range(n):
        out.append(cur)
        cur += r.choice([0, 0, 1, 1800, 3600, 21600, 86400])
    return out


def gen_ops(r: random.Random, scn) -> list:
    ops = []
    inst = instances(scn)
    einst = [i for i in inst if i[1] in scn["expire"]]
    for _ in range(r.choice([0, 0, 1, 1, 2, 3])):
        kind = r.choice(["hold", "hold", "hold", "trigger", "trigger", "trigger", "trigger-none"])
        d, t = r.choice(einst if r.random() < 0.8 else inst)
        tick = r.choice([0, 0, 1, 2, r.randint(0, 12)]) if kind == "hold" else r.randint(0, 12)
        tid = f"{point_str(d)}/{t}"
        if kind == "hold":
            ops.append({"tick": tick, "cmd": "hold", "args": {"tasks": [tid]}})
            if r.random() < 0.6:
                ops.append({"tick": tick + r.randint(1, 8), "cmd": "release", "args": {"tasks": [tid]}})
        elif kind == "trigger":
            ops.append({"tick": tick, "cmd": "force_trigger_tasks", "args": {"tasks": [tid], "flow": ["all"]}})
        else:
            ops.append({"tick": tick, "cmd": "force_trigger_tasks", "args": {"tasks": [tid], "flow": ["none"]}})
    ops.sort(key=lambda o: o["tick"])
    return ops


def finish(scn):
    scn["flow_text"] = render(scn)
    return scn


def keep_alive(scn, upto):
    """the driver stops stepping a quiet workflow; a no-op operation at tick `upto` keeps it going until then"""
    scn["ops"] = [o for o in scn["ops"] if o["cmd"] != "x_noop"] + [{"tick": upto, "cmd": "x_noop", "args": {}}]
    scn["ops"].sort(key=lambda o: o["tick"])
    return scn


def last_crossing(scn) -> int:
    """index of the last iteration at which the clock moves"""
    ck = scn["clock"]
    return max([i for i in range(1, len(ck)) if ck[i] != ck[i - 1]] or [0])


def gen_scenario(r: random.Random) -> dict:
    scn = gen_workflow(r)
    scn["clock"] = gen_clock(r, scn)
    scn["ops"] = gen_ops(r, scn)
    keep_alive(scn, min(last_crossing(scn), 12) + 3)
    return finish(scn)


def witness_successor() -> dict:
    """Minimal witness of the open finding: `a` clock-expires in every cycle, the clock is past all
    expiry times from the start, runahead limit P1: 3/a expires while runahead-limited and is removed
    without spawning 4/a; the workflow shuts down after three of six cycles."""
    scn = {"tasks": ["a", "b"], "ncycles": 6, "expire": {"a": ""}, "succ_opt": {"a": True, "b": False},
           "edges": [{"p": "a", "out": "expired", "off": 0, "c": "b"}], "solo": ["a"], "runahead": 1,
           "queue_limit": None, "retries": {}, "fail_rate": 0.0, "customs": {}, "seed": 1, "disorder": 0.0,
           "max_ticks": 30, "clock": [30 * DAY] * 24, "ops": []}
    return finish(scn)


def witness_basic() -> dict:
    """a(PT1H), b(-P1D), c: positive, negative and zero offsets, a held task, a manual trigger at the expiry time."""
    scn = {"tasks": ["a", "b", "c", "d"], "ncycles": 3, "expire": {"a": "PT1H", "b": "-P1D", "c": ""},
           "succ_opt": {"a": True, "b": True, "c": False, "d": False},
           "edges": [{"p": "a", "out": "expired", "off": 0, "c": "d"}, {"p": "a", "out": "succeeded", "off": 0, "c": "b"},
                     {"p": "b", "out": "expired", "off": 0, "c": "c"}],
           "solo": ["a"], "runahead": 3, "queue_limit": 1, "retries": {}, "fail_rate": 0.0, "customs": {}, "seed": 3,
           "disorder": 0.0, "max_ticks": 30,
           "clock": [-7200 + 1800 * i for i in range(24)],
           "ops": [{"tick": 0, "cmd": "hold", "args": {"tasks": ["20000102/a"]}},
                   {"tick": 5, "cmd": "force_trigger_tasks", "args": {"tasks": ["20000101/a"], "flow": ["all"]}}]}
    return finish(scn)


def witness_trigger_queued() -> dict:
    """The seeded-regression scenario (/verif/seeded/C32/demo.py): `a => b`, queue limit 1, clock-expire = b(PT1H);
    while a has its job the operator triggers b at 00:10: b is spawned and lands in the full queue; the clock moves
    to 02:00 with b still queued.  b was triggered manually, so it must not expire, and it runs when a is done."""
    scn = {"tasks": ["a", "b"], "ncycles": 1, "expire": {"b": "PT1H"}, "succ_opt": {"a": False, "b": False},
           "edges": [{"p": "a", "out": "succeeded", "off": 0, "c": "b"}], "solo": ["a"], "runahead": 1,
           "queue_limit": 1, "retries": {}, "fail_rate": 0.0, "customs": {}, "seed": 2, "disorder": 0.0, "max_ticks": 30,
           "clock": [600, 600] + [7200] * 22,
           "ops": [{"tick": 1, "cmd": "force_trigger_tasks", "args": {"tasks": ["20000101/b"], "flow": ["all"]}},
                   {"tick": 8, "cmd": "x_noop", "args": {}}]}
    return finish(scn)


def gen_qtrig(r: random.Random) -> dict:
    """Manual trigger of a clock-expire task that is not flagged queued (not yet spawned / waiting on a parent /
    held / runahead-limited) or already queued, while a limited queue is full, shortly before the clock crosses
    the target's expiry time."""
    nt = r.randint(3, 5)
    tasks = NAMES[:nt]
    ncyc = r.randint(2, 4)
    mode = r.choice(["dep", "dep", "held", "runahead", "queued"])
    off = r.choice(["", "PT30M", "PT1H", "PT6H", "P1D", "-PT1H"])
    expire = {"b": off}
    if nt > 3 and r.random() < 0.3:
        expire[r.choice(tasks[2:])] = r.choice(OFFS)[0]
    succ_opt = {t: False for t in tasks}
    succ_opt["b"] = r.random() < 0.5
    edges = []
    if mode in ("dep", "held"):
        edges.append({"p": "a", "out": r.choice(["succeeded", "succeeded", "started"]), "off": 0, "c": "b"})
    if r.random() < 0.6:
        edges.append({"p": "b", "out": "expired", "off": 0, "c": tasks[-1]})
    used = {e["c"] for e in edges}
    runahead = r.choice([0, 1]) if mode == "runahead" else r.choice([1, 2, 3])
    day = r.randint(min(runahead + 1, ncyc - 1), ncyc - 1) if mode == "runahead" else r.randint(0, min(1, ncyc - 1))
    scn = {"tasks": tasks, "ncycles": ncyc, "expire": expire, "succ_opt": succ_opt, "edges": edges,
           "solo": [t for t in tasks if t not in used], "runahead": runahead,
           "queue_limit": r.choice([1, 1, 1, 2]), "retries": {}, "fail_rate": 0.0, "customs": {},
           "seed": r.randrange(1 << 20), "disorder": 0.0, "max_ticks": 30, "family": "qtrig:" + mode}
    tid = f"{point_str(day)}/b"
    k1 = r.randint(1, 5)
    k2 = k1 + r.choice([0, 1, 1, 2, 3, 5])
    tgt = exp_time(scn, day, "b")
    d = r.choice([0, 1, 3600, 90000])
    scn["clock"] = [tgt - r.choice([1, 3600])] * k2 + [tgt + d] * (24 - k2)
    ops = [{"tick": k1, "cmd": "force_trigger_tasks", "args": {"tasks": [tid], "flow": ["all"]}}]
    if mode == "held":
        ops.append({"tick": 0, "cmd": "hold", "args": {"tasks": [tid]}})
        if r.random() < 0.4:
            ops.append({"tick": k2 + r.randint(1, 3), "cmd": "release", "args": {"tasks": [tid]}})
    scn["ops"] = sorted(ops, key=lambda o: o["tick"])
    keep_alive(scn, k2 + 4)
    scn["max_ticks"] = k2 + 10
    return finish(scn)


def witness_edges() -> dict:
    """Boundary and flag cases in one run: a(PT1H) is held and parentless; the clock stands one second before
    its expiry time for 8 iterations (nothing expires), then exactly at it (the held task expires: `>=`);
    meanwhile b has succeeded and spawned c, which is clock-expire with a zero offset and already past its
    time: c expires while its other prerequisite is unsatisfied and is kept (`expired` is not optional for c);
    when a expires its :expired child c is already in the pool."""
    scn = {"tasks": ["a", "b", "c"], "ncycles": 2, "expire": {"a": "PT1H", "c": ""},
           "succ_opt": {"a": True, "b": False, "c": False},
           "edges": [{"p": "a", "out": "expired", "off": 0, "c": "c"}, {"p": "b", "out": "succeeded", "off": 0, "c": "c"}],
           "solo": ["a", "b"], "runahead": 1, "queue_limit": None, "retries": {}, "fail_rate": 0.0, "customs": {},
           "seed": 5, "disorder": 0.0, "max_ticks": 30, "clock": [3599] * 8 + [3600] * 16,
           "ops": [{"tick": 0, "cmd": "hold", "args": {"tasks": ["20000101/a", "20000102/a"]}},
                   {"tick": 13, "cmd": "x_noop", "args": {}}]}
    return finish(scn)


# ---------------------------------------------------------------------------
# recorded trace -> per-iteration checkpoints + history
# ---------------------------------------------------------------------------
def compact(trace) -> dict:
    """Keep what the oracle and the Coq case need."""
    iters, hist, trigs = [], [], []
    qot = None
    ever, cur = set(), None
    finished = set()      # instances removed from the pool while they belonged to a flow
    info = None
    phase = None          # None | "pass" | "rts"
    soo = []              # stack of [id, out, in_ric]
    tick = -1
    in_pool = set()
    for e in trace:
        k = e["e"]
        if k == "started":
            info = e["snap"].get("xp")
            for t in e["snap"]["tasks"]:
                ever.add(tuple(t["id"]))
                in_pool.add(tuple(t["id"]))
        elif k == "tick":
            tick = e["n"]
        elif k == "op":
            hist.append([tick, "op", e["op"]["cmd"], e["op"].get("args")])
        elif k == "op_rejected":
            hist.append([tick, "op_rejected", e["cmd"], e["exc"][:80]])
        elif k == "add":
            i = tuple(e["t"]["id"])
            ever.add(i)
            in_pool.add(i)
            hist.append([tick, "add", list(i)])
        elif k == "remove":
            i = tuple(e["t"]["id"])
            in_pool.discard(i)
            if e["t"]["flows"]:
                finished.add(i)      # (a finished no-flow run does not stop a later spawn in a flow)
            hist.append([tick, "remove", list(i), e["reason"]])
        elif k == "manual":
            hist.append([tick, "manual", e["id"]])
        elif k == "qot_begin":
            qot = e
        elif k == "qot_end":
            if qot is not None:
                trigs.append({"tick": tick, "before": qot["t"], "after": e["t"], "in_pool": qot["in_pool"]})
            qot = None
        elif k == "submit":
            for p, n, sn in e["jobs"]:
                st = next((s for pp, nn, s in e["status"] if (pp, nn) == (p, n)), None)
                hist.append([tick, "submit", [p, n], sn, st])
        elif k == "state":
            if e["id"] is not None and e["old"][0] != e["new"][0]:
                hist.append([tick, "status", e["id"], e["old"][0], e["new"][0]])
        elif k == "restarted":
            hist.append([tick, "restarted"])
        if k == "expire_begin":
            cur = {"it": e["it"], "tick": tick, "now": e["now"], "before": e["tasks"], "to_hold": e["to_hold"],
                   "hold_point": e["hold_point"], "gone": sorted(finished - {tuple(t["id"]) for t in e["tasks"]}),
                   "evs": [], "after": None, "rts": None, "released": None, "submit": [], "final": None, "odd": [],
                   "skip": []}
            iters.append(cur)
            phase = "pass"
            soo = []
            continue
        if cur is None:
            continue
        if phase == "pass":
            if k == "expire_end":
                cur["after"] = e["tasks"]
                phase = "rts-wait"
            elif k == "msg":
                if e["message"] == "expired" and not soo:
                    cur["evs"].append(["expired", e["id"], e["status"]])
                    hist.append([tick, "expired", e["id"], e["status"], cur["now"], cur["it"]])
                else:
                    cur["odd"].append(f"message {e['message']} for {e['id']} inside the expiry pass")
            elif k == "soo_begin":
                soo.append({"id": e["id"], "out": e["out"], "ric": False, "transient": e["transient"]})
                if e["out"] != "expired":
                    cur["odd"].append(f"spawn_on_output({e['out']}) inside the expiry pass")
            elif k == "soo_end":
                if soo:
                    soo.pop()
            elif k == "ric_begin":
                if soo:
                    soo[-1]["ric"] = True
            elif k == "ric_end":
                if soo:
                    soo[-1]["ric"] = False
            elif k == "spawn":
                if soo and not soo[-1]["ric"]:
                    soo[-1]["last_spawn"] = e["t"]["id"]
                elif soo:
                    soo[-1]["last_next"] = e["t"]["id"]
                else:
                    cur["odd"].append(f"spawn of {e['t']['id']} outside spawn_on_output inside the expiry pass")
            elif k == "spawn_none":
                if soo and not soo[-1]["ric"]:
                    cur["evs"].append(["none", soo[-1]["id"], e["id"]])
            elif k == "sat":
                if soo and not soo[-1]["ric"]:
                    # the child (new or already pooled) gets the parent's output
                    soo[-1]["last_sat"] = e["id"]
                    if soo[-1].get("last_spawn") != e["id"]:
                        cur["evs"].append(["sat", soo[-1]["id"], e["id"]])
            elif k == "add":
                if soo and not soo[-1]["ric"] and soo[-1].get("last_spawn") == e["t"]["id"]:
                    cur["evs"].append(["spawn", soo[-1]["id"], e["t"]["id"]])
                    hist.append([tick, "child", soo[-1]["id"], e["t"]["id"], soo[-1]["out"]])
                elif soo and soo[-1]["ric"]:
                    cur["evs"].append(["next", soo[-1]["id"], e["t"]["id"]])
                else:
                    cur["odd"].append(f"add of {e['t']['id']} not explained")
            elif k == "remove":
                cur["evs"].append(["remove", e["t"]["id"]])
            elif k == "remove_noop":
                cur["odd"].append(f"remove of {e['id']} had no effect")
            elif k == "merge":
                cur["skip"].append(f"flow merge into {e['id']} (not modelled)")
        elif phase == "rts-wait":
            if k == "rts_begin":
                cur["rts"] = {x: e[x] for x in ("paused", "stop", "reload", "auto")}
                phase = "rts"
        elif phase == "rts":
            if k == "release":
                cur["released"] = e["ids"]
            elif k == "submit":
                cur["submit"] += [[p, n] for p, n, _sn in e["jobs"]]
            elif k == "rts_end":
                cur["final"] = e["tasks"]
                phase = None
        # children spawned by other outputs (outside the pass) for the oracle
        if phase != "pass" and k == "soo_begin":
            soo = [{"id": e["id"], "out": e["out"], "ric": False}]
        elif phase != "pass" and k == "ric_begin" and soo:
            soo[-1]["ric"] = True
        elif phase != "pass" and k == "soo_end":
            soo = []
        elif phase != "pass" and k == "spawn" and soo and not soo[-1]["ric"]:
            hist.append([tick, "child", soo[-1]["id"], e["t"]["id"], soo[-1]["out"]])
    return {"info": info, "iters": iters, "hist": hist, "ever": sorted(ever), "trigs": trigs}


# ---------------------------------------------------------------------------
# Gallina terms
# ---------------------------------------------------------------------------
class Num:
    def __init__(self, scn):
        self.scn = scn
        self.nt = len(scn["tasks"])
        self.outs = dict(OUTNUM)

    def iid(self, i):
        d = int(i[0]) - 20000101 if int(i[0]) >= 20000101 else int(i[0])
        return d * self.nt + self.scn["tasks"].index(i[1])

    def rid(self, day, name):
        return day * self.nt + self.scn["tasks"].index(name)

    def out(self, o):
        o = o.replace("-", "_")
        return self.outs.setdefault(o, len(self.outs))


def c_cexpr(nb, text):
    if not text:
        return None

    def go(n):
        if isinstance(n, ast.BoolOp):
            op = "CAnd" if isinstance(n.op, ast.And) else "COr"
            cur = go(n.values[0])
            for v in n.values[1:]:
                cur = q.capp(op, cur, go(v))
            return cur
        if isinstance(n, ast.Name):
            return q.capp("CVar", q.cN(nb.out(n.id)))
        raise ValueError(ast.dump(n))
    try:
        return go(ast.parse(text.strip(), mode="eval").body)
    except (ValueError, SyntaxError):
        return None


def c_task(nb, t):
    if t.get("transient") or t.get("xseq"):
        raise ValueError("outside fragment")
    return q.capp("tk", "e", q.cN(nb.iid(t["id"])), STATUSES[t["status"]], q.cbool(t["manual"]), q.cbool(t["held"]),
                  q.cbool(t["queued"]), q.cbool(t["runahead"]), q.copt(t["expire"], q.cz), q.cbool(t["has_flow"]),
                  q.cbool(t["flow_wait"]), q.clist(q.cN(nb.out(o)) for o in t["outputs"]),
                  q.cbool(t["inq"]), q.cbool(t["wojp"]), q.cbool(t["trig"]))


def c_event(nb, ev):
    k = ev[0]
    if k == "expired":
        return q.capp("EvExpired", q.cN(nb.iid(ev[1])))
    if k == "remove":
        return q.capp("EvRemove", q.cN(nb.iid(ev[1])))
    name = {"spawn": "EvSpawn", "sat": "EvSat", "none": "EvNoSpawn", "next": "EvNext"}[k]
    return q.capp(name, q.cN(nb.iid(ev[1])), q.cN(nb.iid(ev[2])))


def canon_events(nb, evs):
    """children of one output are visited in cylc's internal order; the model visits them in instance order:
    sort each contiguous block of spawn/sat/none events of one parent"""
    out, block = [], []

    def flush():
        block.sort(key=lambda e: nb.iid(e[2]))
        out.extend(block)
        block.clear()
    for ev in evs:
        if ev[0] in ("spawn", "sat", "none"):
            if block and block[0][1] != ev[1]:
                flush()
            block.append(ev)
        else:
            flush()
            out.append(ev)
    flush()
    return out


def c_env(nb, scn, info):
    inst = instances(scn)
    ch = []
    for d, t in inst:
        for o in ("expired", "succeeded", "started", "failed"):
            cs = ref_children(scn, d, t, o)
            if cs:
                ch.append(q.cpair(q.cpair(q.cN(nb.rid(d, t)), q.cN(nb.out(o))),
                                  q.clist(q.cN(nb.rid(cd, c)) for cd, c in cs)))
    nx = [q.cpair(q.cN(nb.rid(d, t)), q.cN(nb.rid(ref_next(scn, d, t), t))) for d, t in inst
          if ref_next(scn, d, t) is not None]
    ex = [q.cpair(q.cN(nb.rid(d, t)), q.cz(exp_time(scn, d, t))) for d, t in inst if t in scn["expire"]]
    cm = []
    for d, t in inst:
        c = c_cexpr(nb, info[t]["comp"])
        if c is None:
            raise ValueError("completion expression outside fragment")
        cm.append(q.cpair(q.cN(nb.rid(d, t)), c))
    return q.capp("mkEnv", q.clist(ch), q.clist(nx), q.clist(ex), q.clist(cm), "[]")


def c_hold(nb, scn, it):
    hp = it["hold_point"]
    held = {tuple(x) for x in it["to_hold"]}
    return q.clist(q.cN(nb.rid(d, t)) for d, t in instances(scn)
                   if (20000101 + d, t) in held or (hp is not None and 20000101 + d > hp))


def case_term(scn, res):
    nb = Num(scn)
    ks = []
    try:
        env = c_env(nb, scn, res["info"])
        for it in res["iters"]:
            if it["after"] is None or it["odd"] or it["skip"]:
                return None
            has_rel = it["final"] is not None and it["released"] is not None
            after = it["after"]
            subs = []
            if has_rel:
                sub_ids = {tuple(x) for x in it["submit"]}
                for t in after:
                    if tuple(t["id"]) in sub_ids:
                        subs.append(q.capp("EvSubmit", q.cN(nb.iid(t["id"])), STATUSES[t["status"]]))
                if len(subs) != len(sub_ids):
                    subs.append("(EvQueue 0%N)")     # a job for a task that was not in the pool: never equal
            t_before = q.clist(c_task(nb, t) for t in it["before"])
            t_after = q.clist(c_task(nb, t) for t in after)
            t_final = q.clist(c_task(nb, t) for t in (it["final"] or after))
            ks.append(q.capp(
                "mkCkpt", c_hold(nb, scn, it), q.cz(it["now"]), t_before,
                q.clist(q.cN(nb.iid(i)) for i in it["gone"]),
                q.clist(c_event(nb, e) for e in canon_events(nb, [
                    e for e in it["evs"] if not (e[0] == "none" and e[2][0] - 20000101 >= scn["ncycles"])])),
                "None" if t_after == t_before else f"(Some {t_after})",
                q.cbool(has_rel),
                q.clist(q.cN(nb.iid(i)) for i in (it["released"] or [])),
                q.clist(subs),
                "None" if t_final == t_after else f"(Some {t_final})"))
        gs = []
        for g in res.get("trigs", []):
            b, a = g["before"], g["after"]
            limited = bool(a["inq"]) and not b["queued"]
            gs.append(q.capp("mkTrig", c_task(nb, b), q.cbool(limited), c_task(nb, a)))
    except (ValueError, KeyError):
        return None
    return f"(let e := {env} in (e, ({q.clist(ks)} : list ckpt), ({q.clist(gs)} : list trig)))"


# ---------------------------------------------------------------------------
# oracle (implementation only; the reference semantics above, no Gallina model)
# ---------------------------------------------------------------------------
def oracle(scn, res):
    """First failure text or None; the known successor defect is reported last."""
    iters, hist = res["iters"], res["hist"]
    info = res["info"] or {}
    # 0. the configuration: offsets as generated
    for t in scn["tasks"]:
        want = t in scn["expire"]
        got = info.get(t, {}).get("offset")
        if want != (got is not None):
            return f"task {t}: clock-expire offset configured={want}, loaded task definition has {got!r}"
    prev_now = None
    for it in iters:
        now = it["now"]
        tag = f"iteration {it['it']} (clock {now})"
        if it["odd"]:
            return f"{tag}: {it['odd'][0]}"
        if it["after"] is None:
            return f"{tag}: clock_expire_tasks did not return"
        if prev_now is not None and now < prev_now:
            return f"{tag}: harness clock not monotone"
        prev_now = now
        before = {tuple(t["id"]): t for t in it["before"]}
        after = {tuple(t["id"]): t for t in it["after"]}
        # expiry times and graph children as the reference semantics of the generated workflow has them
        for i, t in before.items():
            d = i[0] - 20000101
            if t["expire"] != exp_time(scn, d, i[1]) or t["expire_exact"] is False:
                return (f"{tag}: expire_time of {list(i)} is {t['expire']} s after the initial cycle point, "
                        f"the offset {scn['expire'].get(i[1])!r} gives {exp_time(scn, d, i[1])}")
            if t["comp"] != info.get(i[1], {}).get("comp"):
                return (f"{tag}: completion expression of {list(i)} is {t['comp']!r}, its task definition gives "
                        f"{info.get(i[1], {}).get('comp')!r}")
            want = [[20000101 + cd, c] for cd, c in ref_children(scn, d, i[1], "expired", clip=False)]
            if t["gkids"] != want:
                return f"{tag}: graph children of {list(i)}:expired are {t['gkids']}, the graph gives {want}"
        expired = [tuple(e[1]) for e in it["evs"] if e[0] == "expired"]
        # (a) only eligible tasks expire ...
        for i in expired:
            t = before.get(i)
            if t is None:
                return f"{tag}: {list(i)} expired but was not in the pool when the pass started"
            if t["status"] != "waiting":
                return f"{tag}: {list(i)} expired from status {t['status']} (only waiting tasks may expire)"
            if t["manual"]:
                return f"{tag}: {list(i)} expired although it was manually triggered"
            if t["expire"] is None:
                return f"{tag}: {list(i)} expired but has no clock-expire offset"
            if now < t["expire"]:
                return f"{tag}: {list(i)} expired at clock {now}, before its expiry time {t['expire']}"
        if len(set(expired)) != len(expired):
            return f"{tag}: an instance expired twice in one pass: {expired}"
        # ... and every eligible task expires
        for i, t in before.items():
            elig = (t["status"] == "waiting" and not t["manual"] and t["expire"] is not None and now >= t["expire"])
            if elig and i not in expired:
                return (f"{tag}: {list(i)} is waiting, not manually triggered and past its expiry time "
                        f"{t['expire']} but did not expire")
        # (e) the pass changes nothing but the expiring tasks
        for i, t in before.items():
            if i in expired:
                a = after.get(i)
                if a is not None:
                    if a["status"] != "expired" or "expired" not in a["outputs"]:
                        return f"{tag}: {list(i)} expired but is left with status {a['status']}, outputs {a['outputs']}"
                    if a["queued"] or a["inq"] or a["runahead"]:
                        return f"{tag}: expired task {list(i)} is still queued / runahead-limited"
                    if a["complete"]:
                        return f"{tag}: expired task {list(i)} is complete but was kept in the pool"
                else:
                    outs = set(t["outputs"]) | {"expired"}
                    if not eval_comp(t["comp"], outs):
                        return f"{tag}: expired task {list(i)} removed although incomplete ({t['comp']}; {sorted(outs)})"
                continue
            a = after.get(i)
            if a is None:
                return f"{tag}: {list(i)} (status {t['status']}) disappeared during the expiry pass without expiring"
            for f in ("status", "manual", "held", "queued", "runahead", "outputs", "inq", "wojp", "trig", "submit_num"):
                if a[f] != t[f]:
                    return f"{tag}: the expiry pass changed {f} of {list(i)} ({t['status']}) from {t[f]} to {a[f]}"
        # (d) the expired output spawns exactly the expire children
        for i in expired:
            t = before[i]
            d = i[0] - 20000101
            want = set(ref_children(scn, d, i[1], "expired")) if (t["has_flow"] and not t["flow_wait"]) else set()
            got_spawn = {(e[2][0] - 20000101, e[2][1]) for e in it["evs"] if e[0] == "spawn" and tuple(e[1]) == i}
            got_sat = {(e[2][0] - 20000101, e[2][1]) for e in it["evs"] if e[0] == "sat" and tuple(e[1]) == i}
            got_none = {(e[2][0] - 20000101, e[2][1]) for e in it["evs"] if e[0] == "none" and tuple(e[1]) == i
                        and e[2][0] - 20000101 < scn["ncycles"]}
            if not (got_spawn | got_sat | got_none) <= want:
                return (f"{tag}: the expired output of {list(i)} reached {sorted((got_spawn | got_sat | got_none) - want)}, "
                        f"not among its expire children {sorted(want)}")
            if (got_spawn | got_sat | got_none) != want:
                return (f"{tag}: the expired output of {list(i)} did not reach its expire children "
                        f"{sorted(want - (got_spawn | got_sat | got_none))}")
            gone = {(g[0] - 20000101, g[1]) for g in it["gone"]}
            for c in got_none:
                if c not in gone and (20000101 + c[0], c[1]) not in {tuple(e[1]) for e in it["evs"] if e[0] == "remove"}:
                    return f"{tag}: expire child {c} of {list(i)} was never in the pool but was not spawned"
        new = set(after) - set(before)
        explained = {tuple(e[2]) for e in it["evs"] if e[0] in ("spawn", "next")}
        if new != explained:
            return f"{tag}: tasks {sorted(new ^ explained)} appeared in the pool during the pass / were not added"
        # (c) nothing submitted is expired; the submission guard
        if it["final"] is not None:
            for p, n in it["submit"]:
                t = after.get((p, n))
                if t is None:
                    return f"{tag}: a job was submitted for {[p, n]} which is not in the pool"
                if t["status"] == "expired":
                    return f"{tag}: a job was submitted for the expired task {[p, n]}"
        for snap, what in ((it["before"], "before the pass"), (it["after"], "after the pass"),
                           (it["final"] or [], "after release_tasks_to_run")):
            for t in snap:
                if t["status"] == "expired" and (t["inq"] or t["queued"] or t["wojp"] or t["trig"]):
                    return (f"{tag}, {what}: expired task {t['id']} is queued={t['queued']} in-queue={t['inq']} "
                            f"awaiting-job-prep={t['wojp']} to-trigger-now={t['trig']}")
    # a trigger command exempts its target from expiry, whatever state the target was in, from the
    # moment of the command until a job has been submitted for it (stated from the command, not from
    # the scheduler's own flag)
    for g in res.get("trigs", []):
        b, a = g["before"], g["after"]
        what = ("queued" if b["queued"] else "held" if b["held"] else "runahead-limited" if b["runahead"]
                else "not queued")
        if not a["manual"]:
            return (f"trigger command (tick {g['tick']}): target {a['id']} ({b['status']}, {what}) is left without "
                    f"the manual-trigger flag (queued={a['queued']}): it is not exempt from clock expiry")
        if a["status"] != "waiting":
            return f"trigger command (tick {g['tick']}): target {a['id']} is left in status {a['status']}"
    exempt = {}
    for h in hist:
        kind = h[1]
        if kind == "manual":
            exempt[tuple(h[2])] = h[0]
        elif kind in ("submit", "remove"):
            exempt.pop(tuple(h[2]), None)
        elif kind == "expired":
            i = tuple(h[2])
            if i in exempt:
                return (f"{list(i)} clock-expired (iteration {h[5]}, clock {h[4]}) although it was triggered manually "
                        f"at tick {exempt[i]} and no job has been submitted for it since")
    # history: (b) at most once, (c) never submitted after expiry
    last = {}
    for h in hist:
        kind = h[1]
        if kind == "expired":
            i = tuple(h[2])
            if last.get(i) == "expired":
                return f"{list(i)} expired a second time (iteration {h[5]}) without being reset in between"
            last[i] = "expired"
        elif kind == "manual":
            last[tuple(h[2])] = "manual"
        elif kind == "status":
            i = tuple(h[2])
            if h[3] == "expired" and h[4] != "expired" and last.get(i) == "expired":
                if h[4] == "preparing":
                    return f"expired task {list(i)} went to preparing without a manual trigger (tick {h[0]})"
                last[i] = "revived"      # a late job message: the task is not expired any more
        elif kind == "submit":
            i = tuple(h[2])
            if last.get(i) == "expired":
                return f"a job was submitted for {list(i)} after it expired (tick {h[0]})"
            if h[4] == "expired":
                return f"a job was submitted for {list(i)} while its status was expired (tick {h[0]})"
        elif kind == "child":
            p, c, o = tuple(h[2]), tuple(h[3]), h[4]
            if o in ("expired", "succeeded", "started", "failed"):
                want = ref_children(scn, p[0] - 20000101, p[1], o)
                if (c[0] - 20000101, c[1]) not in want:
                    return f"output {o} of {list(p)} spawned {list(c)}, which is not among its {o} children {want}"
    return successor_check(scn, res)


def eval_comp(text, outs):
    names = {o.replace("-", "_") for o in outs}

    def go(n):
        if isinstance(n, ast.BoolOp):
            vs = [go(v) for v in n.values]
            return all(vs) if isinstance(n.op, ast.And) else any(vs)
        if isinstance(n, ast.Name):
            return n.id in names
        raise ValueError(ast.dump(n))
    return go(ast.parse(text.strip(), mode="eval").body)


def successor_check(scn, res):
    """Known defect: a runahead-limited task that expires loses its parentless successor."""
    ever = {tuple(x) for x in res["ever"]}
    for it in res["iters"]:
        before = {tuple(t["id"]): t for t in it["before"]}
        removed = {tuple(e[1]) for e in it["evs"] if e[0] == "remove"}
        for e in it["evs"]:
            if e[0] != "expired":
                continue
            i = tuple(e[1])
            t = before[i]
            d = i[0] - 20000101
            nx = ref_next(scn, d, i[1])
            if t["next"] != (None if nx is None else 20000101 + nx) and ref_parentless(scn, d, i[1]):
                return f"next parentless instance of {list(i)} is {t['next']}, the graph gives {nx}"
            if (t["runahead"] and t["has_flow"] and ref_parentless(scn, d, i[1]) and nx is not None
                    and (20000101 + nx, i[1]) not in ever):
                how = "removed" if i in removed else "kept as incomplete"
                return (f"{SIG_SUCC}: {list(i)} expired while runahead-limited (iteration {it['it']}) and was {how}; its next "
                        f"parentless instance {[20000101 + nx, i[1]]} was never spawned (expiry clears is_runahead before "
                        f"remove()/release_runahead_tasks look at it), so {i[1]} does not run in the remaining cycles")
    return None


# ---------------------------------------------------------------------------
# the stream
# ---------------------------------------------------------------------------
class ExpireStream(Stream):
    name = "expire"
    coq_import = "From Cylc Require Import Model.Expire."
    check_fn = "Expire.check_case"
    show_fn = "Expire.model_out"
    needs_scratch_home = True
    n_hashseeds = 16
    shard_size = 40
    impl_timeout = 3000
    n_quick, n_thorough_wf, n_qtrig = 14, 16, 8
    rule = ("generated date-cycling workflows (P1D from 2000-01-01, 2-4 cycles, 2-5 tasks, 1-3 clock-expire tasks with "
            "offsets from {none, PT0S, PT30M, PT1H, PT6H, P1D, P1DT12H, -PT1H, -PT6H, -P1D}, :expired? / :started / "
            ":failed? / success edges, same-cycle and [-P1D], AND of several lines, runahead P0-P3, queue limit 1-2, "
            "execution retries with a long delay, job failures, hold / release / trigger / trigger --flow=none commands) "
            "x virtual clock schedules (ramp, step across a chosen expiry time at a chosen main-loop iteration with "
            "offset -1 s / 0 / +1 s / hours, exact hit, all past, never, random); thorough: every iteration 0..11 as the "
            "crossing point x offset {-1, 0, +1}; plus a `qtrig` family: queue limit 1-2 kept full by parentless tasks, "
            "`cylc trigger` of a clock-expire instance that is not yet spawned / waiting on a parent / held / "
            "runahead-limited / already queued, 0-5 iterations before the clock crosses its expiry time; one Coq "
            "checkpoint per main-loop iteration and one per queue_or_trigger call; "
            "non-trivial = distinct (workflow, clock, commands) with at least one expiry")

    def corpus(self):
        return [witness_successor(), witness_basic(), witness_edges(), witness_trigger_queued()]

    def gen(self, rng, tier):
        r = random.Random(rng.randrange(1 << 30))
        if tier == "quick":
            return [gen_scenario(r) for _ in range(self.n_quick)] + [gen_qtrig(r) for _ in range(self.n_qtrig)]
        out = [gen_scenario(r) for _ in range(6 * self.n_quick)] + [gen_qtrig(r) for _ in range(16 * self.n_qtrig)]
        for _ in range(self.n_thorough_wf):
            wf = gen_workflow(r)
            ops = gen_ops(r, wf)
            tgt_seed = r.randrange(1 << 30)
            for k in range(12):
                for delta in (-1, 0, 1):
                    s = json.loads(json.dumps(wf))
                    s["clock"] = gen_clock(random.Random(tgt_seed), s, kind="cross", k=k, delta=delta)
                    s["ops"] = list(ops)
                    keep_alive(s, k + 4)
                    out.append(finish(s))
        return out

    def search(self, rng, tier):
        r = random.Random(rng.randrange(1 << 30))
        return [gen_scenario(r) for _ in range(2 * self.n_quick)] + [gen_qtrig(r) for _ in range(2 * self.n_qtrig)]

    def impl(self, cases):
        import time as _t
        os.environ["TZ"] = "UTC"
        _t.tzset()
        from vp.sched import driver, expire_ext
        expire_ext.install(driver)
        if not any(getattr(f, "_c32", False) for f in driver.EXTRA_SNAPSHOT):
            def xs(schd):
                return {"xp": expire_ext.start_info(schd)} if expire_ext.CLK["iter"] == 0 else {}
            xs._c32 = True
            driver.EXTRA_SNAPSHOT.append(xs)
        home = Path(os.environ["HOME"])
        out = []
        for c in cases:
            for _attempt in range(4):
                expire_ext.reset_run(c["clock"])
                r = driver.run_many([c], home)[0]
                err = r["meta"].get("error") or ""
                # start-up of the scheduler's server thread has a 10 s barrier: on an overloaded machine it can
                # time out before the workflow has done anything; that is not a result, run the case again
                if not any(x in err for x in ("BrokenBarrierError", "TimeoutError", "Address already in use")):
                    break
                _t.sleep(2.0)
            res = compact(expire_ext.merged_trace(r["trace"]))
            res["meta"] = {k: v for k, v in r["meta"].items() if k != "wid"}
            out.append(res)
        return out

    def coq_case(self, c, r):
        if r["meta"].get("error") or not r.get("info"):
            return None
        return case_term(c, r)

    def oracle(self, c, r):
        if r["meta"].get("error"):
            return "scheduler run raised: " + r["meta"]["error"] + " :: " + r["meta"].get("tb", "")[-300:]
        if not r["iters"]:
            return "no main-loop iteration recorded"
        return oracle(c, r)

    def key(self, c, r):
        n = sum(1 for it in r.get("iters", []) for e in it["evs"] if e[0] == "expired")
        if not n:
            return None
        return json.dumps([c["flow_text"], c["clock"], c["ops"], c["seed"]], sort_keys=True)

    def classify(self, c, r, failure):
        if failure.startswith(SIG_SUCC):
            return SIG_SUCC
        txt = re.sub(r"^iteration \d+ \(clock -?\d+\)(, [a-z _]+)?: ", "", failure)
        txt = re.sub(r"\[\d+, '\w+'\]", "<inst>", txt)
        txt = re.sub(r"-?\d+", "N", txt)
        return "expire:" + txt.strip()[:70]

    def shrink(self, c):
        for i in range(len(c["ops"])):
            c2 = json.loads(json.dumps(c))
            del c2["ops"][i]
            yield c2
        for i in range(len(c["edges"])):
            c2 = json.loads(json.dumps(c))
            del c2["edges"][i]
            used = {e["c"] for e in c2["edges"]}
            c2["solo"] = [t for t in c2["tasks"] if t not in used]
            yield finish(c2)
        if c["ncycles"] > 2:
            c2 = json.loads(json.dumps(c))
            c2["ncycles"] -= 1
            yield finish(c2)


STREAMS = [ExpireStream()]

META = {
    "level_text": (
        "Coq theorems over Model/Expire.v, an executable model of TaskPool.clock_expire_tasks / TaskProxy.clock_expire / "
        "state_reset(expired) / process_message(expired) / spawn_on_output / remove_if_complete / remove and of the operations that "
        "decide who is queued, released and submitted (queue_if_ready, queue_or_trigger, hold/release, release_tasks_to_run), for ALL "
        "pools, clock values, graphs and operation sequences: (a) c32_expires_iff_eligible -- a task expires in a pass IF AND ONLY IF "
        "it is in the pool, not manually triggered, waiting, has an expiry time and that time is <= now (the code expires at equality; "
        "held, queued and runahead-limited waiting tasks are not exempt), in pool order; (e) c32_ineligible_tasks_untouched / "
        "c32_non_waiting_untouched / c32_pool_after_pass -- every other task, in particular every task that is not waiting, comes out "
        "of the pass unchanged, and the pool afterwards holds nothing but untouched tasks, just-expired tasks and spawned expire "
        "children; c32_expired_task_fate -- removed iff the completion expression holds with `expired`; (d) "
        "c32_expired_output_reaches_exactly_expire_children (iff, per expiring instance with a flow and no flow-wait: each :expired "
        "child is spawned, or already pooled, or already finished) + c32_spawned_are_expire_children (every spawn of the pass is an "
        ":expired child of an instance that expired in this pass: no other output's children) + c32_no_flow_no_children; (b) "
        "c32_not_twice_in_a_row (any two passes, clock monotone or not) and c32_expires_at_most_once (NoDup of expiry events over all "
        "operation sequences without a manual trigger / job message); (c) c32_invariant + c32_expired_never_submitted + "
        "c32_expired_is_stable -- the invariant `unique ids; tasks_to_trigger_now / waiting_on_job_prep only for manual tasks; an "
        "expired task is in no queue, not flagged queued, not awaiting job preparation` is preserved by every operation, every job "
        "submission is for a task that is not expired, and an expired task stays expired until a manual trigger, a job message or its "
        "removal. Manual triggers: c32_trigger_marks_manual_in_every_state (what queue_or_trigger does to a target in ANY "
        "state -- queued, not queued with the queue limit reached, held, runahead-limited, just spawned by the command -- leaves it "
        "flagged manual, waiting and ineligible at every clock value) and c32_triggered_exempt_until_submitted / "
        "c32_manual_exempt_until_submitted (over all continuations, every expiry event of a triggered instance is preceded by a job "
        "submission for it or its removal); every real queue_or_trigger call is compared with the model function inside Coq "
        "(check_trig) and the oracle states the exemption from the command, not from the scheduler's own flag. "
        "The clause one would add -- a runahead-limited parentless task that expires hands over to its next instance as on "
        "every other removal (c32_remove_spawns_successor) -- is REFUTED in the faithful model "
        "(c32_expiry_keeps_parentless_chain_refuted, c32_pass_never_spawns_successor) and on the real scheduler: genuine defect, known "
        "finding, fix proposed. Tie: generated date-cycling workflows with positive / negative / zero clock-expire offsets run on the "
        "real Scheduler in-process under a virtual clock chosen per main-loop iteration (stepping across every expiry time at every "
        "iteration, offsets -1 s / 0 / +1 s); each iteration is a checkpoint: the real pool before the pass, the real expiry / spawn / "
        "removal events, the pool after the pass, the ids released by the queues, the jobs submitted and the pool after "
        "release_tasks_to_run are compared inside Coq with what the model computes from the same pool and clock, and the theorem "
        "hypotheses (wf_state, pool_ok) are evaluated on every real snapshot. Oracle (implementation only, reference semantics of the "
        "generated graph): every expiry was waiting / not manual / past its time, every eligible task expired, nothing else changed, "
        "children reached = graph children, expiry times = cycle point + offset, no job after expiry without a manual trigger, at most "
        "one expiry per instance, nothing expired is queued / awaiting preparation; every trigger command leaves its target flagged manual, "
        "and a triggered instance does not expire before a job has been submitted for it."),
    "level_note": (
        "Model/Expire.v is a hand model. Graph children, parentless successors and expiry times given to it are computed by "
        "vp/props/c32.py from the generated workflow (not read from cylc) and cross-checked by the oracle against the implementation's "
        "graph_children / expire_time / next_point_parentless; completion expressions are read from the loaded task definitions. "
        "The step system abstracts prerequisites (`ready` is an input), queue limits (which queued tasks are released is an input, "
        "guarded by `in a queue and not held`) and jobs (status changes by messages are inputs that cannot produce `expired` or "
        "`preparing`); job preparation never stays pending. Only the pass and the release/submit step are compared step by step with the "
        "real code; the other operations of the step system (queue_if_ready, queue_or_trigger, hold/release, messages, spawn, remove) "
        "are tied through their invariant, which is evaluated on all three real snapshots of every iteration. (b) at-most-once is proved for operation sequences without manual trigger "
        "/ job message (a re-triggered task may legitimately expire again after a retry). Not modelled, not generated: suicide "
        "triggers, xtriggers / sequential xtriggers, reload, restart, `cylc set --out=expired`, flow merges (iterations in which flows "
        "merge are checked by the oracle only), cylc 7 compatibility mode, other calendars / time zones (Gregorian, "
        "UTC only). Trusted: Coq kernel+VM; the in-process driver vp/sched/driver.py (fake process pool); "
        "vp/sched/expire_ext.py (virtual clock = the `time` name of cylc.flow.task_proxy; wrappers around clock_expire_tasks, "
        "release_tasks_to_run, spawn_on_output, remove_if_complete). One open finding is reported as KNOWN-FINDING and does not fail "
        "the check: a runahead-limited parentless task that clock-expires never gets its next instance spawned."),
    "technique": "Coq proof over an executable model of the expiry pass and the submission pipeline (iff characterisation, "
                 "invariants over all operation sequences, refutation witness) + per-iteration in-Coq comparison with real scheduler "
                 "runs under a virtual clock + history oracle",
    "design_ref": "5/C32",
}
