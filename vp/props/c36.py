"""C36 — configuration processing is idempotent
(cylc/flow/parsec/fileparse.py: parse / read_and_proc / _concatenate, include.py: inline,
jinja2support.py: jinja2process as an oracle)."""
import re

from vp.core import Stream
from vp import coqfmt as q

TRUSTED = [
    "hand model Model/Parsec.v of read_and_proc (line splitting, include.inline, shebang test, _concatenate, rstrip), "
    "of the processed dump and of parse()'s line parser on a fragment (ASCII keys without <parameters>, no repeated "
    "graph keys); lines outside the fragment are compared at the read_and_proc level only",
    "Jinja2 is an oracle: the model's Jinja2 step is a function parameter, instantiated in the correspondence with the "
    "recorded input/output of the real jinja2process (recorded by wrapping the module attribute, no repo change)",
    "Python regex / str semantics (\\s, rstrip, non-greedy groups) modelled by hand",
]
ASSUMES = [
    "no carriage returns in files; files end with a newline or not (both generated)",
    "no pre_configure plugin sets a templating engine (only the built-in global template variables plugin, empty here)",
    "the dump is re-parsed from the same directory (include files and Jinja2 search path unchanged)",
]


def ctext(s):
    """text as `TextCodec.dec "<literal>"` (see Model/TextCodec.v)"""
    out = []
    for ch in s:
        o = ord(ch)
        if ch == '"':
            out.append('""')
        elif 32 <= o < 127 and ch != "\\":
            out.append(ch)
        else:
            out.append("\\%d;" % o)
    return '(TextCodec.dec "' + "".join(out) + '"%string)'


WORDS = ["foo", "bar", "baz", "x", "y1", "a-b", "run me", "T00", "é", "1", "P1D", "echo hi", "日本"]
KEYS = ["script", "foo", "a b", "x-y", "key.1", "env var", "Z", "platform", "m1", "title", "URL", "exec (limit)"]
PUNCT = ["#", "=", "[x]", ",", "'", '"', ":", "/", "$HOME", "${A}", "%", "!", "a\\b", "\u00a0", "<p>", "(", ")"]


def _words(rng, lo=1, hi=4, punct=0.25):
    out = []
    for _ in range(rng.randint(lo, hi)):
        out.append(rng.choice(PUNCT) if rng.random() < punct else rng.choice(WORDS))
    return " ".join(out)


def _ws(rng):
    return rng.choice(["", "", "", " ", "  ", "\t", " \t "])


class _Gen:
    def __init__(self, rng, jinja=False, n_inc=0, malformed=None, bsws=False):
        self.rng = rng
        self.jinja = jinja
        self.files = {}
        self.inc_left = n_inc
        self.malformed = malformed
        self.bsws = bsws
        self.n_items = 0

    def value(self, level):
        """lines of 'key = value' (first line gets the key prefix)"""
        rng = self.rng
        r = rng.random()
        if r < 0.25:
            return [_words(rng, 1, 3, 0.1)]
        if r < 0.4:
            qt = rng.choice("'\"")
            other = "'" if qt == '"' else '"'
            txt = _words(rng, 0, 4, 0.4).replace(qt, other)
            return [qt + txt + qt + rng.choice(["", "", " # comment", "  #c=1 [x]"])]
        if r < 0.5:
            return [_words(rng, 1, 2, 0.0) + rng.choice([" # trailing comment", "  # a = b", " #"])]
        if r < 0.62:
            return [", ".join(_words(rng, 1, 1, 0.0) for _ in range(rng.randint(2, 5)))]
        if r < 0.78:
            # list / command with continuation lines
            n = rng.randint(2, 4)
            parts = [_words(rng, 1, 2, 0.1) for _ in range(n)]
            lines = []
            for i, p in enumerate(parts):
                ind = "" if i == 0 else " " * rng.choice([0, 2, 4, 8])
                sep = rng.choice([",", ", ", " "]) if i < n - 1 else ""
                lines.append(ind + p + sep + ("\\" if i < n - 1 else ""))
            return lines
        if r < 0.8 and self.jinja:
            return ["{{ N }}" + rng.choice(["", " + {{ N * 2 }}", " {# jc #}"])]
        # triple-quoted
        qt = rng.choice(["'''", '"""'])
        inner = []
        for _ in range(rng.randint(0, 4)):
            k = rng.random()
            if k < 0.15:
                inner.append("")
            elif k < 0.3:
                inner.append("# not a comment " + _words(rng, 0, 2))
            elif k < 0.4:
                inner.append("[not a section]")
            elif k < 0.5:
                inner.append("k = v")
            elif k < 0.6:
                inner.append(_words(rng, 1, 2, 0.1) + " \\")
            else:
                inner.append(" " * rng.choice([0, 2, 4]) + _words(rng, 1, 4, 0.3))
        inner = [ln.replace(qt, "") for ln in inner]
        form = rng.random()
        tail = rng.choice(["", "", " # after", "  #"])
        if not inner or form < 0.2:
            txt = _words(rng, 0, 3, 0.3).replace(qt, "")
            return [qt + txt + qt + tail]
        if form < 0.6:
            return [qt] + inner + [qt + tail]
        if form < 0.8:
            return [qt + inner[0]] + inner[1:] + [qt + tail]
        return [qt + inner[0]] + inner[1:-1] + [(inner[-1] if len(inner) > 1 else "") + qt + tail]

    def item(self, level, ind):
        rng = self.rng
        key = rng.choice(KEYS)
        if rng.random() < 0.03:
            key = rng.choice(["clé", "k<p>", "日"])
        self.n_items += 1
        v = self.value(level)
        eq = rng.choice([" = ", "=", " =", "= ", "  =  ", "\t=\t"])
        lines = [ind + key + eq + v[0]] + v[1:]
        return lines

    def comment(self, ind):
        rng = self.rng
        return [ind + "#" + rng.choice(["", " "]) + _words(rng, 0, 4, 0.4)]

    def body(self, level, budget):
        rng = self.rng
        ind = " " * rng.choice([0, 0, 4 * level, 2])
        lines = []
        n = rng.randint(1, 4)
        for _ in range(n):
            r = rng.random()
            if r < 0.45:
                lines += self.item(level, ind)
            elif r < 0.55:
                lines += self.comment(ind)
            elif r < 0.62:
                lines.append(rng.choice(["", "", "   ", "\t"]))
            elif r < 0.72 and self.inc_left > 0:
                self.inc_left -= 1
                name = "inc%d.cylc" % len(self.files)
                self.files[name] = None           # reserve
                sub = self.body(level, 0) if rng.random() < 0.8 else []
                if rng.random() < 0.3 and self.inc_left > 0:
                    pass
                self.files[name] = "\n".join(sub) + ("\n" if sub and rng.random() < 0.8 else "")
                qt = rng.choice(["", "", "'", '"'])
                lines.append(ind + "%include" + rng.choice([" ", "  ", "\t"]) + qt + name + qt + _ws(rng))
            elif r < 0.8 and self.jinja:
                k = rng.random()
                if k < 0.4:
                    lines.append("{% for i in range(N) %}")
                    lines.append(ind + "k{{ i }} = " + rng.choice(["{{ i }}", "v{{ i }} \\", "a, \\"]))
                    if lines[-1].endswith("\\"):
                        lines.append(ind + "    cont{{ i }}")
                    lines.append("{% endfor %}")
                elif k < 0.6:
                    lines.append("{% if N > 1 %}")
                    lines += self.item(level, ind)
                    lines.append("{% else %}")
                    lines += self.item(level, ind)
                    lines.append("{% endif %}")
                elif k < 0.8:
                    lines.append("{# a jinja comment #}")
                else:
                    lines.append("{% set M = N + 1 %}")
                    lines.append(ind + "m = {{ M }}")
            elif r < 0.83 and self.bsws:
                # the finding's trigger: '#' ... backslash + trailing whitespace
                lines.append(rng.choice([ind + "# see C:\\dir\\ ", ind + "#\\\t",
                                         ind + "opt = 1 # keep \\  "]))
            elif level < 3 and budget > 0:
                name = rng.choice(["a", "b", "sec tion", "runtime", "x,y", "T<p>", "scheduling", "graph"])
                hind = " " * rng.choice([0, 0, 4 * level])
                br = level + 1
                lines.append(hind + "[" * br + rng.choice(["", " "]) + name + rng.choice(["", " "]) + "]" * br
                             + rng.choice(["", "", "  # heading comment", " #x"]))
                lines += self.body(level + 1, budget - 1)
        return lines

    def bad(self):
        """one malformed element"""
        rng = self.rng
        m = self.malformed
        if m == "continuation":
            return ["x = 1 \\" + rng.choice([" ", "\t", "  "])]
        if m == "inc-quotes":
            return ["%include \"nosuch.cylc'"]
        if m == "inc-missing":
            return ["%include " + rng.choice(["missing.cylc", "'missing.cylc'", ""])]
        if m == "bracket":
            return [rng.choice(["[a]]", "[[b]", "[[[deep]]]", "[unclosed"])]
        if m == "multiline":
            return ["k = '''never", "closed"]
        if m == "invalid":
            return [rng.choice(["just some words", "@k = 1", "k : v", "'''x''' = 2", "k = '''a''' b '''"])]
        if m == "leaf-parent":
            return ["[p]", "q = 1", "[p]", "[[q]]", "z = 2"]
        return []


KINDS = ["valid", "valid", "valid", "include", "include", "jinja", "jinja", "jinja-include", "bsws", "malformed"]
MALFORMED = ["continuation", "inc-quotes", "inc-missing", "bracket", "multiline", "invalid", "leaf-parent"]


def _gen_case(rng, kind):
    jinja = kind.startswith("jinja")
    n_inc = rng.randint(1, 3) if "include" in kind else (1 if rng.random() < 0.1 else 0)
    mal = rng.choice(MALFORMED) if kind == "malformed" else None
    g = _Gen(rng, jinja=jinja, n_inc=n_inc, malformed=mal, bsws=(kind == "bsws"))
    lines = []
    if jinja:
        lines.append(rng.choice(["#!jinja2", "#!Jinja2", "#!jinja2 "]))
        lines.append("{% set N = " + str(rng.randint(0, 3)) + " %}")
    if rng.random() < 0.5:
        lines += g.body(0, 2)
    for _ in range(rng.randint(1, 3)):
        name = rng.choice(["scheduling", "runtime", "meta", "a", "b c"])
        lines.append("[" + name + "]" + rng.choice(["", " # c"]))
        lines += g.body(1, 2)
    if mal:
        pos = rng.randint(0, len(lines))
        lines[pos:pos] = g.bad()
    # random trailing whitespace (never directly after a backslash: that is the malformed/bsws kinds' job)
    out = []
    for ln in lines:
        if ln and not ln.endswith("\\") and ln.rstrip() == ln and rng.random() < 0.15:
            ln = ln + rng.choice([" ", "  ", "\t"])
        out.append(ln)
    text = "\n".join(out) + ("\n" if rng.random() < 0.9 else "")
    if rng.random() < 0.03:
        text = rng.choice(["", "\n", "# only a comment", "\n\n"])
    files = {"flow.cylc": text}
    files.update({k: v or "" for k, v in g.files.items()})
    return {"kind": kind, "files": files}


def _py_concat(lines):
    """what a second _concatenate does to already processed lines"""
    out, i = [], 0
    while i < len(lines):
        line = lines[i]
        while line.endswith("\\"):
            if i == len(lines) - 1:
                line = line[:-1]
            else:
                i += 1
                line = line[:-1] + lines[i]
        out.append(line)
        i += 1
    return [x.rstrip() for x in out]


class ParsecStream(Stream):
    name = "parsec"
    coq_import = "From Cylc Require Import Model.TextCodec Model.Parsec."
    check_fn = "Parsec.check_case"
    show_fn = "Parsec.model_out"
    needs_scratch_home = True
    n_hashseeds = 4
    shard_size = 40
    rule = ("generated flow files: nested sections, items with plain / quoted / commented / list values, "
            "backslash continuation lines, triple-quoted multi-line strings (with comment-like, heading-like, "
            "item-like and continuation lines inside), comments, blank lines, trailing whitespace, %include files "
            "(quoted or not), Jinja2 (set/for/if/comments, generated continuation lines); each is run through the real "
            "read_and_proc and parse, then the processed dump that parse wrote is run through both again; kinds: "
            "valid/include/jinja/jinja-include, bsws (comment or trailing comment ending in backslash+whitespace), "
            "malformed (bad continuation, include errors, bracket mismatch, unclosed multi-line, invalid line); "
            "non-trivial = the file has a continuation line, include, Jinja2 or multi-line string")

    def corpus(self):
        return [
            # the finding's witness: the comment swallows the next line in the dump
            {"kind": "witness", "files": {"flow.cylc": "[a]\n# see C:\\dir\\ \nx = 1\ny = 2\n"}},
            {"kind": "witness", "files": {"flow.cylc": "[a]\nu = 1 \\\n  # two \\ \nx = 1\n"}},
            {"kind": "valid", "files": {"flow.cylc": ""}},
            {"kind": "valid", "files": {"flow.cylc": "\n"}},
            {"kind": "jinja-include", "files": {
                "flow.cylc": "#!jinja2\n{% set N = 2 %}\n[a]\n  %include 'inc0.cylc'\n{% for i in range(N) %}\n"
                             "[[t{{ i }}]]\n    script = echo {{ i }} \\\n        more\n{% endfor %}\n"
                             "m = '''one\n  # two  \n[three]\n''' # done\n",
                "inc0.cylc": "y = 2, \\\n  3\n%include \"inc1.cylc\"\n", "inc1.cylc": "z = \"q\" # c\n"}},
            {"kind": "malformed", "files": {"flow.cylc": "[a]\nx = 1 \\ \ny = 2\n"}},
        ]

    def gen(self, rng, tier):
        n = 150 if tier == "quick" else 3000
        return [_gen_case(rng, KINDS[i % len(KINDS)]) for i in range(n)]

    def impl(self, cases):
        import os
        import shutil
        import tempfile
        from cylc.flow.parsec import fileparse, jinja2support
        from cylc.flow.parsec.exceptions import FileParseError, IncludeFileNotFoundError, ParsecError, Jinja2Error
        from cylc.flow.exceptions import InputError
        rec = []
        orig = jinja2support.jinja2process

        def wrap(fpath, flines, dir_, tvars):
            out = orig(fpath, list(flines), dir_, tvars)
            rec.append([list(flines), list(out)])
            return out
        jinja2support.jinja2process = wrap

        def classify_exc(e):
            if isinstance(e, IncludeFileNotFoundError):
                return "EIncludeNotFound"
            if isinstance(e, FileParseError):
                s = str(e)
                if "line continuation" in s:
                    return "EContinuation"
                if "mismatched quotes" in s:
                    return "EIncludeQuotes"
                return "EParse"
            if isinstance(e, (Jinja2Error, InputError)):
                return "EJinja"
            return f"exc:{type(e).__name__}: {e}"[:200]

        def canon(cfg):
            out = []
            for k, v in cfg.items():
                if isinstance(v, dict):
                    out.append([k, canon(v)])
                elif isinstance(v, str):
                    out.append([k, v])
                else:
                    # repeated [scheduling][graph] items are collected in (nested) lists
                    out.append([k, {"list": repr(v)}])
            return out

        def lines_of(path):
            try:
                return {"ok": fileparse.read_and_proc(path)}
            except Exception as e:  # noqa
                return {"err": classify_exc(e)}

        def cfg_of(path, out):
            try:
                return {"ok": canon(fileparse.parse(path, out))}
            except TypeError as e:
                return {"err": "exc:TypeError: " + str(e)[:100]}
            except Exception as e:  # noqa
                return {"err": classify_exc(e)}

        base = tempfile.mkdtemp(prefix="c36-", dir=os.environ.get("TMPDIR") or "/var/tmp")
        cwd = os.getcwd()
        results = []
        try:
            for i, c in enumerate(cases):
                d = os.path.join(base, "w%d" % i)
                os.mkdir(d)
                try:
                    for name, text in c["files"].items():
                        with open(os.path.join(d, name), "w", encoding="utf-8", newline="\n") as fh:
                            fh.write(text)
                    src = os.path.join(d, "flow.cylc")
                    out1 = os.path.join(d, "flow-processed.cylc")
                    out2 = os.path.join(d, "flow-processed-2.cylc")
                    del rec[:]
                    r = {"lines1": lines_of(src), "cfg1": cfg_of(src, out1)}
                    if os.path.exists(out1):
                        with open(out1, encoding="utf-8", newline="") as fh:
                            r["dump"] = fh.read()
                        r["lines2"] = lines_of(out1)
                        r["cfg2"] = cfg_of(out1, out2)
                    jin = []
                    for a, b in rec:
                        if [a, b] not in jin:
                            jin.append([a, b])
                    r["jinja"] = jin
                    results.append(r)
                except Exception as e:  # noqa
                    results.append({"exc": f"{type(e).__name__}: {e}"})
                finally:
                    os.chdir(cwd)
                    shutil.rmtree(d, ignore_errors=True)
        finally:
            jinja2support.jinja2process = orig
            shutil.rmtree(base, ignore_errors=True)
        return results

    # ---- Gallina ----
    @staticmethod
    def _lines(ls):
        return q.clist(ctext(x) for x in ls)

    @classmethod
    def _res_lines(cls, r):
        if "ok" in r:
            return "(Ok " + cls._lines(r["ok"]) + ")"
        return "(Err " + r["err"] + ")"

    @classmethod
    def _node(cls, items):
        return q.clist(q.cpair(ctext(k), ("(Sect " + cls._node(v) + ")") if isinstance(v, list)
                               else ("(Leaf " + ctext(v) + ")")) for k, v in items)

    @classmethod
    def _has_list(cls, items):
        return any(isinstance(v, dict) or (isinstance(v, list) and cls._has_list(v)) for _, v in items)

    @classmethod
    def _res_cfg(cls, r):
        if r is None or ("err" in r and r["err"].startswith("exc:")):
            return "None"
        if "ok" in r and cls._has_list(r["ok"]):
            return "None"
        if "ok" in r:
            return "(Some (Ok " + cls._node(r["ok"]) + "))"
        return "(Some (Err " + r["err"] + "))"

    def coq_case(self, c, r):
        if "exc" in r:
            return None
        for k in ("lines1", "lines2"):
            if k in r and "err" in r[k] and r[k]["err"].startswith("exc:"):
                return None
        if any("\r" in t for t in c["files"].values()):
            return None
        files = q.clist(q.cpair(ctext(k), ctext(v)) for k, v in sorted(c["files"].items()) if k != "flow.cylc")
        jin = q.clist(q.cpair(self._lines(a), self._lines(b)) for a, b in r["jinja"])
        l2 = "(Some " + self._res_lines(r["lines2"]) + ")" if "lines2" in r else "None"
        if "lines2" in r and "err" in r["lines1"]:
            return None
        return q.crecord(c_text=ctext(c["files"]["flow.cylc"]), c_files=files, c_jinja=jin,
                         c_lines1=self._res_lines(r["lines1"]), c_lines2=l2,
                         c_cfg1=self._res_cfg(r.get("cfg1")), c_cfg2=self._res_cfg(r.get("cfg2")))

    # ---- oracle ----
    def oracle(self, c, r):
        if "exc" in r:
            return "harness exception: " + r["exc"]
        bad = [r[k]["err"] for k in ("lines1", "cfg1", "lines2", "cfg2")
               if k in r and "err" in r[k] and r[k]["err"].startswith("exc:")]
        if bad and c["kind"] != "malformed":
            return "unexpected exception: " + bad[0]
        if "ok" not in r["cfg1"]:
            return None          # the source itself does not parse: nothing to compare
        if "cfg2" not in r:
            return "parse succeeded but wrote no processed dump"
        if "ok" not in r["cfg2"]:
            return f"parsing the processed dump fails ({r['cfg2']['err']}) although the source parses"
        if r["cfg2"]["ok"] != r["cfg1"]["ok"]:
            return ("parsing the processed dump gives a different configuration: "
                    f"source -> {r['cfg1']['ok']!r}; dump -> {r['cfg2']['ok']!r}")
        return None

    def classify(self, c, r, failure):
        try:
            l1, l2 = r["lines1"]["ok"], r["lines2"]["ok"]
            if l1 != l2 and any(x.endswith("\\") for x in l1) and _py_concat(l1) == l2:
                return "dump-line-ends-in-backslash"
        except Exception:  # noqa
            pass
        return super().classify(c, r, failure)

    def key(self, c, r):
        t = "\n".join(c["files"].values())
        if not ("\\\n" in t or "%include" in t or "{%" in t or "'''" in t or '"""' in t):
            return None
        return super().key(c, r)

    def shrink(self, c):
        text = c["files"]["flow.cylc"]
        lines = text.split("\n")
        for i in range(len(lines)):
            yield dict(c, files=dict(c["files"], **{"flow.cylc": "\n".join(lines[:i] + lines[i + 1:])}))
        for name in list(c["files"]):
            if name != "flow.cylc":
                ls = c["files"][name].split("\n")
                for i in range(len(ls)):
                    yield dict(c, files=dict(c["files"], **{name: "\n".join(ls[:i] + ls[i + 1:])}))


STREAMS = [ParsecStream()]

META = {
    "level_text": (
        "Coq theorems over Model/Parsec.v for all sources, include tables and Jinja2 oracles: if no processed line ends "
        "in a backslash (and the output has no Jinja2 shebang first line and no %include line) then re-processing the "
        "processed dump gives the same lines and parse(dump) = parse(source) (c36_idempotent, c36_parse_idempotent); the "
        "unrestricted statement is refuted by a checked witness (comment ending in backslash+space swallows the next "
        "item) which is the known finding. The model is compared with the real read_and_proc and parse on the source "
        "and on the dump that the real parse wrote, for generated files with includes and Jinja2."),
    "level_note": (
        "Jinja2 and the file system are oracles (recorded input/output); the line parser is modelled on a fragment "
        "(outside it only the processed lines are compared); the idempotence theorems do not depend on the line "
        "parser's details. The rstrip-after-concatenate defect is listed in known_findings.d/C36.json."),
    "technique": "Coq proof (induction over the line list) + in-Coq differential correspondence on source and dump + parse-twice oracle",
    "design_ref": "5/C36",
}
