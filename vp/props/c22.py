"""C22 — broadcasts override in precedence order and persist exactly
(cylc/flow/broadcast_mgr.py, broadcast_report.py, workflow_db_mgr.py)."""
import itertools
import re
from vp.core import Stream
from vp import coqfmt as q

TRUSTED = [
    "hand model Model/Broadcast.v of BroadcastMgr (addict, put/clear/expire/get_broadcast, _prune, "
    "load_db_broadcast_states), get_broadcast_change_iter and the broadcast_states INSERT OR REPLACE/DELETE "
    "(names and coerced values numbered by the harness; namespaces numbered in Python string order)",
    "Model/C3.v (C35) for the linearized ancestors used by get_broadcast",
    "BroadcastConfigValidator is outside the model: which settings it accepts and what it coerces a string to "
    "come from the harness's own table of the runtime spec (checked against the implementation on every case)",
    "sqlite (INSERT OR REPLACE / DELETE on the primary key point,namespace,key) and the batching of queued "
    "statements in process_queued_ops: the model applies statements one by one; flush points are generated",
    "stub scheduler around the real BroadcastMgr + real WorkflowDatabaseManager on a scratch sqlite file",
]
ASSUMES = [
    "integer cycling; setting values are strings (the validator rejects anything else except null)",
    "setting keys contain no '[' or ']' in the modelled fragment (the DB key encoding [sec]key is then injective); "
    "keys with brackets are run through the oracle only (known finding)",
    "settings avoid platform / [remote]host / [job] (bc_mixes_old_and_new_platform_settings) and 'run mode'",
    "'identical after restart' is read on the leaves (point, namespace, key path, coerced value): empty dicts "
    "left in memory by rejected namespaces are not persisted and carry no setting",
    "order and uniq() of the returned modified_settings / bad_options reports are not compared",
]

# ---------------------------------------------------------------------------
# the harness's own table of (part of) the [runtime][__MANY__] spec
# ---------------------------------------------------------------------------
TOP = {"script": "S", "pre-script": "S", "post-script": "S",
       "execution time limit": "I", "execution retry delays": "IL"}
SECT = {
    "environment": {"__MANY__": "S"},
    "meta": {"title": "S", "description": "S", "__MANY__": "S"},
    "directives": {"__MANY__": "S"},
    "events": {"handlers": "SL", "mail events": "SL", "execution timeout": "I"},
    "simulation": {"fail try 1 only": "B"},
}
MANY_KEYS = {"environment": ["A", "B", "C", "FOO"], "meta": ["x"], "directives": ["-l a", "-q"]}
RAW = {
    "S": {"v1": "s:v1", "v2": "s:v2", " v3 ": "s:v3", '"v4"': "s:v4", "echo a b": "s:echo a b", "": "s:"},
    "I": {"PT1M": "f:60.0", "PT60S": "f:60.0", "PT2M": "f:120.0", "P1D": "f:86400.0"},
    "IL": {"PT1M, PT2M": "l:[f:60.0,f:120.0]", "2*PT1M": "l:[f:60.0,f:60.0]",
           "PT1M,PT1M": "l:[f:60.0,f:60.0]", "PT2M": "l:[f:120.0]"},
    "SL": {"a, b": "l:[s:a,s:b]", "a,b": "l:[s:a,s:b]", "c": "l:[s:c]"},
    "B": {"True": "b:True", "False": "b:False", "true": "b:True"},
}
BRACKET = re.compile(r"[\[\]]")


def leaf_type(path):
    """type code of a setting path (tuple of keys) or None if not a valid leaf"""
    if len(path) == 1:
        return TOP.get(path[0])
    if len(path) == 2 and path[0] in SECT:
        sec = SECT[path[0]]
        return sec.get(path[1], sec.get("__MANY__"))
    return None


def leaves(d, pre=()):
    """leaf (path, value) pairs of a nested dict, depth first in dict order"""
    out = []
    for k, v in d.items():
        if isinstance(v, dict):
            out.extend(leaves(v, pre + (k,)))
        else:
            out.append((pre + (k,), v))
    return out


def valid_setting(s):
    """would BroadcastConfigValidator accept it (own reading of the spec)"""
    if not isinstance(s, dict):
        return False
    for k, v in s.items():
        if k in TOP:
            if not isinstance(v, str) or v not in RAW[TOP[k]]:
                return False
        elif k in SECT:
            if not isinstance(v, dict):
                return False
            for k2, v2 in v.items():
                t = leaf_type((k, k2))
                if t is None or not isinstance(v2, str) or v2 not in RAW[t]:
                    return False
        else:
            return False
    return True


def expected_tok(path, raw):
    return RAW[leaf_type(path)][raw]


def first_walk(s):
    """get_broadcast_change_iter's walk BEFORE the fix bdf8ea5: first key of each
    dict; None when it hits an empty dict (used only to recognise a regression
    to that defect in classify)."""
    path, v = (), s
    while isinstance(v, dict):
        if not v:
            return None
        k = next(iter(v))
        path, v = path + (k,), v[k]
    return path, v


def std_point(s):
    """standardised integer cycle point string, '*' or None (own reading)"""
    if s == "*":
        return "*"
    if re.fullmatch(r"\s*[+-]?\d+\s*", s):
        return str(int(s))
    return None


def py_mro(parents, name):
    """linearized ancestors via CPython's own MRO (independent of cylc's C3)"""
    classes = {}

    def mk(n):
        if n not in classes:
            classes[n] = type(n, tuple(mk(p) for p in parents[n]), {})
        return classes[n]
    return [c.__name__ for c in mk(name).__mro__ if c is not object]


# ---------------------------------------------------------------------------
# reference semantics (independent of the Gallina model)
# ---------------------------------------------------------------------------
def reference(case):
    """Returns per-op reference states {(pt, ns, path): tok}, and the DB that
    the *fixed defect* (first key only, before bdf8ea5) would leave, so that a
    regression to it is classified under its old signature."""
    names = set(case["parents"])
    ref, refdb, steps, raised_any = {}, {}, [], False
    for o in case["hist"]:
        if o["op"] == "put":
            mods = []
            for s in o["settings"] or []:
                if not valid_setting(s):
                    continue
                for p in o["points"] or []:
                    sp = std_point(p)
                    if sp is None:
                        continue
                    for ns in o["namespaces"] or []:
                        if ns in names:
                            mods.append((sp, ns, s))
                            for path, raw in leaves(s):
                                ref[(sp, ns, path)] = expected_tok(path, raw)
            for sp, ns, s in sorted(mods, key=lambda x: (x[0], x[1])):
                w = first_walk(s)
                if w is None:
                    raised_any = True
                    break
                refdb[(sp, ns, w[0])] = expected_tok(*w)
        elif o["op"] in ("clear", "expire"):
            if o["op"] == "expire":
                c = o["cutoff"]
                pts = sorted({k[0] for k in ref if c is None or (k[0] != "*" and int(k[0]) < int(c))})
                if not pts:
                    steps.append(dict(ref))
                    continue
                nss, ck = [], []
            else:
                pts, nss = o["points"] or [], o["namespaces"] or []
                ck = [p for s in (o["cancel"] or []) for p, _ in leaves(s)]
            for k in list(ref):
                if (not pts or k[0] in pts) and (not nss or k[1] in nss) and (not ck or k[2] in ck):
                    del ref[k]
                    refdb.pop(k, None)
        steps.append(dict(ref))
    return steps, refdb, raised_any


def ref_get(case, ref, task, cycle):
    out = {}
    for cyc in ["*", cycle]:
        for ns in reversed(py_mro(case["parents"], task)):
            for (p, n, path), tok in ref.items():
                if p == cyc and n == ns:
                    out[path] = tok
    return out


def _lv(l):
    """canonical leaves [[path...], tok] -> dict"""
    return {tuple(p): t for p, t in l}


# ---------------------------------------------------------------------------
# generator
# ---------------------------------------------------------------------------
NAME_POOL = ["FAM", "GRP", "Zed", "a", "b", "foo", "t1"]
POINTS_OK = ["*", "1", "2", "3", "5", "10", "-1", "0"]
POINTS_ODD = ["03", "+2", " 5", "x", "2x", "", "all-cycles"]


def gen_hier(rng):
    n = rng.randint(1, 5)
    names = ["root"] + rng.sample(NAME_POOL, n)
    for _ in range(20):
        parents = {"root": []}
        for i, nm in enumerate(names[1:], 1):
            pool = names[1:i]
            k = rng.choice([0, 1, 1, 2]) if pool else 0
            ps = rng.sample(pool, min(k, len(pool)))
            parents[nm] = ps if ps else ["root"]
        try:
            for nm in names:
                py_mro(parents, nm)
            return parents
        except TypeError:
            continue
    return {nm: ([] if nm == "root" else ["root"]) for nm in names}


NARROW = [("environment", "A"), ("environment", "B"), ("script",)]


def gen_leaf(rng, bracket=False, narrow=False):
    if narrow:
        path = rng.choice(NARROW)
        return path, rng.choice(["v1", "v2", " v3 "])
    if rng.random() < 0.4:
        k = rng.choice(list(TOP))
        return (k,), rng.choice(list(RAW[TOP[k]]))
    sec = rng.choice(list(SECT))
    spec = SECT[sec]
    ks = [k for k in spec if k != "__MANY__"] + MANY_KEYS.get(sec, [])
    k = rng.choice(ks)
    if bracket and sec in MANY_KEYS:
        k = rng.choice(["-l s[1]", "X]", "[Y"])
    return (sec, k), rng.choice(list(RAW[leaf_type((sec, k))]))


def build(leaf_list):
    d = {}
    for path, raw in leaf_list:
        cur = d
        for k in path[:-1]:
            cur = cur.setdefault(k, {})
        cur[path[-1]] = raw
    return d


def gen_setting(rng, flavour, narrow=False):
    """flavour: single | multi | empty | invalid | bracket"""
    if flavour == "single":
        return build([gen_leaf(rng, narrow=narrow)])
    if flavour == "bracket":
        return build([gen_leaf(rng, bracket=True)])
    if flavour == "multi":
        return build([gen_leaf(rng, narrow=narrow) for _ in range(rng.randint(2, 4))])
    if flavour == "empty":
        c = rng.random()
        if c < 0.3:
            return {}
        d = build([gen_leaf(rng) for _ in range(rng.randint(0, 2))])
        sec = rng.choice(list(SECT))
        if c < 0.7:
            d = {sec: {}, **{k: v for k, v in d.items() if k != sec}}
        else:
            d.setdefault(sec, {})
        return d
    return rng.choice([
        {"nonsense": "1"}, {"environment": "x"}, {"script": {"a": "b"}},
        {"environment": {"A": {"B": "c"}}}, {"execution time limit": "junk"},
        {"environment": {"A": 5}}, {"script": ["a", "b"]}, {"inherit": "FAM", "zz": "1"},
    ])


def gen_case(rng, mix, narrow=False):
    """mix: weights of setting flavours; narrow: few setting paths, namespaces
    mostly from one task's ancestry (many precedence conflicts)"""
    parents = gen_hier(rng)
    names = list(parents)
    focus = max(rng.sample(names, min(3, len(names))), key=lambda n: len(py_mro(parents, n)))
    lineage = py_mro(parents, focus)
    flav = [f for f, w in mix.items() for _ in range(w)]
    hist, used_points = [], ["1"]
    for _ in range(rng.randint(1, 7)):
        c = rng.random()
        if c < 0.55 or not hist:
            pts = [rng.choice(POINTS_OK) for _ in range(rng.randint(1, 3))]
            if rng.random() < 0.15:
                pts.insert(rng.randrange(len(pts) + 1), rng.choice(POINTS_ODD))
            pool = lineage if narrow and rng.random() < 0.8 else names
            nss = [rng.choice(pool) for _ in range(rng.randint(1, 3))]
            if narrow:
                pts = [rng.choice(["*", "*", "2", "3"]) for _ in range(rng.randint(1, 2))]
            if rng.random() < 0.12:
                nss.insert(rng.randrange(len(nss) + 1), rng.choice(["nope", "AAA", "zzz"]))
            if rng.random() < 0.05:
                nss = [n for n in nss if n not in names] or ["nope"]
            sts = [gen_setting(rng, rng.choice(flav), narrow) for _ in range(rng.choice([1, 1, 1, 2, 3]))]
            used_points += [p for p in pts if std_point(p) not in (None, "*")]
            hist.append({"op": "put", "points": pts, "namespaces": nss, "settings": sts})
        elif c < 0.78:
            pts = [rng.choice(POINTS_OK + ["03"]) for _ in range(rng.choice([0, 0, 1, 1, 2]))]
            nss = [rng.choice(names + ["nope"]) for _ in range(rng.choice([0, 0, 1, 2]))]
            cancel = None
            if rng.random() < 0.5:
                cancel = [build([gen_leaf(rng, narrow=narrow) for _ in range(rng.choice([1, 1, 2]))])
                          for _ in range(rng.choice([1, 1, 2]))]
                if rng.random() < 0.1:
                    cancel.append({rng.choice(list(SECT)): {}})
            hist.append({"op": "clear", "points": pts, "namespaces": nss, "cancel": cancel})
        elif c < 0.88:
            hist.append({"op": "expire", "cutoff": rng.choice([None, "0", "2", "3", "4", "11", "-1"])})
        else:
            hist.append({"op": "flush"})
    queries = []
    for _ in range(rng.randint(1, 3)):
        static = build([gen_leaf(rng, narrow=narrow) for _ in range(rng.randint(0, 3))])
        task = rng.choice(lineage[:2]) if narrow and rng.random() < 0.8 else rng.choice(names)
        queries.append({"task": task, "cycle": str(int(rng.choice(used_points))), "static": static})
    return {"parents": parents, "hist": hist, "queries": queries}


def case_kind(case):
    ks = set()
    for o in case["hist"]:
        if o["op"] != "put":
            continue
        for s in o["settings"] or []:
            if isinstance(s, dict) and any(BRACKET.search(str(k)) for k in s):
                ks.add("bracket")
            elif isinstance(s, dict) and any(
                    isinstance(v, dict) and any(BRACKET.search(str(k)) for k in v) for v in s.values()):
                ks.add("bracket")
            elif not valid_setting(s):
                ks.add("invalid")
            elif first_walk(s) is None:
                ks.add("emptydict")
            elif len(leaves(s)) > 1:
                ks.add("multikey")
    for k in ("bracket", "emptydict", "multikey", "invalid"):
        if k in ks:
            return k
    return "single"


# small alphabet for the exhaustive box (thorough)
def _box_ops():
    A1 = {"environment": {"A": "v1"}}
    A2 = {"environment": {"A": "v2"}}
    AB = {"environment": {"A": "v1", "B": "v2"}}
    SC = {"script": "v1"}
    return [
        {"op": "put", "points": ["*"], "namespaces": ["root"], "settings": [A1]},
        {"op": "put", "points": ["2"], "namespaces": ["FAM"], "settings": [A2]},
        {"op": "put", "points": ["2", "10"], "namespaces": ["a"], "settings": [SC, A1]},
        {"op": "put", "points": ["*", "2"], "namespaces": ["a", "root"], "settings": [AB]},
        {"op": "put", "points": ["2"], "namespaces": ["a"], "settings": [{"environment": {}}, SC]},
        {"op": "clear", "points": [], "namespaces": [], "cancel": None},
        {"op": "clear", "points": ["2"], "namespaces": [], "cancel": None},
        {"op": "clear", "points": [], "namespaces": ["a"], "cancel": [A1]},
        {"op": "clear", "points": ["*"], "namespaces": ["root"], "cancel": [{"environment": {"B": "x"}}]},
        {"op": "expire", "cutoff": "3"},
        {"op": "expire", "cutoff": None},
        {"op": "flush"},
    ]


BOX_PARENTS = {"root": [], "FAM": ["root"], "a": ["FAM"]}
BOX_QUERIES = [{"task": "a", "cycle": "2", "static": {"environment": {"A": "v1", "C": "v2"}, "script": "v2"}},
               {"task": "FAM", "cycle": "10", "static": {}}]


# ---------------------------------------------------------------------------
class BroadcastStream(Stream):
    name = "broadcast"
    coq_import = "From Cylc Require Import Model.C3 Model.Broadcast."
    check_fn = "Broadcast.check_case"
    show_fn = "Broadcast.model_out"
    rule = ("random histories (1-7 ops) of put/clear/expire/flush on the real BroadcastMgr + real "
            "WorkflowDatabaseManager (scratch sqlite), random namespace DAGs (1-6 namespaces, multiple "
            "inheritance), points incl. '*', non-canonical and invalid ones, unknown namespaces, settings that are "
            "single-leaf / multi-key / with empty dicts / invalid / with brackets in keys; compared after every op "
            "(in-memory leaves), at the end (DB rows, state reloaded from the DB, get_broadcast and "
            "get_updated_rtconfig for sample tasks); non-trivial = at least two effective ops; thorough adds all "
            "op sequences of length <= 3 over a 12-op alphabet")
    n_hashseeds = 16
    impl_timeout = 3000
    shard_size = 40
    needs_scratch_home = True

    MIX_SINGLE = {"single": 9, "invalid": 1}
    MIX_ALL = {"single": 5, "multi": 3, "empty": 1, "invalid": 1}

    def corpus(self):
        par = {"root": [], "FAM": ["root"], "a": ["FAM"], "b": ["root"]}
        qs = [{"task": "a", "cycle": "3", "static": {"environment": {"A": "v2", "C": "v1"}}}]
        return [
            # regression: witness of the fixed finding (bdf8ea5): multi-key API broadcast, whose
            # second leaf used to be lost on restart
            {"kind": "multikey", "parents": par, "queries": qs, "hist": [
                {"op": "put", "points": ["3"], "namespaces": ["a"],
                 "settings": [{"environment": {"A": "v1", "B": "v2"}}]}]},
            # regression, same fixed defect: an empty dict used to make the change iterator
            # raise after the in-memory update; the later setting never reached the DB
            {"kind": "emptydict", "parents": par, "queries": qs, "hist": [
                {"op": "put", "points": ["3"], "namespaces": ["a"],
                 "settings": [{"environment": {}}, {"script": "v1"}]}]},
            # open finding: key with a bracket, the DB key string does not parse back
            {"kind": "bracket", "parents": par, "queries": qs, "hist": [
                {"op": "put", "points": ["3"], "namespaces": ["a"],
                 "settings": [{"directives": {"-l s[1]": "v1"}}]}]},
            # precedence: all-cycle then own cycle, root -> FAM -> a; then clear / expire
            {"kind": "single", "parents": par, "queries": qs + [{"task": "b", "cycle": "3", "static": {}}], "hist": [
                {"op": "put", "points": ["3"], "namespaces": ["root"], "settings": [{"environment": {"A": "v1"}}]},
                {"op": "put", "points": ["*"], "namespaces": ["a"], "settings": [{"environment": {"A": "v2"}}]},
                {"op": "put", "points": ["*", "1"], "namespaces": ["FAM", "b"],
                 "settings": [{"script": "v1"}, {"execution time limit": "PT60S"}]},
                {"op": "flush"},
                {"op": "clear", "points": ["*"], "namespaces": ["FAM"], "cancel": [{"script": "x"}]},
                {"op": "expire", "cutoff": "2"}]},
        ]

    def gen(self, rng, tier):
        cases = []
        n = 260 if tier == "quick" else 4000
        for i in range(n):
            mix = self.MIX_SINGLE if i % 2 == 0 else self.MIX_ALL
            c = gen_case(rng, mix, narrow=(i % 3 != 0))
            c["kind"] = case_kind(c)
            cases.append(c)
        for _ in range(6 if tier == "quick" else 100):
            c = gen_case(rng, {"single": 4, "bracket": 2})
            c["kind"] = case_kind(c)
            cases.append(c)
        if tier == "thorough":
            ops = _box_ops()
            for k in (1, 2, 3):
                for combo in itertools.product(range(len(ops)), repeat=k):
                    c = {"parents": BOX_PARENTS, "hist": [ops[i] for i in combo], "queries": BOX_QUERIES}
                    c["kind"] = "box-" + case_kind(c)
                    cases.append(c)
        return cases

    # -- implementation driver ------------------------------------------------
    def impl(self, cases):
        import logging
        import os
        import shutil
        import sqlite3
        import tempfile
        from types import SimpleNamespace
        from cylc.flow import LOG
        from cylc.flow.broadcast_mgr import BroadcastMgr
        from cylc.flow.c3mro import C3
        from cylc.flow.cfgspec.workflow import SPEC
        from cylc.flow.cycling.loader import DefaultCycler
        from cylc.flow.id import Tokens
        from cylc.flow.parsec.OrderedDict import OrderedDictWithDefaults
        from cylc.flow.parsec.validate import DurationFloat
        from cylc.flow.run_modes import RunMode
        from cylc.flow.workflow_db_mgr import WorkflowDatabaseManager

        DefaultCycler.TYPE = "integer"
        LOG.setLevel(logging.CRITICAL + 1)

        def tok(v):
            if isinstance(v, bool):
                return "b:" + str(v)
            if isinstance(v, float):
                return "f:" + repr(float(v))
            if isinstance(v, str):
                return "s:" + v
            if isinstance(v, list):
                return "l:[" + ",".join(tok(x) for x in v) + "]"
            if v is None:
                return "none"
            return type(v).__name__ + ":" + str(v)

        def obj(t):
            if t.startswith("s:"):
                return t[2:]
            if t.startswith("f:"):
                return DurationFloat(float(t[2:]))
            if t.startswith("b:"):
                return t[2:] == "True"
            if t.startswith("l:["):
                inner = t[3:-1]
                return [obj(x) for x in inner.split(",")] if inner else []
            raise ValueError(t)

        def dense(static):
            d = OrderedDictWithDefaults()
            for c in SPEC["runtime"]["__MANY__"]:
                d[c.name] = None if c.is_leaf() else OrderedDictWithDefaults()
            for path, raw in leaves(static):
                cur = d
                for k in path[:-1]:
                    cur = cur[k]
                cur[path[-1]] = obj(expected_tok(path, raw))
            return d

        def lv(d):
            return [[list(p), tok(v)] for p, v in leaves(d)]

        def dense_leaves(d):
            # leaves of an rtconfig, unset (None) defaults dropped
            return [[list(p), tok(v)] for p, v in leaves(d) if v is not None]

        class Cfg:
            def get_config(self, keys, sparse=False):
                assert keys[0] == "runtime"
                return dense({})

        # an empty run DB is made once per process with the real start-up path
        # (on_workflow_start(is_restart=False) creates every table); each case
        # starts from a copy of it, opened the way a restart opens an existing DB
        tmpl = tempfile.mkdtemp(prefix="c22-tmpl-")
        for sub in ("pri", "pub"):
            os.makedirs(os.path.join(tmpl, sub))
        t0 = WorkflowDatabaseManager(os.path.join(tmpl, "pri"), os.path.join(tmpl, "pub"))
        t0.on_workflow_start(is_restart=False)
        t0.on_workflow_shutdown()

        def mk(d, anc, restart):
            if not restart:
                for sub in ("pri", "pub"):
                    shutil.copytree(os.path.join(tmpl, sub), os.path.join(d, sub))
            dbm = WorkflowDatabaseManager(os.path.join(d, "pri"), os.path.join(d, "pub"))
            dbm.on_workflow_start(is_restart=True)
            schd = SimpleNamespace(
                get_run_mode=lambda: RunMode.LIVE, workflow_db_mgr=dbm,
                data_store_mgr=SimpleNamespace(delta_broadcast=lambda: None),
                config=Cfg())
            m = BroadcastMgr(schd)
            m.linearized_ancestors.update(anc)
            return m, dbm

        def one(c):
            d = tempfile.mkdtemp(prefix="c22-")
            dbm = dbm2 = None
            try:
                c3 = C3({k: list(v) for k, v in c["parents"].items()})
                anc = {nm: c3.mro(nm) for nm in c["parents"]}
                m, dbm = mk(d, anc, False)
                steps = []
                for o in c["hist"]:
                    raised = False
                    try:
                        if o["op"] == "put":
                            m.put_broadcast(o["points"], o["namespaces"], o["settings"])
                        elif o["op"] == "clear":
                            m.clear_broadcast(o["points"], o["namespaces"], o["cancel"])
                        elif o["op"] == "expire":
                            m.expire_broadcast(o["cutoff"])
                        else:
                            dbm.process_queued_ops()
                    except RuntimeError as e:
                        if "generator raised StopIteration" not in str(e):
                            raise
                        raised = True
                    steps.append({"raised": raised, "leaves": lv(m.broadcasts)})
                dbm.process_queued_ops()
                qs = []
                for qu in c["queries"]:
                    tokens = Tokens(cycle=qu["cycle"], task=qu["task"])
                    static = dense(qu["static"])
                    got = m.get_broadcast(tokens)
                    rt = m.get_updated_rtconfig(
                        SimpleNamespace(tokens=tokens, tdef=SimpleNamespace(rtconfig=static)))
                    qs.append({"get": lv(got), "rt": dense_leaves(rt)})
                dbm.on_workflow_shutdown()
                dbm = None
                con = sqlite3.connect(os.path.join(d, "pri", "db"))
                rows = [list(r) for r in con.execute(
                    "SELECT point, namespace, key, value FROM broadcast_states")]
                con.close()
                res = {"steps": steps, "db_raw": rows, "queries": qs}
                try:
                    m2, dbm2 = mk(d, anc, True)
                    dbm2.pri_dao.select_broadcast_states(m2.load_db_broadcast_states)
                    m2.post_load_db_coerce()
                    res["reload"] = lv(m2.broadcasts)
                except Exception as e:  # noqa
                    res["reload_exc"] = f"{type(e).__name__}: {e}"
                return res
            except Exception as e:  # noqa
                return {"exc": f"{type(e).__name__}: {e}"}
            finally:
                for x in (dbm, dbm2):
                    try:
                        if x is not None:
                            x.on_workflow_shutdown()
                    except Exception:  # noqa
                        pass
                shutil.rmtree(d, ignore_errors=True)

        try:
            return [one(c) for c in cases]
        finally:
            shutil.rmtree(tmpl, ignore_errors=True)

    # -- canonical DB rows ----------------------------------------------------
    @staticmethod
    def db_rows(r):
        """[(path tuple, tok)] from raw rows, or None if a key does not parse"""
        out = []
        for pt, ns, key, value in r["db_raw"]:
            m = re.fullmatch(r"((?:\[[^\[\]]+\])*)([^\[\]]*)", key)
            if not m:
                return None
            path = tuple(re.findall(r"\[([^\[\]]+)\]", m.group(1))) + (m.group(2),)
            t = leaf_type(path)
            tokv = RAW.get(t, {}).get(value, "raw:" + str(value))
            out.append(((pt, ns) + path, tokv))
        return out

    # -- Gallina printer ------------------------------------------------------
    def coq_case(self, c, r):
        if "exc" in r or "reload_exc" in r or c.get("kind", "").endswith("bracket"):
            return None
        rows = self.db_rows(r)
        if rows is None:
            return None
        # numbering
        names = set(c["parents"])
        for o in c["hist"]:
            names.update(o.get("namespaces") or [])
        rank = {nm: i for i, nm in enumerate(sorted(names))}
        keys, vals = {}, {}

        def kname(k):
            return "KName " + q.cN(keys.setdefault(k, 100 + len(keys)))

        def point_key(s):
            if s == "*":
                return "KStar"
            return f"KInt {q.cz(int(s))}"

        def vtok(t):
            return q.cN(vals.setdefault(t, len(vals)))

        def tree(d, pre=()):
            items = []
            for k, v in d.items():
                if isinstance(v, dict):
                    items.append(f"kt ({kname(k)}) {tree(v, pre + (k,))}")
                else:
                    items.append(f"kt ({kname(k)}) (Leaf {vtok(expected_tok(pre + (k,), v))})")
            return "(Node " + q.clist(items) + ")"

        def cancel_tree(d):
            items = []
            for k, v in d.items():
                items.append(f"kt ({kname(k)}) " + (cancel_tree(v) if isinstance(v, dict) else "(Leaf 0%N)"))
            return "(Node " + q.clist(items) + ")"

        def kids(d, pre=()):
            t = tree(d, pre)
            return t[len("(Node "):-1]

        def full_path(p):
            # p = [pt, ns, k1, ...]
            return q.clist(["(" + point_key(p[0]) + ")", f"(KName {q.cN(rank[p[1]])})"]
                           + ["(" + kname(k) + ")" for k in p[2:]])

        def lvs(l, full=True):
            out = []
            for p, t in l:
                pp = full_path(p) if full else q.clist("(" + kname(k) + ")" for k in p)
                out.append(f"lf {pp} {vtok(t)}")
            return q.clist(out)

        def clear_point(s):
            if s == "*":
                return "KStar"
            if re.fullmatch(r"-?\d+", s) and str(int(s)) == s:
                return f"KInt {q.cz(int(s))}"
            return "KName 4999%N"       # never equal to a stored point

        ops = []
        for o in c["hist"]:
            if o["op"] == "put":
                pts = q.clist(q.copt(std_point(p), lambda s: "(" + point_key(s) + ")") for p in o["points"])
                nss = q.clist(f"KName {q.cN(rank[n])}" for n in o["namespaces"])
                sts = q.clist(q.copt(s if valid_setting(s) else None, tree) for s in o["settings"])
                ops.append(f"Put {pts} {nss} {sts}")
            elif o["op"] == "clear":
                pts = q.clist(clear_point(p) for p in o["points"] or [])
                nss = q.clist(f"KName {q.cN(rank[n])}" for n in o["namespaces"] or [])
                can = q.clist(cancel_tree(s) for s in o["cancel"] or [])
                ops.append(f"Clear {pts} {nss} {can}")
            elif o["op"] == "expire":
                ops.append("Expire " + q.copt(o["cutoff"], lambda s: q.cz(int(s))))
            else:
                ops.append("Flush")
        trees = q.clist("nd " + q.cnat(rank[nm]) + " " + q.clist(q.cnat(rank[p]) for p in c["parents"][nm])
                        for nm in sorted(c["parents"]))
        steps = q.clist("stp " + q.cbool(s["raised"]) + " " + lvs(s["leaves"]) for s in r["steps"])
        queries = []
        for qu, qr in zip(c["queries"], r["queries"]):
            queries.append(q.crecord(
                q_task=q.cnat(rank[qu["task"]]), q_cycle=point_key(qu["cycle"]),
                q_static=kids(qu["static"]), q_get=lvs(qr["get"], full=False),
                q_rt=lvs(qr["rt"], full=False)))
        return q.crecord(
            c_tree=trees, c_hist=q.clist(ops), c_steps=steps,
            c_db=lvs([[list(p), t] for p, t in rows]), c_reload=lvs(r["reload"]),
            c_queries=q.clist(queries))

    # -- property oracle ------------------------------------------------------
    def _analyse(self, c, r):
        """(failure text, signature) or (None, None)"""
        if "exc" in r:
            return "unexpected exception: " + r["exc"], "exception"
        steps, refdb, raised_ref = reference(c)
        for i, (s, ref) in enumerate(zip(r["steps"], steps)):
            got = _lv(s["leaves"])
            want = {(k[0], k[1]) + k[2]: t for k, t in ref.items()}
            if got != want:
                return (f"after op {i} ({c['hist'][i]['op']}) in-memory broadcasts differ from the reference: "
                        f"got {sorted(got.items())} want {sorted(want.items())}"), "mem:step-mismatch"
        final = steps[-1] if steps else {}
        for qu, qr in zip(c["queries"], r["queries"]):
            want = ref_get(c, final, qu["task"], qu["cycle"])
            got = _lv(qr["get"])
            if got != want:
                return (f"get_broadcast({qu['cycle']}/{qu['task']}) = {sorted(got.items())} but precedence rule "
                        f"gives {sorted(want.items())}"), "get:precedence"
            st = {p: expected_tok(p, raw) for p, raw in leaves(qu["static"])}
            st.update(want)
            if _lv(qr["rt"]) != st:
                return (f"get_updated_rtconfig({qu['cycle']}/{qu['task']}) = {sorted(_lv(qr['rt']).items())} "
                        f"want {sorted(st.items())}"), "get:rtconfig"
        mem = _lv(r["steps"][-1]["leaves"]) if r["steps"] else {}
        known = {(k[0], k[1]) + k[2]: t for k, t in refdb.items()}
        has_bracket = any(BRACKET.search(k) for k in mem for k in k[2:])
        raised = [i for i, s in enumerate(r["steps"]) if s["raised"]]
        if "reload_exc" in r:
            return ("restart fails while loading broadcast states: " + r["reload_exc"],
                    "db-roundtrip:bracket-in-key" if has_bracket else "db-roundtrip:reload-exception")
        rel = _lv(r["reload"])
        if rel != mem or raised:
            lost = sorted(set(mem.items()) - set(rel.items()))
            extra = sorted(set(rel.items()) - set(mem.items()))
            txt = (f"state reloaded from the DB differs from the in-memory state: lost {lost} extra {extra}"
                   + (f"; put at op {raised} raised RuntimeError after updating memory" if raised else ""))
            if has_bracket:
                sig = "db-roundtrip:bracket-in-key"
            elif rel == known and bool(raised) == raised_ref:
                sig = "db-roundtrip:empty-dict-setting" if raised else "db-roundtrip:multi-key-setting"
            else:
                sig = "db-roundtrip:unexplained"
            return txt, sig
        return None, None

    def oracle(self, c, r):
        return self._analyse(c, r)[0]

    def classify(self, c, r, failure):
        return self._analyse(c, r)[1] or "none"

    def key(self, c, r):
        eff = sum(1 for o in c["hist"] if o["op"] != "flush")
        if eff < 2:
            return None
        return super().key({k: v for k, v in c.items() if k != "kind"}, r)

    def shrink(self, c):
        h = c["hist"]
        for i in range(len(h)):
            yield {**c, "hist": h[:i] + h[i + 1:]}
        if len(c["queries"]) > 1:
            yield {**c, "queries": c["queries"][:1]}
        for i, o in enumerate(h):
            for fld in ("points", "namespaces", "settings", "cancel"):
                v = o.get(fld)
                if isinstance(v, list) and len(v) > 1:
                    for j in range(len(v)):
                        yield {**c, "hist": h[:i] + [{**o, fld: v[:j] + v[j + 1:]}] + h[i + 1:]}
            if o["op"] == "put":
                for j, s in enumerate(o["settings"]):
                    ls = leaves(s) if isinstance(s, dict) and valid_setting(s) else []
                    if len(ls) > 2:
                        for k in range(len(ls)):
                            s2 = build(ls[:k] + ls[k + 1:])
                            yield {**c, "hist": h[:i] + [{**o, "settings": o["settings"][:j] + [s2]
                                                         + o["settings"][j + 1:]}] + h[i + 1:]}


STREAMS = [BroadcastStream()]

META = {
    "level_text": (
        "Coq theorems over Model/Broadcast.v, for all states/histories: (precedence) the value get_broadcast gives a task "
        "for any setting path is the last defined one in the order ('*',root)..('*',task),(cycle,root)..(cycle,task), the "
        "updated rtconfig is the static one overridden by it, and a task-level own-cycle setting always wins; (clear) a "
        "leaf disappears iff it is targeted by the point/namespace/cancel filters, all others keep their value; (expire) "
        "exactly the leaves of integer points below the cutoff disappear, never '*'; (persistence) for every history of "
        "put/clear/expire/flush with any accepted settings, the state reloaded from the DB has exactly "
        "the in-memory leaves (invariant: DB = memory on the leaves, proved by induction over the history, including the "
        "stable sort of get_broadcast_change_iter). This is the full statement, multi-key and empty setting dicts included, "
        "since the fix bdf8ea5 of get_broadcast_change_iter; the pre-fix iterator is kept in the model only for the "
        "historical theorems c22_pre_fix_* (refutation witness, single-leaf restriction). "
        "The model is tied to the code by differential runs of the real BroadcastMgr + real WorkflowDatabaseManager/sqlite "
        "(after every op, DB rows, reloaded state, get_broadcast/get_updated_rtconfig), compared inside Coq, and an "
        "independent Python reference of the property is the oracle."),
    "level_note": (
        "Hand model; theorems assume dict keys unique (wf) and settings following a fixed section/setting schema (conf) - "
        "what BroadcastConfigValidator enforces; the validator itself, sqlite and statement batching are trusted/validated "
        "by correspondence only; integer cycling; leaves-only notion of 'identical'; keys with '[' or ']' are outside the "
        "model (oracle only, known finding); reports returned by put/clear are not compared."),
    "technique": "Coq proof (tree induction, history invariant, refutation by vm_compute witness) + in-Coq differential "
                 "correspondence + reference-semantics oracle",
    "design_ref": "5/C22",
}
