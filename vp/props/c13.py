"""C13 — prerequisite satisfaction equals the trigger expression's truth
(cylc/flow/prerequisite.py, task_trigger.py Dependency, config.generate_triggers, listify.py).

Two streams share one generator and one Gallina case type (Model/Prereq.v):
  * direct : real GraphNodeParser + listify + TaskTrigger + Dependency + Prerequisite objects,
             the driver chooses the order of Dependency.task_triggers (= key insertion order);
  * config : a generated flow.cylc through the real GraphParser + WorkflowConfig.generate_triggers
             + TaskProxy; the insertion order is whatever the set iteration gives under the
             shard's PYTHONHASHSEED and is recorded and passed to the model.
"""
import hashlib
import itertools
import json

from vp.core import Stream
from vp import coqfmt as q

TRUSTED = [
    "hand model Model/Prereq.v of Prerequisite (set_conditional_expr at string level: re.sub with \\b modelled "
    "explicitly over ASCII text; re.escape = literal match; eval() of the fragment bool(...)|&()- with int/bool semantics)",
    "Python's re engine / eval enter only through the correspondence runs (no axioms)",
    "cycle point arithmetic and ordering (isodatetime / IntegerPoint) is outside the model: the generator supplies "
    "the ordinal of every offset point, the key strings come from the real code",
]
ASSUMES = [
    "ASCII text (\\w is modelled for ASCII; cases with non-ASCII names are checked by the oracle only)",
    "theorem hypotheses: key components contain none of | & ( ) / \" \\, points and names contain no space, "
    "a point starts with a word character or with '-' followed by one, an output message is non-empty and ends "
    "with a word character (every standard output, integer point, basic/extended datetime point and legal task name does)",
    "after construction __setitem__ is only used on keys already in the prerequisite (true of all callers in cylc.flow)",
]

# ---------------------------------------------------------------------------------------------
# generator
# ---------------------------------------------------------------------------------------------
NAMES = ["a", "aa", "a-a", "a1", "1a", "a_b", "b", "ab", "ba", "a+b", "a%b", "a@b", "b-1", "1", "11",
         "_a", "a_", "A", "foo", "foo-bar", "bar", "a-1", "1-a", "b_1", "succeeded1", "bool", "self",
         "_satisfied", "T", "Z", "a-succeeded", "x"]       # (a task literally named "succeeded" is left out)
STD_OUT = ["succeeded", "failed", "started", "submitted", "submit-failed", "expired"]
# custom outputs: label -> message (messages are free text in cylc)
MSG_OK = ["x", "data ready", "file_1 done", "out-1", "ready2go", "a b c", "done", "succeeded again",
          "1", "all systems go", "step-2 finished", "ok_", "failed badly", "it's done", "50% there", "a.b", "x, y"]
MSG_NONWORD_END = ["all done!", "ready.", "50%", "done?", "(ok)"]
MSG_SPECIAL = ['say "hi" now', 'back\\slash', 'a|b', 'a&b', 'f(x)', 'p/q', 'tab\there']
DT_FORMATS = [  # (time zone, custom dump format, initial point)
    ("Z", None, "20200101T0000Z"),
    ("+0530", None, "20200101T0000+0530"),
    ("-0800", None, "20200101T0000-0800"),
    ("+05:30", "CCYY-MM-DDThh:mm+hh:mm", "2020-01-01T00:00+05:30"),
    ("-08:00", "CCYY-MM-DDThh:mm+hh:mm", "2020-01-01T00:00-08:00"),
    ("Z", "CCYY-MM-DDThh:mmZ", "2020-01-01T00:00Z"),
]
STATES = [False, True, "satisfied naturally", "satisfied from database", "satisfied by skip mode", "force satisfied"]
STATE_COQ = {False: "Unsat", "satisfied naturally": "SNat", "satisfied from database": "SDb",
             "satisfied by skip mode": "SSkip", "force satisfied": "SForced"}


def _tree(rng, idxs, p_or=0.5):
    """random binary expression tree over the atom indices (each used once)"""
    if len(idxs) == 1:
        t = ["a", idxs[0]]
    else:
        k = rng.randint(1, len(idxs) - 1)
        t = ["|" if rng.random() < p_or else "&", _tree(rng, idxs[:k], p_or), _tree(rng, idxs[k:], p_or)]
    if rng.random() < 0.15:
        t = ["p", t]            # redundant parentheses
    return t


def tree_atoms(t):
    if t[0] == "a":
        return [t[1]]
    if t[0] == "p":
        return tree_atoms(t[1])
    return tree_atoms(t[1]) + tree_atoms(t[2])


def tree_eval(t, sat):
    if t[0] == "a":
        return t[1] in sat
    if t[0] == "p":
        return tree_eval(t[1], sat)
    if t[0] == "|":
        return tree_eval(t[1], sat) or tree_eval(t[2], sat)
    return tree_eval(t[1], sat) and tree_eval(t[2], sat)


def _top(t):
    return t[0]


def render(t, nodes, sp=""):
    """graph text of the tree: & binds tighter than |, chains associate freely"""
    if t[0] == "a":
        return nodes[t[1]]
    if t[0] == "p":
        return "(" + sp + render(t[1], nodes, sp) + sp + ")"
    l, r = render(t[1], nodes, sp), render(t[2], nodes, sp)
    if t[0] == "&":
        if _top(t[1]) == "|":
            l = "(" + l + ")"
        if _top(t[2]) == "|":
            r = "(" + r + ")"
    return l + sp + t[0] + sp + r


def node_text(a, mode, opt=""):
    s = a["name"]
    if a.get("off") is not None:
        d = a["off"]
        if mode == "int":
            iv = ("+" if d >= 0 else "-") + "P%d" % abs(d)
        else:
            iv = ("+" if d >= 0 else "-") + ("PT%dH" % abs(d) if abs(d) % 24 else "P%dD" % (abs(d) // 24))
        s += "[" + ("^" if a.get("icp_rel") else "") + iv + "]"
    elif a.get("icp_rel"):
        s += "[^]"
    if a.get("label"):
        s += ":" + a["label"]
    return s + opt


def atom_ord(c, a):
    """ordinal of the trigger's offset point (None: no offset), as get_prerequisite sees it"""
    if a.get("off") is None and not a.get("icp_rel"):
        return None
    base = c["icp"] if a.get("icp_rel") else c["point"]
    return base + (a.get("off") or 0)


def presat(c, a):
    """expected initial satisfaction: pre-initial or before the start point"""
    o = atom_ord(c, a)
    if o is None:
        return False
    return o < c["icp"] or (o < c["start"] and c["point"] >= c["start"])


def _gen_atoms(rng, n, mode, kind):
    atoms, seen = [], set()
    names = rng.sample(NAMES, rng.randint(1, min(n, 4)))
    tries = 0
    while len(atoms) < n and tries < 200:
        tries += 1
        a = {"name": rng.choice(names)}
        r = rng.random()
        if r < 0.45:
            a["off"] = rng.choice([-1, -2, -3, -4, 1, 2, -6, 11]) if mode == "int" else rng.choice([-6, -12, -24, -48, 6, 24, -18])
        elif r < 0.52:
            a["icp_rel"] = True
            if rng.random() < 0.5:
                a["off"] = rng.choice([1, 2]) if mode == "int" else rng.choice([6, 24])
        r = rng.random()
        if r < 0.35:
            a["label"] = rng.choice(["succeeded", "failed", "started", "submitted", "submit-failed", "expired",
                                     "succeed", "fail", "start", "submit", "submit-fail", "expire"])
        elif r < 0.6:
            a["label"] = rng.choice(["x", "y", "z", "out-1", "o_2"])
        ident = (a["name"], a.get("off"), a.get("icp_rel"), a.get("label"))
        if ident in seen:
            continue
        seen.add(ident)
        atoms.append(a)
    return atoms


def _assign_messages(rng, atoms, kind):
    """custom output messages per (task, label); distinct labels of a task get distinct messages"""
    outs = {}
    for a in atoms:
        lab = a.get("label")
        if lab and lab in ("x", "y", "z", "out-1", "o_2"):
            d = outs.setdefault(a["name"], {})
            if lab not in d:
                pool = MSG_OK
                if kind == "msgend" and rng.random() < 0.6:
                    pool = MSG_NONWORD_END
                elif kind == "malformed" and rng.random() < 0.6:
                    pool = MSG_SPECIAL
                elif kind == "msgprefix" and d:
                    pool = [next(iter(d.values())) + rng.choice([" ready", "-2", " now", ".v2"])]
                cand = [m for m in pool if m not in d.values()] or [m for m in MSG_OK if m not in d.values()]
                d[lab] = rng.choice(cand)
    return outs


def gen_case(rng, kind="valid", stream="direct", nmax=5):
    mode = "int" if rng.random() < 0.7 or kind == "negpoint" else "dt"
    if kind == "pluspoint":
        mode = "dt"
    n = rng.randint(1, nmax)
    if kind in ("negpoint", "msgprefix") and n < 2:
        n = 2
    c = {"kind": kind, "mode": mode}
    if mode == "int":
        c["icp"] = rng.choice([1, 1, 1, 2, 3, 0, 10, 2020])
        c["point"] = c["icp"] + rng.choice([0, 0, 0, 1, 2, 3, 5])
        c["start"] = c["icp"] if rng.random() < 0.7 else rng.randint(c["icp"], c["point"] + 1)
    else:
        # (formats with ':' are rejected by the config layer: points are used in file paths)
        c["fmt"] = rng.randrange(len(DT_FORMATS) if stream == "direct" else 3)
        c["icp"] = 0                                # ordinals in hours from the initial point
        c["point"] = rng.choice([0, 0, 24, 48, 72])
        c["start"] = 0 if rng.random() < 0.7 else rng.choice([0, 24, 48])
        if c["start"] > c["point"] + 24:
            c["start"] = 0
        if kind == "pluspoint":
            c["expanded"] = 2
            c["fmt"] = 0
    atoms = _gen_atoms(rng, n, mode, kind)
    if kind == "negpoint":
        # force keys  -(p)/N O  and  p/N O : point p, offsets 0 and -2p
        p = rng.choice([1, 2, 3])
        c["icp"], c["point"], c["start"] = rng.choice([1, p]), p, rng.choice([1, p])
        c["start"] = min(c["start"], c["point"])
        c["icp"] = min(c["icp"], c["start"])
        nm = atoms[0]["name"]
        lab = atoms[0].get("label")
        atoms[0] = {"name": nm, "off": -2 * p}
        atoms[1] = {"name": nm}
        if lab:
            atoms[0]["label"] = atoms[1]["label"] = lab
        atoms = [a for i, a in enumerate(atoms) if i < 2 or (a["name"], a.get("off"), a.get("label")) not in
                 {(b["name"], b.get("off"), b.get("label")) for b in atoms[:2]}]
    if kind == "msgprefix":
        nm = atoms[0]["name"]
        off = atoms[0].get("off")
        atoms[0] = {"name": nm, "label": "x"}
        atoms[1] = {"name": nm, "label": "y"}
        if off is not None:
            atoms[0]["off"] = atoms[1]["off"] = off
        atoms = [a for i, a in enumerate(atoms) if i < 2 or a.get("label") not in ("x", "y") or a["name"] != nm]
    if kind in ("msgend", "malformed") and not any(a.get("label") in ("x", "y", "z", "out-1", "o_2") for a in atoms):
        atoms[0]["label"] = "x"
    c["atoms"] = atoms
    c["outputs"] = _assign_messages(rng, atoms, kind)
    n = len(atoms)
    idxs = list(range(n))
    rng.shuffle(idxs)
    c["tree"] = _tree(rng, idxs, p_or=rng.choice([0.2, 0.5, 0.5, 0.8, 1.0]))
    if kind in ("negpoint", "msgprefix", "pluspoint", "msgend") and "|" not in json.dumps(c["tree"]):
        c["tree"] = ["|", c["tree"], ["a", idxs[0]]] if n == 1 else _tree(rng, idxs, p_or=1.0)
    c["sp"] = rng.choice(["", "", " "])
    order = list(range(n))
    rng.shuffle(order)
    c["order"] = order                              # direct stream: order of Dependency.task_triggers
    c["target"] = rng.choice(["c", "tgt", "a-b", "zz"])
    if c["target"] in {a["name"] for a in atoms}:
        c["target"] = "tgt_0"
    # foreign keys for satisfy_me / unset (not in the prerequisite)
    c["foreign"] = [[str(rng.choice([1, 2, -1])), rng.choice(NAMES), rng.choice(STD_OUT)] for _ in range(2)]
    nk = n + 2
    ops = []
    for _ in range(rng.randint(3, 9)):
        r = rng.random()
        if r < 0.3:
            ops.append(["query"])
        elif r < 0.6:
            ks = rng.sample(range(nk), rng.randint(0, min(3, nk)))
            ops.append(["satisfy", ks, rng.random() < 0.2, rng.random() < 0.2])
        elif r < 0.75:
            ops.append(["setitem", rng.randrange(n), rng.randrange(len(STATES))])
        elif r < 0.85:
            ops.append(["set_satisfied"])
        else:
            ops.append(["unset", rng.randrange(nk)])
    ops.append(["query"])
    c["ops"] = ops
    return c


# ---------------------------------------------------------------------------------------------
# implementation drivers (run under /venv/bin/python with PYTHONPATH=/repo)
# ---------------------------------------------------------------------------------------------
def _canon_val(v):
    if v is True or v is False:
        return {"v": ["b", bool(v)]}
    if type(v) is int:
        return {"v": ["i", int(v)]}
    return {"exc": "result-type:" + type(v).__name__}


def _outcome(fn):
    try:
        return _canon_val(fn())
    except Exception as e:  # noqa
        return {"exc": type(e).__name__}


def _init_cycling(c):
    from cylc.flow.cycling import iso8601
    from cylc.flow.cycling.loader import DefaultCycler, ISO8601_CYCLING_TYPE, INTEGER_CYCLING_TYPE
    from cylc.flow.graphnode import GraphNodeParser
    if c["mode"] == "int":
        DefaultCycler.TYPE = INTEGER_CYCLING_TYPE
    else:
        DefaultCycler.TYPE = ISO8601_CYCLING_TYPE
        tz, fmt, _ = DT_FORMATS[c["fmt"]]
        iso8601.init(time_zone=tz, custom_dump_format=fmt,
                     num_expanded_year_digits=c.get("expanded", 0))
    GraphNodeParser.get_inst().clear()


def _points(c):
    """(point, icp, start) as real point objects"""
    from cylc.flow.cycling.loader import get_point, get_point_relative
    if c["mode"] == "int":
        return tuple(get_point(str(c[k])).standardise() for k in ("point", "icp", "start"))
    ip = DT_FORMATS[c["fmt"]][2]
    if c.get("expanded"):
        ip = "+00" + ip
    icp = get_point(ip).standardise()

    def at(h):
        return get_point_relative("+PT%dH" % h, icp) if h else icp
    return at(c["point"]), icp, at(c["start"])


def _walk(exp, trig_idx):
    """flatten a nested Dependency._exp exactly as Dependency._stringify_list does"""
    from cylc.flow.task_trigger import TaskTrigger
    out = []
    for item in exp:
        if isinstance(item, TaskTrigger):
            out.append(trig_idx[id(item)])
        elif isinstance(item, list):
            out.extend(["("] + _walk(item, trig_idx) + [")"])
        else:
            out.append(item)
    return out


def _state_name(v):
    return v if v else False


def _observe(c, dep, tdef, point, triggers_by_atom, rec):
    """common part: subsets and operations on real Prerequisite objects built by
    dep.get_prerequisite; `rec` already holds keys/order."""
    import copy
    from cylc.flow.id import Tokens
    from cylc.flow.run_modes import RunMode
    n = len(c["atoms"])
    keytab = rec["keys"] + [list(k) for k in c["foreign"]]

    def tok(i):
        P, N, O = keytab[i]
        return Tokens(cycle=P, task=N, task_sel=O)

    def items(pre):
        kt = {tuple(k): i for i, k in reversed(list(enumerate(keytab)))}
        return [[kt.get(tuple(k), -1), _state_name(v)] for k, v in pre._satisfied.items()]

    def peek(pre):
        """what a query would say now, and what a cache-free evaluation says"""
        a = copy.deepcopy(pre)
        b = copy.deepcopy(pre)
        b._cached_satisfied = None
        return [_outcome(a.is_satisfied), _outcome(b.is_satisfied)]

    pre0 = dep.get_prerequisite(point, tdef)
    rec["expr"] = dep.get_expression(point)
    rec["cexpr"] = pre0.conditional_expression
    rec["init"] = items(pre0)
    rec["n_prereq_keys"] = len(pre0._satisfied)
    subs = []
    fresh = rec.pop("_fresh", None) or (lambda: dep.get_prerequisite(point, tdef))
    for mask in range(1 << n):
        S = [i for i in range(n) if mask >> i & 1]
        pre = fresh()
        pre.satisfy_me([tok(i) for i in S])
        truth = [i for i, (k, v) in enumerate(items(pre)) if v]
        subs.append({"S": S, "res": _outcome(pre.is_satisfied), "sat": items(pre)})
    rec["subsets"] = subs
    pre = dep.get_prerequisite(point, tdef)
    obs = []
    for op in c["ops"]:
        o = {}
        try:
            if op[0] == "query":
                o["res"] = _outcome(pre.is_satisfied)
            elif op[0] == "satisfy":
                pre.satisfy_me([tok(i) for i in op[1]], mode=RunMode.SKIP if op[2] else None, forced=op[3])
            elif op[0] == "setitem":
                pre[tuple(keytab[op[1]])] = STATES[op[2]]
            elif op[0] == "set_satisfied":
                try:
                    pre.set_satisfied()
                except Exception as e:  # noqa
                    o["res"] = {"exc": type(e).__name__}
            elif op[0] == "unset":
                P, N, _ = keytab[op[1]]
                o["changed"] = bool(pre.unset_naturally_satisfied(P + "/" + N))
        except Exception as e:  # noqa
            o["op_exc"] = type(e).__name__
        o["sat"] = items(pre)
        ch = pre._cached_satisfied
        o["cached"] = None if ch is None else _canon_val(ch)
        o["peek"] = peek(pre)
        obs.append(o)
    rec["obs"] = obs
    return rec


def run_direct(c):
    from types import SimpleNamespace
    from cylc.flow.graphnode import GraphNodeParser
    from cylc.flow.listify import listify
    from cylc.flow.task_trigger import TaskTrigger, Dependency
    from cylc.flow.task_outputs import TASK_OUTPUT_SUCCEEDED
    _init_cycling(c)
    point, icp, start = _points(c)
    parser = GraphNodeParser.get_inst()
    nodes = [node_text(a, c["mode"]) for a in c["atoms"]]
    lexpr = render(c["tree"], nodes, c["sp"])
    # --- the body of WorkflowConfig.generate_triggers, with the real helpers ---
    expr_list = listify(lexpr)
    triggers = {}
    for a, left in zip(c["atoms"], nodes):
        (name, offset, output, from_icp, irregular, absolute) = parser.parse(left)
        outs = c["outputs"].get(name)
        if outs and output in outs:
            qualifier = outs[output]
        elif output:
            qualifier = output
        else:
            qualifier = TASK_OUTPUT_SUCCEEDED
        triggers[left] = TaskTrigger(name, offset, qualifier, irregular, absolute, from_icp, icp)
    stack = [expr_list]
    while stack:
        item_list = stack.pop()
        for i, item in enumerate(item_list):
            if isinstance(item, list):
                stack.append(item)
            elif item in triggers:
                item_list[i] = triggers[item]
    trigs = [triggers[nodes[i]] for i in c["order"]]
    dep = Dependency(expr_list, trigs, False)
    tdef = SimpleNamespace(initial_point=icp, start_point=start, max_future_prereq_offset=None)
    by_atom = [triggers[nd] for nd in nodes]
    rec = {"keys": [[str(t.get_point(point)), t.task_name, t.output] for t in by_atom],
           "order": list(c["order"]), "lexpr": lexpr}
    rec["toks"] = _walk(dep._exp, {id(t): i for i, t in enumerate(by_atom)})
    return _observe(c, dep, tdef, point, by_atom, rec)


def flow_text(c):
    # every output is marked optional ("?") so that any mix of outputs is a legal graph
    nodes = [node_text(a, c["mode"], "?") for a in c["atoms"]]
    lexpr = render(c["tree"], nodes, c["sp"])
    L = []
    if c["mode"] == "dt":
        tz, fmt, ip = DT_FORMATS[c["fmt"]]
        L.append("[scheduler]")
        if tz == "Z":
            L.append("    UTC mode = True")
        else:
            L.append("    cycle point time zone = %s" % tz)
        if fmt and not c.get("expanded"):
            L.append("    cycle point format = %s" % fmt)
        if c.get("expanded"):
            L.append("    cycle point num expanded year digits = %d" % c["expanded"])
            ip = "+00" + ip
    L.append("[scheduling]")
    if c["mode"] == "int":
        L.append("    cycling mode = integer")
        L.append("    initial cycle point = %d" % c["icp"])
        rec = "P1"
    else:
        L.append("    initial cycle point = %s" % ip)
        rec = "PT1H"
    L.append("    [[graph]]")
    L.append('        %s = """%s => %s' % (rec, lexpr, c["target"]))
    for nm in sorted({a["name"] for a in c["atoms"]}):
        L.append("            %s?" % nm)          # every upstream task cycles on the sequence itself
    L.append('        """')
    L.append("[runtime]")
    for nm in sorted({a["name"] for a in c["atoms"]} | {c["target"]}):
        L.append("    [[%s]]" % nm)
        outs = c["outputs"].get(nm)
        if outs:
            L.append("        [[[outputs]]]")
            for lab, m in sorted(outs.items()):
                qt = "'" if '"' in m else '"'
                L.append("            %s = %s%s%s" % (lab, qt, m, qt))
    return "\n".join(L) + "\n", lexpr


def run_config(c, workdir):
    import os
    from cylc.flow.config import WorkflowConfig
    from cylc.flow.scheduler_cli import RunOptions
    from cylc.flow.graphnode import GraphNodeParser
    from cylc.flow.task_proxy import TaskProxy
    from cylc.flow.id import Tokens
    from cylc.flow.cycling.loader import get_point_relative
    text, lexpr = flow_text(c)
    path = os.path.join(workdir, "flow.cylc")
    with open(path, "w") as fh:
        fh.write(text)
    opts = RunOptions()
    if c["mode"] == "int" and c["start"] != c["icp"]:
        opts.startcp = str(c["start"])            # warm start the way the CLI does it
    GraphNodeParser.get_inst().clear()           # process-global cache; one workflow per process in real life
    cfg = WorkflowConfig("w", path, opts)
    icp = cfg.initial_point
    if c["mode"] == "int":
        from cylc.flow.cycling.loader import get_point
        point = get_point(str(c["point"])).standardise()
        start = get_point(str(c["start"])).standardise()
    else:
        point = get_point_relative("+PT%dH" % c["point"], icp) if c["point"] else icp
        start = get_point_relative("+PT%dH" % c["start"], icp) if c["start"] else icp
    tdef = cfg.taskdefs[c["target"]]
    if c["mode"] != "int":
        tdef.start_point = start    # datetime warm start: set the TaskDef attribute directly
    deps = [d for ds in tdef.dependencies.values() for d in ds]
    parser = GraphNodeParser.get_inst()
    all_trigs = {id(t): t for d in deps for t in d.task_triggers}
    by_atom = []
    for a in c["atoms"]:
        (name, offset, output, from_icp, irregular, absolute) = parser.parse(node_text(a, c["mode"]))
        outs = c["outputs"].get(name)
        qual = outs[output] if outs and output in outs else (output or "succeeded")
        m = [t for t in all_trigs.values()
             if (t.task_name, t.cycle_point_offset, t.output, t.offset_is_from_icp) == (name, offset, qual, from_icp)]
        if len(m) != 1:
            return {"exc": "harness: atom not matched %s" % node_text(a, c["mode"])}
        by_atom.append(m[0])
    pos = {id(t): i for i, t in enumerate(by_atom)}
    keys = [[str(t.get_point(point)), t.task_name, t.output] for t in by_atom]

    def new_task():
        return TaskProxy(Tokens("~u/w"), tdef, point)

    if len(deps) != 1:
        # a pure conjunction is split by the graph parser into one dependency per operand:
        # the task level answer is prerequisites_all_satisfied()
        n = len(c["atoms"])
        kt = {tuple(k): i for i, k in enumerate(keys)}

        def items(itask):
            return [[kt.get(tuple(k), -1), v if v else False]
                    for p in itask.state.prerequisites for k, v in p._satisfied.items()]
        it0 = new_task()
        rec = {"multi": len(deps), "keys": keys, "lexpr": lexpr, "init": items(it0),
               "n_prereq_keys": len({tuple(k) for p in it0.state.prerequisites for k in p._satisfied}),
               "expr": "&".join(d.get_expression(point) for d in deps)}
        subs = []
        for mask in range(1 << n):
            S = [i for i in range(n) if mask >> i & 1]
            it = new_task()
            it.satisfy_me([Tokens(cycle=keys[i][0], task=keys[i][1], task_sel=keys[i][2]) for i in S])
            subs.append({"S": S, "res": _outcome(it.state.prerequisites_all_satisfied), "sat": items(it)})
        rec["subsets"] = subs
        return rec
    dep = deps[0]
    rec = {"keys": keys, "order": [pos[id(t)] for t in dep.task_triggers], "lexpr": lexpr}
    rec["toks"] = _walk(dep._exp, pos)

    def fresh():
        ps = new_task().state.prerequisites
        if len(ps) != 1:
            raise RuntimeError("harness: %d prerequisites" % len(ps))
        return ps[0]
    rec["_fresh"] = fresh
    return _observe(c, dep, tdef, point, by_atom, rec)


def graph_mangle_class(c):
    """input class of the graph parser's implicit ':succeeded' rewrite hitting another node:
    the name X of an unqualified, offset-free node also occurs \\b-delimited (and not followed
    by '[' or ':') inside another node of the expression - in its name (X-..., X+...) or in its
    qualifier (a:X, a:out-X)"""
    import re
    texts = [node_text(a, c["mode"]) for a in c["atoms"]]
    alias = {"expire", "submit", "submit-fail", "start", "succeed", "fail", "finish"}
    for a in c["atoms"]:
        if a.get("label") in alias:
            for b in c["atoms"]:
                if b is not a and b["name"] == a["name"] and b.get("off") == a.get("off") \
                        and b.get("icp_rel") == a.get("icp_rel") and (b.get("label") or "").startswith(a["label"] + "-"):
                    return True         # a:submit next to a:submit-fail(ed)
    for a, t in zip(c["atoms"], texts):
        if a.get("label") or a.get("off") is not None or a.get("icp_rel"):
            continue
        pat = re.compile(r"\b%s\b(?![\[:])" % re.escape(a["name"]))
        for t2 in texts:
            if t2 != t and pat.search(t2 + "?"):
                return True
    return False


# ---------------------------------------------------------------------------------------------
# classification of known defect classes (by input class; order-aware)
# ---------------------------------------------------------------------------------------------
def _isword(ch):
    return ch.isalnum() or ch == "_"


def defect_class(keys_in_order):
    """first matching narrow input class of the regex-substitution defects, or None"""
    ks = [tuple(k) for k in keys_in_order]
    for P, N, O in ks:
        if any(ch in '"\\|&()/' for ch in P + N + O) or any(ord(ch) < 32 or ord(ch) > 126 for ch in P + N + O):
            return "special-char"
    for P, N, O in ks:
        if not P or not (_isword(P[0]) or (P[0] == "-" and len(P) > 1 and _isword(P[1]))):
            return "point-nonword-start"
    for P, N, O in ks:
        if not O or not _isword(O[-1]):
            return "output-nonword-end"
    for i, (P, N, O) in enumerate(ks):
        for (P2, N2, O2) in ks[i + 1:]:
            if (P, N, O) == (P2, N2, O2) or N != N2:
                continue
            if not (P2.endswith(P) and O2.startswith(O)):
                continue
            u, w = P2[:len(P2) - len(P)], O2[len(O):]
            # (a plain pattern is not matched right after a '-': look-behind of fix 0083ac1, which closed
            #  the former classes neg-point-collision and neg-point-and-output-prefix-collision)
            if (P[0] == "-" or not u or (not _isword(u[-1]) and u[-1] != "-")) and (not w or not _isword(w[0])):
                if not u:
                    return "output-prefix-collision"
                return "collision-other"
    return None


# ---------------------------------------------------------------------------------------------
# streams
# ---------------------------------------------------------------------------------------------
def _ascii_ok(s):
    return all(32 <= ord(ch) < 127 for ch in s)


class PrereqStream(Stream):
    coq_import = "From Cylc Require Import Model.Prereq."
    check_fn = "Prereq.check_case"
    show_fn = "Prereq.model_out"
    shard_size = 200
    n_hashseeds = 4
    special_kinds = ("negpoint", "msgprefix", "msgend", "pluspoint", "malformed")

    def _mix(self, rng, n, nmax):
        out = []
        for i in range(n):
            r = rng.random()
            kind = ("valid" if r < 0.86 else "negpoint" if r < 0.90 else "msgprefix" if r < 0.93
                    else "msgend" if r < 0.95 else "pluspoint" if r < 0.97 else "malformed")
            out.append(gen_case(rng, kind, self.name, nmax))
        return out

    def corpus(self):
        base = {"mode": "int", "icp": 1, "point": 1, "start": 1, "sp": "", "target": "c", "foreign": [["1", "zz", "succeeded"], ["2", "b", "failed"]],
                "ops": [["query"], ["satisfy", [1], False, False], ["query"], ["unset", 1], ["query"], ["set_satisfied"], ["query"]]}
        neg = dict(base, kind="negpoint", atoms=[{"name": "b", "off": -2}, {"name": "b"}], outputs={},
                   tree=["|", ["a", 0], ["a", 1]])
        # witness of the fixed finding c13:neg-point-collision (fix 0083ac1): regression cases, both orders
        out = [dict(neg, order=[1, 0]), dict(neg, order=[0, 1])]
        out.append(dict(base, kind="negpoint", point=3, icp=3, start=3, atoms=[{"name": "ab", "off": -6, "label": "y"}, {"name": "ab", "label": "fail"}],
                        outputs={"ab": {"y": "failed badly"}}, tree=["|", ["a", 1], ["a", 0]], order=[1, 0]))
        pre = dict(base, kind="msgprefix", atoms=[{"name": "a", "label": "x"}, {"name": "a", "label": "y"}],
                   outputs={"a": {"x": "data", "y": "data ready"}}, tree=["|", ["a", 0], ["a", 1]])
        out += [dict(pre, order=[0, 1]), dict(pre, order=[1, 0])]
        out.append(dict(base, kind="msgend", atoms=[{"name": "a", "label": "x"}, {"name": "b"}],
                        outputs={"a": {"x": "all done!"}}, tree=["|", ["a", 0], ["a", 1]], order=[0, 1]))
        out.append(dict(base, kind="malformed", atoms=[{"name": "a", "label": "x"}, {"name": "b"}],
                        outputs={"a": {"x": 'say "hi" now'}}, tree=["|", ["a", 0], ["a", 1]], order=[0, 1]))
        out.append({"kind": "pluspoint", "mode": "dt", "fmt": 0, "expanded": 2, "icp": 0, "point": 0, "start": 0, "sp": "",
                    "target": "c", "foreign": base["foreign"], "ops": [["query"]],
                    "atoms": [{"name": "a"}, {"name": "b"}], "outputs": {}, "tree": ["|", ["a", 0], ["a", 1]], "order": [0, 1]})
        # classic substring cases of GH #3644 / #6588, which must work
        out.append(dict(base, kind="valid", point=11, atoms=[{"name": "foo", "off": -10}, {"name": "foo"}, {"name": "foo-bar"}],
                        outputs={}, tree=["|", ["a", 1], ["&", ["a", 0], ["a", 2]]], order=[0, 1, 2]))
        out.append(dict(base, kind="valid", atoms=[{"name": "x", "off": -2}, {"name": "a"}], outputs={},
                        tree=["|", ["a", 0], ["a", 1]], order=[1, 0]))
        return out

    # ---- model terms ----
    def coq_case(self, c, r):
        if "exc" in r or "keys" not in r or r.get("multi"):
            return None
        keytab = r["keys"] + [list(k) for k in c["foreign"]]
        texts = [s for k in keytab for s in k] + [r["expr"], r["cexpr"] or ""]
        if not all(_ascii_ok(s) for s in texts) or any("\\" in s for k in keytab for s in k):
            return None
        if any(not (isinstance(t, int) or (isinstance(t, str) and len(t) == 1)) for t in r["toks"]):
            return None
        if any(i < 0 for i, _ in r["init"]):
            return None

        if len({tuple(k) for k in r["keys"]}) != len(r["keys"]) or len(r["order"]) != len(r["keys"]):
            return None                     # coinciding keys: outside the property's domain
        if [s["S"] for s in r["subsets"]] != [[i for i in range(len(r["keys"])) if m >> i & 1]
                                              for m in range(1 << len(r["keys"]))]:
            return None

        def cs(s):
            return "(codes %s)" % q.cstr(s)

        def ckey(k):
            return "(%s, %s, %s)" % tuple(cs(s) for s in k)

        def cval(v):
            return ("vT" if v[1] else "vF") if v[0] == "b" else "(VInt %s)" % q.cz(v[1])

        def cout(o):
            if "exc" in o:
                return "OExc"
            v = o["v"]
            return ("oT" if v[1] else "oF") if v[0] == "b" else "(OVal (VInt %s))" % q.cz(v[1])

        def csat(items):
            return q.clist(q.cpair(q.cnat(i), STATE_COQ[s]) for i, s in items)

        trigs = q.clist(q.cpair(q.cnat(i), q.copt(atom_ord(c, c["atoms"][i]), q.cz)) for i in r["order"])
        toks = q.clist("(inl %s)" % q.cnat(t) if isinstance(t, int) else "(inr %s)" % q.cz(ord(t)) for t in r["toks"])
        subs = q.clist(cout(s["res"]) for s in r["subsets"])
        init_order = [i for i, _ in r["init"]]
        ops = []
        for op, o in zip(c["ops"], r["obs"]):
            if "op_exc" in o or [i for i, _ in o["sat"]] != init_order:
                break
            if op[0] == "query":
                t = "OpQuery"
            elif op[0] == "satisfy":
                t = "(OpSatisfy %s %s %s)" % (q.clist(q.cnat(i) for i in op[1]), q.cbool(op[2]), q.cbool(op[3]))
            elif op[0] == "setitem":
                v = STATES[op[2]]
                t = "(OpSetitem %s %s)" % (q.cnat(op[1]), "SVTrue" if v is True else "(SVState %s)" % STATE_COQ[v])
            elif op[0] == "set_satisfied":
                t = "OpSetSatisfied"
            else:
                P, N, _ = keytab[op[1]]
                t = "(OpUnset %s)" % cs(P + "/" + N)
            ob = "(Ob %s %s %s %s)" % (q.copt(o.get("res"), cout), q.copt(o.get("changed"), q.cbool),
                                       q.clist(STATE_COQ[s] for _, s in o["sat"]),
                                       q.copt(o["cached"], lambda x: cval(x["v"])))
            ops.append(q.cpair(t, ob))
        return "(Case %s)" % " ".join([
            q.clist(ckey(k) for k in keytab), trigs, toks,
            q.cz(c["point"]), q.cz(c["icp"]), q.cz(c["start"]),
            cs(r["expr"]), q.copt(r["cexpr"], cs), csat(r["init"]), subs, q.clist(ops)])

    # ---- property oracle (implementation only) ----
    def oracle(self, c, r):
        if "exc" in r:
            return "construction failed: " + r["exc"]
        n = len(c["atoms"])
        keys = [tuple(k) for k in r["keys"]]
        if len(set(keys)) != n:
            return None                     # atoms with coinciding keys: outside the property's domain
        if r["n_prereq_keys"] != n:
            return "prerequisite has %d keys for %d distinct atoms" % (r["n_prereq_keys"], n)
        pre = {i for i, a in enumerate(c["atoms"]) if presat(c, a)}
        init = {i for i, s in r["init"] if s}
        if init != pre:
            return "initially satisfied atoms %s, expected (pre-initial / before start) %s" % (sorted(init), sorted(pre))
        for s in r["subsets"]:
            want = tree_eval(c["tree"], set(s["S"]) | pre)
            got = s["res"]
            if "exc" in got:
                return "subset %s: is_satisfied raised %s, expression is %s" % (s["S"], got["exc"], want)
            if bool(got["v"][1]) != want:
                return "subset %s: is_satisfied=%r, expression is %s" % (s["S"], got["v"][1], want)
            if {i for i, st in s["sat"] if st} != set(s["S"]) | pre:
                return "subset %s: satisfy_me left states %s" % (s["S"], s["sat"])
        # reference bookkeeping of the documented semantics: which atoms are satisfied, which by force
        keytab = keys + [tuple(k) for k in c["foreign"]]
        exp_sat, exp_forced = set(pre), set()
        for j, (op, o) in enumerate(zip(c["ops"], r.get("obs", []))):
            if "op_exc" in o:
                return "op %d %s raised %s" % (j, op[0], o["op_exc"])
            if op[0] == "satisfy":
                for i in op[1]:
                    if i >= n and keytab[i] in keys:
                        i = keys.index(keytab[i])      # a "foreign" key that happens to be one of ours
                    if i < n and i not in exp_sat:
                        exp_sat.add(i)
                        if op[3]:
                            exp_forced.add(i)
            elif op[0] == "setitem":
                v = STATES[op[2]]
                exp_sat.discard(op[1])
                exp_forced.discard(op[1])
                if v:
                    exp_sat.add(op[1])
                    if v == "force satisfied":
                        exp_forced.add(op[1])
            elif op[0] == "set_satisfied":
                exp_forced |= set(range(n)) - exp_sat
                exp_sat = set(range(n))
            elif op[0] == "unset":
                P, N, _ = keytab[op[1]]
                hit = {i for i in exp_sat - exp_forced if keys[i][:2] == (P, N)}
                exp_sat -= hit
                if o.get("changed") != bool(hit):
                    return "op %d unset returned %s, expected %s" % (j, o.get("changed"), bool(hit))
            cur = {i for i, st in o["sat"] if st}
            if cur != exp_sat:
                return "op %d %s: satisfied outputs %s, expected %s" % (j, op[0], sorted(cur), sorted(exp_sat))
            want = tree_eval(c["tree"], cur)
            now, nocache = o["peek"]
            if now != nocache:
                return "op %d %s: cached answer %s differs from re-evaluation %s" % (j, op[0], now, nocache)
            if "exc" in nocache:
                return "op %d %s: is_satisfied raised %s" % (j, op[0], nocache["exc"])
            if bool(nocache["v"][1]) != want:
                return "op %d %s: is_satisfied=%r, expression is %s over %s" % (j, op[0], nocache["v"][1], want, sorted(cur))
            if op[0] == "query" and o.get("res") != now:
                return "op %d query returned %s but peek says %s" % (j, o.get("res"), now)
            if op[0] == "set_satisfied" and len(cur) != n:
                return "op %d set_satisfied left unsatisfied outputs" % j
        return None

    def key(self, c, r):
        if "exc" in r or len(c["atoms"]) < 2 or "|" not in (r.get("expr") or ""):
            return None
        return json.dumps([r["expr"], r.get("order"), c["point"], c["icp"], c["start"]])

    def classify(self, c, r, failure):
        if self.name == "config" and graph_mangle_class(c) and \
                any(isinstance(t, str) and len(t) > 1 for t in r.get("toks", [])):
            return "c13:graph-node-mangled"
        if "keys" in r and "order" in r:
            cls = defect_class([r["keys"][i] for i in r["order"]])
            if cls and "|" in (r.get("expr") or ""):
                return "c13:" + cls
        if "exc" in r and c.get("kind") == "malformed":
            return "c13:special-char"
        return super().classify(c, r, failure)

    def shrink(self, c):
        n = len(c["atoms"])
        if len(c["ops"]) > 1:
            yield dict(c, ops=[["query"]])
        for i in range(len(c["ops"])):
            yield dict(c, ops=c["ops"][:i] + c["ops"][i + 1:])

        def drop(t, i):
            if t[0] == "a":
                return None if t[1] == i else ["a", t[1] - (t[1] > i)]
            if t[0] == "p":
                s = drop(t[1], i)
                return None if s is None else ["p", s]
            a, b = drop(t[1], i), drop(t[2], i)
            if a is None:
                return b
            if b is None:
                return a
            return [t[0], a, b]
        if n > 1:
            for i in range(n):
                t = drop(c["tree"], i)
                atoms = c["atoms"][:i] + c["atoms"][i + 1:]
                order = [x - (x > i) for x in c["order"] if x != i]
                ops = []
                for op in c["ops"]:
                    if op[0] == "satisfy":
                        ops.append(["satisfy", [k - (k > i) for k in op[1] if k != i], op[2], op[3]])
                    elif op[0] in ("setitem", "unset"):
                        if op[1] == i:
                            continue
                        ops.append([op[0], op[1] - (op[1] > i)] + op[2:])
                    else:
                        ops.append(op)
                yield dict(c, atoms=atoms, tree=t, order=order, ops=ops or [["query"]])


class DirectStream(PrereqStream):
    name = "direct"
    rule = ("random trigger expressions (1-5 atoms; AND/OR/parentheses; collision-prone task names; standard and custom "
            "outputs; cycle offsets incl. pre-initial, negative integer points, [^] offsets; basic/extended datetime "
            "points with Z/+hhmm/+hh:mm zones) built with the real GraphNodeParser, listify, TaskTrigger, Dependency; "
            "random key insertion order; all satisfaction subsets + a random operation sequence; "
            "non-trivial = >=2 atoms and a conditional ('|') expression; identity = expression text, order, points")

    def gen(self, rng, tier):
        n = 360 if tier == "quick" else 12000
        cases = self._mix(rng, n, 5 if tier == "quick" else 6)
        if tier == "thorough":
            # exhaustive small box: every tree shape/operator over 3 atoms from the
            # most collision-prone names, every insertion order
            names = ["a", "aa", "a-a", "1a"]
            for trio in itertools.permutations(names, 3):
                for ops2 in itertools.product("|&", repeat=2):
                    for shape in (0, 1):
                        t = ([ops2[0], ["a", 0], [ops2[1], ["a", 1], ["a", 2]]] if shape else
                             [ops2[0], [ops2[1], ["a", 0], ["a", 1]], ["a", 2]])
                        for order in itertools.permutations(range(3)):
                            cases.append({"kind": "box3", "mode": "int", "icp": 1, "point": 2, "start": 1, "sp": "",
                                          "atoms": [{"name": nm} if i else {"name": nm, "off": -1} for i, nm in enumerate(trio)],
                                          "outputs": {}, "tree": t, "order": list(order), "target": "tgt",
                                          "foreign": [["1", "zz", "succeeded"], ["2", "b", "failed"]],
                                          "ops": [["query"], ["set_satisfied"], ["query"]]})
        return cases

    def impl(self, cases):
        out = []
        for c in cases:
            try:
                out.append(run_direct(c))
            except Exception as e:  # noqa
                out.append({"exc": "%s: %s" % (type(e).__name__, str(e)[:120])})
        return out


class ConfigStream(PrereqStream):
    name = "config"
    needs_scratch_home = True
    n_hashseeds = 6
    rule = ("the same generator rendered to a flow.cylc and pushed through the real GraphParser + "
            "WorkflowConfig.generate_triggers + TaskProxy; key insertion order = set iteration order under the "
            "shard's PYTHONHASHSEED (recorded and given to the model); non-trivial as for the direct stream")

    def gen(self, rng, tier):
        return self._mix(rng, 120 if tier == "quick" else 3000, 4 if tier == "quick" else 5)

    def corpus(self):
        return [c for c in super().corpus()]

    def impl(self, cases):
        import os
        import tempfile
        out = []
        wd = tempfile.mkdtemp(prefix="c13cfg", dir=os.environ.get("HOME"))
        for c in cases:
            try:
                r = run_config(c, wd)
            except Exception as e:  # noqa
                r = {"exc": "%s: %s" % (type(e).__name__, str(e)[:160])}
            out.append(r)
        return out


STREAMS = [DirectStream(), ConfigStream()]

META = {
    "level_text": (
        "Coq theorems over the string-level model Model/Prereq.v, for all inputs: (1) c13_substitution_exact - over any token "
        "sequence whose atoms are separated by operators, the loop of regex substitutions (\\b semantics, the '-' special case, "
        "leftmost non-overlapping matches, keys in any given insertion order) rewrites exactly every '<point>/<task> <output>' "
        "message into its Python template, for all keys over the legal alphabets (names that are prefixes/suffixes/substrings of "
        "one another, negative integer points, time-zoned datetime points) provided no earlier key collides into a later one; "
        "(2) c13_eval_equals_expr / c13_get_prerequisite - is_satisfied of the constructed prerequisite = truth of the expression "
        "parse tree over the satisfied outputs (both the eval path and the all(values) path; lexer + precedence parser of the "
        "generated Python text proved correct on it); (3) c13_pre_initial; (4) c13_cache_transparent - after any sequence of "
        "is_satisfied/__setitem__/satisfy_me/set_satisfied/unset_naturally_satisfied the cached answer equals re-evaluation and the "
        "expression truth; (5) the collision hypothesis is characterised (different tasks never collide; integer points collide only "
        "if the points are equal (after fix 0083ac1 of finding c13:neg-point-collision, whose witness is kept as a regression case); "
        "collision-free key sets are order independent). The unrestricted statement is still refuted in Coq by the witness of "
        "finding c13:output-prefix-collision. The model is tied to the code by two differential streams compared inside Coq (exact "
        "substituted text, initial states, every satisfaction subset, operation sequences with cache/state observation), and a "
        "brute-force oracle evaluates the generated expression tree directly."),
    "level_note": (
        "Model/Prereq.v is a hand model over ASCII text; re.escape is taken as literal matching and eval() is modelled for the "
        "fragment bool(...)|&()- (text outside it is 'unmodelled' and only compared as text). Theorem hypotheses exclude key texts "
        "with | & ( ) / double quote, backslash, points starting with '+', outputs ending in a non-word character and order-dependent collisions: "
        "these classes are probed on the real code and are open known findings (5 signatures, one of them in graph_parser.py). "
        "Expression chains are grouped to the right in the model (Python groups left; | and & are associative on int/bool). "
        "Point arithmetic/ordering is not modelled (ordinals supplied by the generator). Trusted: Coq kernel+VM, the harness."),
    "technique": "Coq proof (string combinatorics + mutual induction on expression trees + state invariant) + in-Coq differential correspondence (direct and WorkflowConfig level, hash seed varied) + brute-force oracle",
    "design_ref": "5/C13",
}
