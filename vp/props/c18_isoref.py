"""Independent reference for ISO 8601 cycle points (used by C18 and C17).

Own calendar arithmetic (proleptic Gregorian, 360day, 365day, 366day), own
formatter/decoder for cylc's standard cycle point formats and for duration
strings.  Nothing here imports cylc or metomi.isodatetime: it is the
yardstick the real classes are compared with.
"""
import re

CALENDARS = ("gregorian", "360day", "365day", "366day")
_CUM365 = [0, 31, 59, 90, 120, 151, 181, 212, 243, 273, 304, 334, 365]
_CUM366 = [0, 31, 60, 91, 121, 152, 182, 213, 244, 274, 305, 335, 366]


def is_leap(cal, y):
    if cal == "gregorian":
        return y % 4 == 0 and (y % 100 != 0 or y % 400 == 0)
    return cal == "366day"


def days_in_month(cal, y, m):
    if cal == "360day":
        return 30
    cum = _CUM366 if is_leap(cal, y) else _CUM365
    return cum[m] - cum[m - 1]


def days_from_civil(cal, y, m, d):
    """Day number of y-m-d (day 0 = 0000-01-01 of that calendar)."""
    if cal == "360day":
        return y * 360 + (m - 1) * 30 + (d - 1)
    if cal == "365day":
        return y * 365 + _CUM365[m - 1] + (d - 1)
    if cal == "366day":
        return y * 366 + _CUM366[m - 1] + (d - 1)
    # proleptic Gregorian, astronomical year numbering (year 0 is leap):
    # 365 days per year plus the leap years before y
    yy = y - 1
    n = y * 365 + (yy // 4 - yy // 100 + yy // 400) + 1
    cum = _CUM366 if is_leap(cal, y) else _CUM365
    return n + cum[m - 1] + (d - 1)


def civil_from_days(cal, n):
    if cal == "360day":
        y, r = divmod(n, 360)
        m, d = divmod(r, 30)
        return y, m + 1, d + 1
    if cal in ("365day", "366day"):
        ylen = 365 if cal == "365day" else 366
        cum = _CUM365 if cal == "365day" else _CUM366
        y, r = divmod(n, ylen)
        m = max(i for i in range(12) if cum[i] <= r)
        return y, m + 1, r - cum[m] + 1
    # Gregorian: 400-year cycles of 146097 days, then estimate and correct
    q, r = divmod(n, 146097)
    y = q * 400 + r // 366
    while days_from_civil(cal, y + 1, 1, 1) <= n:
        y += 1
    r = n - days_from_civil(cal, y, 1, 1)
    cum = _CUM366 if is_leap(cal, y) else _CUM365
    m = max(i for i in range(12) if cum[i] <= r)
    return y, m + 1, r - cum[m] + 1


def tz_seconds(tz):
    """'Z', '+0530', '-08', '+01' -> offset in seconds."""
    if tz == "Z":
        return 0
    m = re.fullmatch(r"([+-])(\d\d)(?::?(\d\d))?", tz)
    if not m:
        raise ValueError(tz)
    s = int(m.group(2)) * 3600 + int(m.group(3) or 0) * 60
    return -s if m.group(1) == "-" else s


def instant(cal, y, mo, d, h=0, mi=0, s=0, tz="Z"):
    return days_from_civil(cal, y, mo, d) * 86400 + h * 3600 + mi * 60 + s - tz_seconds(tz)


def fields(cal, z, tz):
    """instant -> (y, mo, d, h, mi, s) in time zone tz."""
    loc = z + tz_seconds(tz)
    n, r = divmod(loc, 86400)
    y, mo, d = civil_from_days(cal, n)
    return y, mo, d, r // 3600, (r % 3600) // 60, r % 60


def fmt_year(y, xdigits):
    if xdigits:
        return ("-" if y < 0 else "+") + str(abs(y)).zfill(4 + xdigits)
    if not 0 <= y <= 9999:
        raise ValueError(y)
    return str(y).zfill(4)


def fmt_point(cfg, z):
    """Dump instant z in the workflow's standard format
    (CCYYMMDDThhmm[ss]<tz>, +X prefix when expanded year digits are on)."""
    y, mo, d, h, mi, s = fields(cfg["cal"], z, cfg["tz"])
    out = f"{fmt_year(y, cfg['xdigits'])}{mo:02d}{d:02d}T{h:02d}{mi:02d}"
    if cfg.get("secs"):
        out += f"{s:02d}"
    return out + ("" if cfg.get("nodesig") else cfg["tz"])


def resolution(cfg):
    return 1 if cfg.get("secs") else 60


_STD = re.compile(r"([+-]\d{5,}|\d{4})(\d\d)(\d\d)T(\d\d)(\d\d)(\d\d)?(Z|[+-]\d\d(?:\d\d)?)?")


def decode_point(cfg, s):
    """Standard-format string -> instant (None if not of that shape)."""
    m = _STD.fullmatch(s)
    if not m:
        return None
    ys = m.group(1)
    if cfg["xdigits"]:
        if len(ys) != 5 + cfg["xdigits"]:
            return None
    elif len(ys) != 4:
        return None
    y, mo, d, h, mi = int(ys), int(m.group(2)), int(m.group(3)), int(m.group(4)), int(m.group(5))
    sec = int(m.group(6) or 0)
    if not (1 <= mo <= 12 and 1 <= d <= days_in_month(cfg["cal"], y, mo) and h < 24 and mi < 60 and sec < 60):
        return None
    # no designator: the assumed (cycle point) time zone
    return instant(cfg["cal"], y, mo, d, h, mi, sec, m.group(7) or cfg["tz"])


_DUR = re.compile(r"([+-])?P(?:(\d+)W)?(?:(\d+)D)?(?:T(?:(\d+)H)?(?:(\d+)M)?(?:(\d+)S)?)?")


def decode_duration(s):
    """Fixed-length duration string -> seconds (None for anything else,
    including nominal durations with years/months)."""
    m = _DUR.fullmatch(s)
    if not m or s.lstrip("+-") in ("P", "PT") or s.endswith("T"):
        return None
    w, d, h, mi, sec = (int(x or 0) for x in m.groups()[1:])
    tot = w * 604800 + d * 86400 + h * 3600 + mi * 60 + sec
    return -tot if m.group(1) == "-" else tot


def render_point(cfg, y, mo, d, h, mi, s, tz, style):
    """A (possibly non-standard) way of writing the point: styles
    basic / extended, with or without seconds / minutes / time / zone."""
    ys = fmt_year(y, cfg["xdigits"])
    ext = style.get("ext", False)
    date = f"{ys}-{mo:02d}-{d:02d}" if ext else f"{ys}{mo:02d}{d:02d}"
    prec = style.get("prec", "m")
    if prec == "d":
        return date                       # date only: T0000 in the assumed zone
    t = f"{h:02d}"
    if prec in ("m", "s"):
        t += (":" if ext else "") + f"{mi:02d}"
    if prec == "s":
        t += (":" if ext else "") + f"{s:02d}"
    z = "" if tz is None else tz
    if ext and z not in ("", "Z") and len(z) == 5:
        z = z[:3] + ":" + z[3:]
    return f"{date}T{t}{z}"
