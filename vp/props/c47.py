"""C47 — platform and host selection avoids unreachable hosts
(cylc/flow/platforms.py: platform_from_name, get_platform_from_group,
get_host_from_platform; get_platform as an entry point)."""
import os
import re

from vp.core import Stream
from vp import coqfmt as q

TRUSTED = [
    "hand model Model/Platform.v of platform_from_name / get_platform_from_group / get_host_from_platform",
    "regex behaviour enters the model as tables computed by the harness with Python's re.fullmatch/re.match/re.escape "
    "(top-level commas of a platform pattern split by the harness, independently of the re.sub in platforms.py)",
    "the global config is a generated global.cylc loaded with ParsecConfig(SPEC) and patched into "
    "cylc.flow.platforms.glbl_cfg (as tests/conftest.py mock_glbl_cfg does); the model's platform/group lists are "
    "read back from the loaded config in dict order",
    "random.choice is only assumed to return an element of its argument; the comparison checks that the observed "
    "answer is one of the answers the model allows",
]
ASSUMES = [
    "patterns are valid regular expressions whose comma-separated alternatives are well formed on their own",
    "a platform-group member that is itself the name of a platform group is outside the modelled fragment "
    "(checked by the oracle only)",
    "'definition order' of platforms is the order of the platforms dict handed to platforms.py "
    "(parsec puts the spec'd 'localhost' entry first)",
]

PPATS = [
    "hpc1", "hpc2", r"hpc\d", "hpc[0-9]+", "hpc.", "vm.*", "vm7", "desk[0-9]{1,2}", "desk1", "alpha", "alphax",
    "(alpha|beta)x", "alpha|beta", "a, b", "a,b", r"hpc\d, vm.*", "desk[0-9]{1,2}, alpha", "b ,c", "c", "a",
    "x{2,3}", "x{2,}, y", "pool1", "grp1", "s.*", "localhost", "localhost, other", "other, localhost", "other",
    "skip", r"\w+9",
]
CLASH_PPATS = ["local.*", "localhost|x", "l.*"]
GPATS = ["grp", r"grp\d", "g.*", "pool", "pool.*", "hpc.*", "mix"]
QUERIES = ["hpc1", "hpc2", "hpc12", "hpc", "vm", "vm7", "vm79", "desk1", "desk12", "desk123", "alpha", "alphax",
           "betax", "beta", "a", "b", "c", "a, b", "xx", "xxx", "xxxx", "y", "pool1", "grp1", "localhost", "other",
           "simulation", "skip", "nope", "grp", "grp2", "gx", "pool", "mix", "hpc9"]
HOSTS = ["h1", "h2", "h3", "h4", "h5", "h6"]
METHODS = {"definition order": "DefOrder", "random": "Random"}


# ------------------------------------------------------------------ harness-side regex oracle
def split_commas(pat):
    """top-level comma list of a platform pattern; a comma inside {m,n} is not a separator"""
    out, cur, i = [], "", 0
    while i < len(pat):
        ch = pat[i]
        if ch == "{":
            j = pat.find("}", i)
            if j > 0 and re.fullmatch(r"[\s\d,]*", pat[i + 1:j]):
                cur += pat[i:j + 1]
                i = j + 1
                continue
        if ch == ",":
            out.append(cur.strip())
            cur = ""
        else:
            cur += ch
        i += 1
    out.append(cur.strip())
    return out


def pmatch(pat, name):
    return any(re.fullmatch(alt, name) is not None for alt in split_commas(pat))


def gmatch(pat, name):
    return re.fullmatch(pat, name) is not None


def clash(pat):
    return re.escape(pat) != pat and re.match(pat, "localhost") is not None


JOBLESS = ("simulation", "skip")


# ------------------------------------------------------------------ config text
def cfg_text(c):
    out = ["[platforms]"]
    for p in c["platforms"]:
        out.append(f"    [[{p['pat']}]]")
        if p["hosts"]:
            out.append("        hosts = " + ", ".join(p["hosts"]))
        if p.get("method"):
            out += ["        [[[selection]]]", f"            method = {p['method']}"]
    if c["groups"]:
        out.append("[platform groups]")
        for g in c["groups"]:
            out.append(f"    [[{g['pat']}]]")
            out.append("        platforms = " + ", ".join(g["members"]))
            if g.get("method"):
                out += ["        [[[selection]]]", f"            method = {g['method']}"]
    return "\n".join(out) + "\n"


def gen_config(rng):
    pats = rng.sample(PPATS, rng.randint(1, 6))
    if rng.random() < 0.06:
        pats.insert(rng.randrange(len(pats) + 1), rng.choice(CLASH_PPATS))
    plats = []
    for p in pats:
        r = rng.random()
        hosts = [] if r < 0.3 else rng.sample(HOSTS, rng.randint(1, 3))
        plats.append({"pat": p, "hosts": hosts, "method": rng.choice([None, "definition order", "random"])})
    groups = []
    for gp in rng.sample(GPATS, rng.choice([0, 1, 1, 2, 2])):
        pool = [x for x in QUERIES if any(pmatch(p["pat"], x) for p in plats)] or ["nope"]
        mem = [rng.choice(pool) if rng.random() < 0.9 else rng.choice(QUERIES) for _ in range(rng.randint(1, 4))]
        mem = list(dict.fromkeys(mem))
        # a member that is itself a group name (nested group) is outside the modelled fragment: keep it rare
        mem = [m for m in mem if rng.random() < 0.15 or not any(gmatch(g2, m) for g2 in GPATS)]
        if "a, b" in mem:
            mem.remove("a, b")
        groups.append({"pat": gp, "members": mem or ["nope"], "method": rng.choice([None, "definition order", "random"])})
    return {"platforms": plats, "groups": groups}


def all_hosts(c):
    hs = []
    for p in c["platforms"]:
        hs += p["hosts"]
    hs += [x for x in QUERIES if x not in ("a, b",)][:0]
    return list(dict.fromkeys(hs))


def gen_bad(rng, c, query):
    r = rng.random()
    if r < 0.12:
        return None
    if r < 0.2:
        return []
    pool = all_hosts(c) + ["localhost"] + [m for g in c["groups"] for m in g["members"]] + [query]
    pool = list(dict.fromkeys(pool))
    if rng.random() < 0.5:
        # knock out whole platforms
        bad = []
        for p in c["platforms"]:
            if rng.random() < 0.5:
                bad += p["hosts"]
        for g in c["groups"]:
            for m in g["members"]:
                if rng.random() < 0.4:
                    bad.append(m)
        if rng.random() < 0.3:
            bad.append(query)
        return sorted(set(bad))
    return sorted(rng.sample(pool, rng.randint(1, len(pool))))


# ------------------------------------------------------------------ reference semantics (oracle)
def ref_resolve(loaded, name):
    """('ok', key, hosts, method) | ('lookup',) following the property text:
    last-defined platform whose pattern fully matches."""
    if any(clash(k) for k, _h, _m in loaded["platforms"]):
        return ("lookup",)
    hit = None
    for k, hosts, method in loaded["platforms"]:
        if pmatch(k, name):
            hit = (k, hosts, method)
    if hit is not None:
        return ("ok", name, hit[1] or [name], hit[2])
    if name in JOBLESS:
        for k, hosts, method in loaded["platforms"]:
            if k == "localhost":
                return ("ok", "localhost", hosts, method)
    return ("lookup",)


def ref_group(loaded, name):
    g = None
    for k, members, method in loaded["groups"]:
        if gmatch(k, name):
            g = (k, members, method)
    return g


def nested(loaded, c):
    g = ref_group(loaded, c["query"])
    return g is not None and any(ref_group(loaded, m) is not None for m in g[1])


class NameStream(Stream):
    name = "name"
    coq_import = "From Cylc Require Import Model.Platform."
    check_fn = "Platform.check_case"
    show_fn = "Platform.model_out"
    needs_scratch_home = True
    n_hashseeds = 4
    rule = ("generated global.cylc (1-7 platform sections with literal / regex / comma-list names, optional hosts and "
            "selection method; 0-2 platform groups) x query name x bad-host set (None, empty, random subsets, whole "
            "platforms knocked out), through platform_from_name / get_platform, then get_host_from_platform on the "
            "result; non-trivial = the query goes through a group or matches >= 2 platform patterns or some host is bad")

    def corpus(self):
        c = {"platforms": [{"pat": r"hpc\d", "hosts": ["h1", "h2"], "method": None},
                           {"pat": "hpc1", "hosts": ["h3"], "method": "definition order"},
                           {"pat": "a, b", "hosts": [], "method": None}],
             "groups": [{"pat": "grp", "members": ["hpc1", "hpc2", "a"], "method": "definition order"}]}
        out = []
        for qy, bad in [("hpc1", None), ("hpc2", ["h1"]), ("grp", ["h3"]), ("grp", ["h1", "h2", "h3"]),
                        ("grp", ["h1", "h2", "h3", "a"]), ("b", ["b"]), ("nope", None), ("simulation", [])]:
            out.append({"kind": "valid", "cfg": c, "query": qy, "bad": bad, "entry": "from_name"})
        return out

    def gen(self, rng, tier):
        cases = []
        ncfg = 45 if tier == "quick" else 1500
        for _ in range(ncfg):
            c = gen_config(rng)
            for _ in range(8):
                r = rng.random()
                if c["groups"] and r < 0.45:
                    gp = rng.choice(c["groups"])["pat"]
                    cand = [x for x in QUERIES if gmatch(gp, x)]
                    qy = rng.choice(cand) if cand else rng.choice(QUERIES)
                elif r < 0.9:
                    cand = [x for x in QUERIES if any(pmatch(p["pat"], x) for p in c["platforms"])]
                    qy = rng.choice(cand) if cand else rng.choice(QUERIES)
                else:
                    qy = rng.choice(QUERIES)
                cases.append({"kind": "valid", "cfg": c, "query": qy, "bad": gen_bad(rng, c, qy),
                              "entry": rng.choice(["from_name", "from_name", "get_platform", "get_platform_dict"])})
        return cases

    def impl(self, cases):
        from cylc.flow.parsec.config import ParsecConfig
        from cylc.flow.cfgspec.globalcfg import SPEC
        from cylc.flow.parsec.validate import cylc_config_validate
        from cylc.flow import platforms as P
        from cylc.flow.exceptions import (NoHostsError, NoPlatformsError, PlatformLookupError, CylcError)
        import random as _random
        cache = {}
        out = []

        def kind(e):
            if isinstance(e, NoPlatformsError):
                return "noplatforms"
            if isinstance(e, NoHostsError):
                return "nohosts"
            if isinstance(e, PlatformLookupError):
                return "lookup"
            if type(e) is CylcError:
                return "cylc"
            return f"other:{type(e).__name__}: {e}"[:300]

        for i, c in enumerate(cases):
            txt = cfg_text(c["cfg"])
            try:
                if txt not in cache:
                    path = os.path.join(os.environ.get("TMPDIR", "."), f"global-{len(cache)}.cylc")
                    with open(path, "w") as fh:
                        fh.write(txt)
                    g = ParsecConfig(SPEC, validator=cylc_config_validate)
                    g.loadcfg(path)
                    cache[txt] = g
                g = cache[txt]
            except Exception as e:  # noqa
                out.append({"load_exc": f"{type(e).__name__}: {e}"[:300]})
                continue
            P.glbl_cfg = lambda cached=False, _g=g: _g
            pl = g.get(["platforms"])
            gr = g.get(["platform groups"])
            res = {"loaded": {
                "platforms": [[k, list(v["hosts"] or []), v["selection"]["method"]] for k, v in pl.items()],
                "groups": [[k, list(v["platforms"] or []), v["selection"]["method"]] for k, v in gr.items()]}}
            bad = None if c["bad"] is None else set(c["bad"])
            _random.seed(i * 7919 + len(txt))
            try:
                if c["entry"] == "from_name":
                    p = P.platform_from_name(c["query"], bad_hosts=bad)
                elif c["entry"] == "get_platform":
                    p = P.get_platform(c["query"], bad_hosts=bad)
                else:
                    p = P.get_platform({"platform": c["query"]}, bad_hosts=bad)
                res["plat"] = {"name": p["name"], "hosts": list(p["hosts"]), "method": p["selection"]["method"]}
                try:
                    res["host"] = {"ok": P.get_host_from_platform(p, bad)}
                except Exception as e:  # noqa
                    res["host"] = {"exc": kind(e)}
            except Exception as e:  # noqa
                res["plat"] = {"exc": kind(e)}
            out.append(res)
        return out

    # ---- Coq printing
    def coq_case(self, c, r):
        if "load_exc" in r or str(r["plat"].get("exc", "")).startswith("other"):
            return None
        if "host" in r and str(r["host"].get("exc", "")).startswith("other"):
            return None
        L = r["loaded"]
        if nested(L, c):
            return None
        names = Table()
        pats, gpats = Table(), Table()
        universe = [c["query"], "localhost"] + list(c["bad"] or [])
        for k, hosts, _m in L["platforms"]:
            universe += hosts
        for k, members, _m in L["groups"]:
            universe += members
        if "name" in r["plat"]:
            universe += [r["plat"]["name"]] + r["plat"]["hosts"]
        universe = list(dict.fromkeys(universe))
        if any(m not in METHODS for _k, _h, m in L["platforms"]) or any(m not in METHODS for _k, _h, m in L["groups"]):
            return None
        plats = q.clist(q.crecord(d_pat=q.cnat(pats(k)), d_hosts=q.clist(q.cnat(names(h)) for h in hosts),
                                  d_method=METHODS[m]) for k, hosts, m in L["platforms"])
        grps = q.clist(q.crecord(g_pat=q.cnat(gpats(k)), g_members=q.clist(q.cnat(names(h)) for h in members),
                                 g_method=METHODS[m]) for k, members, m in L["groups"])
        pm = q.clist(q.cpair(q.cnat(pats(k)), q.clist(q.cnat(names(n)) for n in universe if pmatch(k, n)))
                     for k, _h, _m in L["platforms"])
        gm = q.clist(q.cpair(q.cnat(gpats(k)), q.clist(q.cnat(names(n)) for n in universe if gmatch(k, n)))
                     for k, _h, _m in L["groups"])
        cl = q.clist(q.cnat(pats(k)) for k, _h, _m in L["platforms"] if clash(k))
        jl = q.clist(q.cnat(names(n)) for n in universe if n in JOBLESS)
        if "exc" in r["plat"]:
            impl = f"(Err {ERR[r['plat']['exc']]})"
            host = "None"
        else:
            p = r["plat"]
            if p["method"] not in METHODS:
                return None
            impl = "(Ok " + q.crecord(r_name=q.cnat(names(p["name"])),
                                      r_hosts=q.clist(q.cnat(names(h)) for h in p["hosts"]),
                                      r_method=METHODS[p["method"]]) + ")"
            h = r["host"]
            host = f"(Some (Ok {q.cnat(names(h['ok']))}))" if "ok" in h else f"(Some (Err {ERR[h['exc']]}))"
        return q.crecord(
            c_cfg=q.crecord(platforms=plats, groups=grps), c_pm=pm, c_gm=gm, c_clash=cl, c_jobless=jl,
            c_local=q.cnat(pats("localhost")), c_local_name=q.cnat(names("localhost")),
            c_query=q.cnat(names(c["query"])), c_bad=q.clist(q.cnat(names(b)) for b in (c["bad"] or [])),
            c_impl=impl, c_host=host)

    # ---- property oracle, independent of the Coq model
    def oracle(self, c, r):
        if "load_exc" in r:
            return "generated global.cylc did not load: " + r["load_exc"]
        L = r["loaded"]
        bad = set(c["bad"] or [])
        P = r["plat"]
        if str(P.get("exc", "")).startswith("other"):
            return "unexpected exception " + P["exc"]
        g = ref_group(L, c["query"])
        is_nested = nested(L, c)
        if g is None:
            cand = [c["query"]]
        else:
            cand = list(g[1])
        if "exc" in P:
            if P["exc"] == "noplatforms":
                if g is None:
                    return "NoPlatformsError although the name is not a platform group"
                if is_nested:
                    return None
                for m in cand:
                    rr = ref_resolve(L, m)
                    if rr[0] == "ok" and (not bad or not bad.issuperset(rr[2])):
                        return f"NoPlatformsError although member {m} has a reachable host (hosts {rr[2]}, bad {sorted(bad)})"
                return None
            if P["exc"] == "lookup":
                if is_nested:
                    return None
                if not any(ref_resolve(L, m)[0] == "lookup" for m in cand):
                    return f"PlatformLookupError although every candidate {cand} resolves"
                return None
            return "unexpected error " + P["exc"]
        # a platform was returned
        if P["name"] not in cand and not (P["name"] == "localhost" and any(m in JOBLESS for m in cand)) and not is_nested:
            return f"returned platform {P['name']} is not the name / a member of the group {cand}"
        lookup_name = P["name"]
        rr = ref_resolve(L, lookup_name)
        if P["name"] == "localhost" and "localhost" not in cand and not is_nested:
            # jobless fallback
            src = [m for m in cand if m in JOBLESS]
            rr = ref_resolve(L, src[0]) if src else rr
        if not is_nested:
            if rr[0] != "ok":
                return f"platform {P['name']} returned but the reference lookup fails"
            if [rr[1], rr[2], rr[3]] != [P["name"], P["hosts"], P["method"]]:
                return (f"{P['name']} did not resolve to the last-defined matching platform: got hosts {P['hosts']} "
                        f"method {P['method']}, expected hosts {rr[2]} method {rr[3]}")
        if g is not None and bad and bad.issuperset(P["hosts"]) and not is_nested:
            return (f"group {g[0]} returned platform {P['name']} all of whose hosts {P['hosts']} are unreachable "
                    f"(bad {sorted(bad)})")
        if g is not None and g[2] == "definition order" and not is_nested:
            ok = [m for m in cand if not bad or ref_resolve(L, m)[0] != "ok" or not bad.issuperset(ref_resolve(L, m)[2])]
            if ok and ok[0] != P["name"] and not (ok[0] in JOBLESS and P["name"] == "localhost"):
                return f"definition-order group returned {P['name']}, first usable member is {ok[0]}"
        # host selection on the returned platform
        H = r["host"]
        good = [h for h in P["hosts"] if h not in bad]
        if "ok" in H:
            if H["ok"] not in P["hosts"]:
                return f"host {H['ok']} is not a host of platform {P['name']}"
            if H["ok"] in bad:
                return f"unreachable host {H['ok']} selected (bad {sorted(bad)}, hosts {P['hosts']})"
            if P["method"] == "definition order" and H["ok"] != good[0]:
                return f"definition order selected {H['ok']}, first reachable host is {good[0]}"
        elif H["exc"] == "nohosts":
            if good:
                return f"NoHostsError although {good} are reachable"
        else:
            return "unexpected host selection error " + H["exc"]
        return None

    def key(self, c, r):
        if "loaded" not in r:
            return None
        L = r["loaded"]
        nt = (ref_group(L, c["query"]) is not None or sum(pmatch(k, c["query"]) for k, _h, _m in L["platforms"]) >= 2
              or bool(c["bad"]))
        return (cfg_text(c["cfg"]) + "|" + c["query"] + "|" + repr(c["bad"])) if nt else None

    def classify(self, c, r, failure):
        return "c47:" + re.sub(r"[^a-z]+", "-", failure.lower())[:40]

    def shrink(self, c):
        import copy
        for i in range(len(c["cfg"]["platforms"])):
            d = copy.deepcopy(c); del d["cfg"]["platforms"][i]; yield d
        for i in range(len(c["cfg"]["groups"])):
            d = copy.deepcopy(c); del d["cfg"]["groups"][i]; yield d
        for b in (c["bad"] or []):
            d = copy.deepcopy(c); d["bad"].remove(b); yield d


ERR = {"lookup": "ELookup", "noplatforms": "ENoPlatforms", "nohosts": "ENoHosts", "cylc": "ECylc"}


class Table:
    def __init__(self):
        self.d = {}

    def __call__(self, k):
        return self.d.setdefault(k, len(self.d))


class HostStream(Stream):
    name = "host"
    coq_import = "From Cylc Require Import Model.Platform."
    check_fn = "Platform.h_check"
    show_fn = "Platform.h_model"
    n_hashseeds = 2
    rule = ("get_host_from_platform on hand-made platform dicts: 0-5 hosts (with repeats), method 'definition order' / "
            "'random' / unsupported, bad hosts None / empty / subsets / supersets, as set, frozenset, list or tuple; "
            "thorough adds every host list over 3 names up to length 3 x every bad subset x method; "
            "non-trivial = some host is bad")

    def corpus(self):
        return [{"hosts": ["nellie", "dumbo", "jumbo"], "method": "definition order", "bad": ["nellie", "dumbo"], "cont": "set"},
                {"hosts": ["nellie", "dumbo", "jumbo"], "method": "definition order", "bad": ["nellie", "dumbo", "jumbo"], "cont": "set"},
                {"hosts": ["nellie"], "method": "roulette", "bad": ["Elephant"], "cont": "set"}]

    def gen(self, rng, tier):
        import itertools
        cases = []
        for _ in range(150 if tier == "quick" else 3000):
            hosts = [rng.choice(HOSTS) for _ in range(rng.choice([0, 1, 1, 2, 3, 3, 4, 5]))]
            r = rng.random()
            bad = None if r < 0.1 else [] if r < 0.2 else sorted(set(rng.sample(HOSTS + ["zz"], rng.randint(1, 6))))
            if bad and rng.random() < 0.25:
                bad = sorted(set(bad) | set(hosts))
            cases.append({"hosts": hosts, "method": rng.choice(["definition order", "random", "random", "roulette"]),
                          "bad": bad, "cont": rng.choice(["set", "set", "frozenset", "list", "tuple"])})
        if tier == "thorough":
            hs = ["a", "b", "c"]
            for n in range(4):
                for hosts in itertools.product(hs, repeat=n):
                    for k in range(4):
                        for bad in itertools.combinations(hs, k):
                            for m in ("definition order", "random"):
                                cases.append({"hosts": list(hosts), "method": m, "bad": list(bad), "cont": "set"})
        return cases

    def impl(self, cases):
        from cylc.flow import platforms as P
        from cylc.flow.exceptions import NoHostsError, CylcError
        import random as _random
        out = []
        for i, c in enumerate(cases):
            plat = {"name": "p", "hosts": list(c["hosts"]), "selection": {"method": c["method"]}}
            bad = None if c["bad"] is None else {"set": set, "frozenset": frozenset, "list": list, "tuple": tuple}[c["cont"]](c["bad"])
            _random.seed(i)
            try:
                out.append({"ok": P.get_host_from_platform(plat, bad)})
            except NoHostsError:
                out.append({"exc": "nohosts"})
            except CylcError as e:
                out.append({"exc": "cylc" if type(e) is CylcError else f"other:{type(e).__name__}"})
            except Exception as e:  # noqa
                out.append({"exc": f"other:{type(e).__name__}: {e}"[:200]})
        return out

    def coq_case(self, c, r):
        if str(r.get("exc", "")).startswith("other"):
            return None
        names = Table()
        m = METHODS.get(c["method"], "Other")
        plat = q.crecord(r_name=q.cnat(names("p")), r_hosts=q.clist(q.cnat(names(h)) for h in c["hosts"]), r_method=m)
        impl = f"(Ok {q.cnat(names(r['ok']))})" if "ok" in r else f"(Err {ERR[r['exc']]})"
        return q.crecord(h_plat=plat, h_bad=q.clist(q.cnat(names(b)) for b in (c["bad"] or [])), h_impl=impl)

    def oracle(self, c, r):
        bad = set(c["bad"] or [])
        good = [h for h in c["hosts"] if h not in bad]
        if str(r.get("exc", "")).startswith("other"):
            return "unexpected exception " + r["exc"]
        if "ok" in r:
            if r["ok"] not in c["hosts"]:
                return f"{r['ok']} is not a host of the platform"
            if r["ok"] in bad:
                return f"unreachable host {r['ok']} selected (bad {sorted(bad)})"
            if c["method"] == "definition order" and r["ok"] != good[0]:
                return f"definition order selected {r['ok']} instead of {good[0]}"
            if c["method"] not in METHODS:
                return "unsupported selection method accepted"
            return None
        if r["exc"] == "nohosts":
            return f"NoHostsError although {good} are reachable" if good else None
        if r["exc"] == "cylc":
            if not good:
                return "method error instead of NoHostsError"
            return None if c["method"] not in METHODS else "CylcError for a supported method"
        return "unexpected " + r["exc"]

    def key(self, c, r):
        return repr(c) if c["bad"] else None

    def classify(self, c, r, failure):
        return "c47:host:" + re.sub(r"[^a-z]+", "-", failure.lower())[:40]

    def shrink(self, c):
        import copy
        for i in range(len(c["hosts"])):
            d = copy.deepcopy(c); del d["hosts"][i]; yield d
        for b in (c["bad"] or []):
            d = copy.deepcopy(c); d["bad"].remove(b); yield d


STREAMS = [NameStream(), HostStream()]

META = {
    "level_text": (
        "Coq theorems over Model/Platform.v for all configurations, bad-host sets, regex oracles and every choice function "
        "that returns an element of its argument: a selected host belongs to the platform and is not in the bad set, and "
        "NoHostsError arises exactly when every host is bad; a platform selected from a group is a member that has a "
        "reachable host, and NoPlatformsError arises exactly when no member has one; a name resolves to the last-defined "
        "platform whose pattern fully matches (none later matches), else to localhost for jobless modes, else fails; the "
        "deterministic model's answer is always within the allowed-answer sets used for the comparison. The model is tied "
        "to platforms.py by differential runs on generated global.cylc files compared inside Coq (observed answer must be "
        "an allowed one); an independent Python reference checks avoidance, last-definition and error conditions."),
    "level_note": (
        "Hand model; regex matching and random.choice are section variables (tables from Python's re in the run; "
        "choice only assumed to pick a member). Nested groups (a group member naming a group) are oracle-only. "
        "_platform_name_from_job_info (Cylc 7 settings) is not covered."),
    "technique": "Coq proof over a model with oracle/choice section variables + in-Coq allowed-answer correspondence + reference oracle",
    "design_ref": "5/C47",
}
