"""C03 — scheduler-level check: pool automaton (Model/Pool.v) + real scheduler traces."""
from vp.sched.stream import SchedStream

TRUSTED = ["Model/Pool.v is a hand-written specification automaton over the workflow's instance graph; the instance graph, completion rule and runahead spec are computed by the harness from the generated graph AST independently of cylc. Trusted: Coq kernel+VM; the in-process driver (vp/sched/driver.py: fake process pool, method wrappers recording events); the scenario generator and its reference semantics (vp/sched/scen.py); integer cycling only; no datetime cycling."]
ASSUMES = ["integer cycling; no manual intervention in these scenarios; jobs are simulated by the harness (no real job runs)"]
STREAMS = [SchedStream('C03', name="sched", feat={'abs': True}, extra_oracles=[])]
META = {
    "level_text": 'Coq theorems: an accepted automatic shutdown implies no active task, no released waiting task, nothing finished-incomplete or partially satisfied within the stop point; a task is queued only when ready; every accepted tick end bounds by max_idle the iterations a ready task stays unqueued (one-step progress). Tie: real runs accepted by the automaton incl. runs with required-success failures and partial custom outputs. The stall verdict is checked by the oracle on the implementation (partial).',
    "level_note": "Model/Pool.v is a hand-written specification automaton over the workflow's instance graph; the instance graph, completion rule and runahead spec are computed by the harness from the generated graph AST independently of cylc. Trusted: Coq kernel+VM; the in-process driver (vp/sched/driver.py: fake process pool, method wrappers recording events); the scenario generator and its reference semantics (vp/sched/scen.py); integer cycling only; no datetime cycling.",
    "technique": 'Coq proof of shutdown/progress guards of the pool automaton + trace validation + stall oracle',
    "design_ref": "5/C03",
}
# future triggers (a[+Pn] => b): a run that the runahead limit would deadlock without the future-offset adjustment
STREAMS.append(SchedStream('C03', name="sched-future", feat={'future': True, 'abs': True, 'max_fcp': 6}, n_quick=32, n_thorough=600))
# retries with non-zero delays under a virtual clock: tasks waiting for a retry timer while other tasks are
# finished-but-incomplete (a stall must not be reported while a retry is pending)
STREAMS.append(SchedStream('C03', name="sched-retry-delay", feat={'retries': True, 'retry_delay': True}, n_quick=28, n_thorough=500))
