"""C44 — private workflow files are created owner-only.

Anchors: cylc/flow/workflow_db_mgr.py (on_workflow_start, PERM_PRIVATE,
copy_pri_to_pub), cylc/flow/network/authentication.py (key_housekeeping),
cylc/flow/workflow_files.py (remove_keys_on_server, create_server_keys).
"""
import os

from vp.core import Stream
from vp import coqfmt as q

GEN = ["perm_consts"]

TRUSTED = [
    "hand model Model/Perm.v: start-up as a fixed sequence of unlink/open/chmod/umask/rename operations on 7 files",
    "POSIX semantics assumed in the model: creation mode = requested & ~umask, open() of an existing file keeps its mode, "
    "chmod ignores the umask, rename carries the mode (validated by the differential runs on the real filesystem)",
    "external creation modes (sqlite3 0o644, CPython open() 0o666, mkstemp 0o600) appear only in the correspondence; "
    "the main theorem quantifies over them",
    "vp/gen/perm_consts.py extracts PERM_PRIVATE and the os.umask literal from the source (fail-closed AST match)",
]
ASSUMES = [
    "start-up completes (an exception during start-up is reported by the oracle unless the umask denies the owner's own access)",
    "local filesystem with POSIX permission semantics; no ACLs / setgid-directory effects on file modes",
]

# order = Model.Perm.observed
FILES = ["dbpri", "dbpub", "srvpub", "srvsec", "clisec", "clipub"]
PRIVATE = ["dbpri", "srvsec", "clisec"]
INTERESTING_UMASKS = [0o000, 0o022, 0o002, 0o077, 0o027, 0o007, 0o777, 0o177]
INTERESTING_MODES = [0o644, 0o666, 0o777, 0o600, 0o640, 0o604, 0o000, 0o444]


def _paths(rund, target):
    srv = os.path.join(rund, ".service")
    cli = "client.key" if target is None else f"client_{target}.key"
    return {
        "dbpri": os.path.join(srv, "db"),
        "dbpub": os.path.join(rund, "log", "db"),
        "srvpub": os.path.join(srv, "server.key"),
        "srvsec": os.path.join(srv, "server.key_secret"),
        "clisec": os.path.join(srv, "client.key_secret"),
        "clipub": os.path.join(srv, "client_public_keys", cli),
    }


def _stat_modes(paths):
    import stat
    out = []
    for f in FILES:
        try:
            st = os.lstat(paths[f])
            out.append(stat.S_IMODE(st.st_mode) if stat.S_ISREG(st.st_mode) else -1)
        except FileNotFoundError:
            out.append(None)
    return out


def _rand_init(rng, which):
    return [rng.choice(INTERESTING_MODES + [rng.randrange(512)]) if f in which and rng.random() < 0.8 else None
            for f in FILES]


class _PermStream(Stream):
    coq_import = "From Cylc Require Import Model.Perm."
    check_fn = "Perm.check_case"
    show_fn = "Perm.model_out"
    needs_scratch_home = True
    n_hashseeds = 4

    def coq_case(self, c, r):
        if "exc" in r or any(m == -1 for m in r["modes"]):
            return None
        opt = lambda l: q.clist(q.copt(m, q.cz) for m in l)  # noqa: E731
        return q.crecord(c_umask=q.cz(c["umask"]), c_restart=q.cbool(c["restart"]),
                         c_init=opt(c["init"]), c_impl=opt(r["modes"]),
                         c_impl_umask=q.cz(r["umask_after"]))

    def oracle(self, c, r):
        if "exc" in r:
            if c["umask"] & 0o700 and not r.get("root"):
                return None      # the umask denies the owner access to its own new files
            return "start-up raised: " + r["exc"]
        for f, m in zip(FILES, r["modes"]):
            if f in PRIVATE:
                if m is None or m == -1:
                    return f"{f}: private file missing after start-up"
                if m & 0o077:
                    return f"{f}: mode {m:#o} has group/other bits (umask {c['umask']:#o})"
        if r["umask_after"] != c["umask"]:
            return f"process umask changed by start-up: {c['umask']:#o} -> {r['umask_after']:#o}"
        return None

    def classify(self, c, r, failure):
        return f"c44:{self.name}:" + failure.split(":")[0].replace(" ", "-")[:40]

    def shrink(self, c):
        if any(m is not None for m in c["init"]) and not c["restart"]:
            yield dict(c, init=[None] * 6)
        if c["restart"] and self.name == "direct":
            yield dict(c, restart=False)
        for i, m in enumerate(c["init"]):
            if m is not None and not (c["restart"] and i < 2 and self.name == "e2e"):
                yield dict(c, init=[None if j == i else x for j, x in enumerate(c["init"])])
        if c["umask"] not in (0, 0o022):
            yield dict(c, umask=0o022)
            yield dict(c, umask=0)


class DirectStream(_PermStream):
    """The real functions, called the way Scheduler.install/configure call them."""
    name = "direct"
    rule = ("key_housekeeping() + WorkflowDatabaseManager.on_workflow_start() on a scratch run dir under a generated "
            "umask; variants: empty dir / restart with pre-existing DBs of random modes / all files pre-existing with "
            "loose modes; quick: 16 umasks (8 fixed + 8 random) x 4 variants, thorough: all 512 umasks x 4 variants; "
            "every case is non-trivial (distinct umask x variant)")

    def gen(self, rng, tier):
        if tier == "quick":
            rest = [u for u in range(512) if u not in INTERESTING_UMASKS]
            umasks = INTERESTING_UMASKS + rng.sample(rest, 8)
        else:
            umasks = list(range(512))
        cases = []
        for u in umasks:
            cases.append({"umask": u, "restart": False, "init": [None] * 6, "kind": "fresh"})
            cases.append({"umask": u, "restart": True, "init": _rand_init(rng, ["dbpri", "dbpub"]),
                          "kind": "restart"})
            cases.append({"umask": u, "restart": rng.random() < 0.5, "init": _rand_init(rng, FILES),
                          "kind": "preexisting"})
            cases.append({"umask": u, "restart": rng.random() < 0.5, "init": [0o777] * 6, "kind": "preexisting"})
        return cases

    def corpus(self):
        return [{"umask": 0, "restart": False, "init": [None] * 6, "kind": "fresh"},
                {"umask": 0o022, "restart": True, "init": [0o644, 0o644, None, None, None, None], "kind": "restart"},
                {"umask": 0o022, "restart": False, "init": [0o666] * 6, "kind": "preexisting"}]

    def impl(self, cases):
        import shutil
        from cylc.flow.network.authentication import key_housekeeping
        from cylc.flow.pathutil import get_workflow_run_dir
        from cylc.flow.workflow_db_mgr import WorkflowDatabaseManager
        from cylc.flow.workflow_files import get_workflow_srv_dir
        out = []
        base = os.umask(0o022)
        for i, c in enumerate(cases):
            os.umask(0o022)
            wid = f"c44d{i}"
            rund = get_workflow_run_dir(wid)
            srv = get_workflow_srv_dir(wid)
            paths = _paths(rund, None)
            os.makedirs(os.path.join(srv, "client_public_keys"))
            os.makedirs(os.path.join(rund, "log"))
            for f, m in zip(FILES, c["init"]):
                if m is not None:
                    # DBs: an empty file is a valid empty sqlite database
                    with open(paths[f], "w") as fh:
                        if not f.startswith("db"):
                            fh.write("stale\n")
                    os.chmod(paths[f], m)
            mgr = None
            res = {"root": os.geteuid() == 0}
            os.umask(c["umask"])
            try:
                key_housekeeping(wid)
                mgr = WorkflowDatabaseManager(srv, os.path.join(rund, "log"))
                mgr.on_workflow_start(c["restart"])
            except Exception as e:  # noqa
                res["exc"] = f"{type(e).__name__}: {e}"[:200]
            res["umask_after"] = os.umask(0o022)
            res["modes"] = _stat_modes(paths)
            try:
                if mgr:
                    mgr.on_workflow_shutdown()
            except Exception:  # noqa
                pass
            shutil.rmtree(rund, ignore_errors=True)
            out.append(res)
        os.umask(base)
        return out


_FLOW = "[scheduling]\n    [[graph]]\n        R1 = a\n[runtime]\n    [[a]]\n"


class E2EStream(_PermStream):
    """A real Scheduler: install() + start() (keys, DBs, contact file, server), then stat."""
    name = "e2e"
    impl_timeout = 900
    rule = ("real Scheduler.install()+start() in-process on a scratch cylc-run under a generated umask, files stat'ed "
            "before shutdown; restart cases first run+stop the workflow, loosen the DB modes, then start again; "
            "quick: 4 first starts + 3 restarts, thorough: all 512 umasks first start + 128 restarts")

    def gen(self, rng, tier):
        cases = []
        if tier == "quick":
            fresh = [0o022, 0o000] + rng.sample([0o002, 0o027, 0o077, 0o007, 0o066], 2)
            restart = [0o022] + rng.sample([0o000, 0o002, 0o027, 0o077], 2)
        else:
            fresh = list(range(512))
            restart = INTERESTING_UMASKS + rng.sample(range(512), 120)
        for u in fresh:
            cases.append({"umask": u, "restart": False, "init": [None] * 6, "kind": "e2e-fresh"})
        for u in restart:
            init = [rng.choice(INTERESTING_MODES[:6]), rng.choice(INTERESTING_MODES[:6]), None, None, None, None]
            cases.append({"umask": u, "restart": True, "init": init, "kind": "e2e-restart"})
        return cases

    def impl(self, cases):
        import asyncio
        import shutil
        from cylc.flow.pathutil import get_workflow_run_dir
        from cylc.flow.scheduler import Scheduler, SchedulerStop
        from cylc.flow.scheduler_cli import RunOptions

        async def start_and_stat(wid, umask, paths):
            res = {"root": os.geteuid() == 0}
            schd = None
            os.umask(umask)
            try:
                schd = Scheduler(wid, RunOptions(paused_start=True, run_mode="live"))
                await schd.install()
                await schd.start()
                if paths is not None and not os.path.exists(paths["dbpri"]):
                    raise RuntimeError("scheduler start-up did not complete (no private DB)")
            except BaseException as e:  # noqa
                res["exc"] = f"{type(e).__name__}: {e}"[:200]
            res["umask_after"] = os.umask(0o022)
            if paths is not None:
                res["modes"] = _stat_modes(paths)
            if schd is not None:
                try:
                    async with asyncio.timeout(10):
                        await schd.shutdown(SchedulerStop("c44 teardown"))
                except BaseException as e:  # noqa
                    res.setdefault("shutdown_exc", f"{type(e).__name__}: {e}"[:200])
            return res

        out = []
        base = os.umask(0o022)
        for i, c in enumerate(cases):
            os.umask(0o022)
            wid = f"c44e{i}"
            rund = get_workflow_run_dir(wid)
            paths = _paths(rund, "localhost")
            os.makedirs(rund)
            with open(os.path.join(rund, "flow.cylc"), "w") as fh:
                fh.write(_FLOW)
            if c["restart"]:
                first = asyncio.run(start_and_stat(wid, 0o022, None))
                if "exc" in first:
                    out.append({"exc": "first run failed: " + first["exc"], "root": first["root"], "modes": [None] * 6,
                                "umask_after": c["umask"]})
                    continue
                stale = [f for f in FILES[2:] if os.path.lexists(paths[f])]
                if stale:
                    out.append({"exc": f"keys left behind after shutdown: {stale}", "root": first["root"],
                                "modes": [None] * 6, "umask_after": c["umask"]})
                    continue
                os.chmod(paths["dbpri"], c["init"][0])
                os.chmod(paths["dbpub"], c["init"][1])
            res = asyncio.run(start_and_stat(wid, c["umask"], paths))
            shutil.rmtree(rund, ignore_errors=True)
            out.append(res)
        os.umask(base)
        return out


STREAMS = [DirectStream(), E2EStream()]

META = {
    "level_text": (
        "Coq theorem c44_private over Model/Perm.v for ALL initial states (any umask, any subset of the files "
        "pre-existing with any modes, first start or restart) and any creation modes requested by sqlite/open(): after the "
        "start-up operation sequence the private DB and the server and client private keys exist and have no group/other "
        "permission bit; proved from a general bitwise lemma (creation under a umask covering 0o077) plus the two literals "
        "PERM_PRIVATE and the os.umask(...) argument, which are regenerated from the source on every run; also the "
        "umask is restored, and the finite all-512-umasks statement by evaluation. The operation sequences are tied to "
        "the code by differential runs of the real key_housekeeping/on_workflow_start and of full Scheduler start-ups on a "
        "scratch filesystem under 16 (quick) / all 512 (thorough) umasks, stat modes compared with the model inside Coq, "
        "and a direct oracle (no group/other bits on the three private files, umask unchanged)."),
    "level_note": (
        "full proof about the model; the model's operation sequences are hand-written (trusted via correspondence); "
        "kernel file-mode semantics is assumed as stated in TRUSTED; the window between sqlite creating the DB and the "
        "chmod is outside the property ('once start-up completes'); remote-platform copies of client keys are not covered."),
    "technique": "Coq proof (bitwise lemma + symbolic execution of the start-up sequence over all initial states) + "
                 "source-extracted constants + in-Coq differential correspondence on the real filesystem + mode oracle",
    "design_ref": "5/C44",
}
