"""C16 — integer recurrences denote the clipped arithmetic progression
(cylc/flow/cycling/integer.py: IntegerSequence, IntegerExclusions)."""
import itertools
import json
from pathlib import Path

from vp.core import Stream
from vp import coqfmt as q

TRUSTED = [
    "hand model Model/IntSeq.v of IntegerSequence.__init__ (after regex dispatch) and its query API, "
    "IntegerExclusions.__contains__, get_point_from_expression",
    "the driver re-runs the dispatch loop of IntegerSequence.__init__ over the real RECURRENCE_FORMAT_RECS / "
    "parse_exclusion to obtain the form record (fmt, reps, start, end, intv) given to the model",
    "points and intervals are Python ints <-> Coq Z (IntegerPoint/IntegerInterval are string wrappers "
    "around canonical decimal integers in every generated case)",
]
ASSUMES = [
    "exclusion sequences are read in the context [first point, last point] of the recurrence they modify "
    "(what IntegerExclusions does); for a recurrence whose clipped progression is empty they carry no meaning",
    "on an unbounded sequence whose whole tail is excluded the searches upwards do not terminate; no answer is specified",
    "recurrence components are canonical decimal integers / +Pn / -Pn; context points are integer strings "
    "as passed by WorkflowConfig (str(icp), fcp or None)",
    "spec side conditions: repetitions n >= 1 and interval k >= 1 (R0 and P0 are modelled and compared "
    "with the code but carry no specification)",
]

# ---------------------------------------------------------------------------
# named surface forms and their intended regex dispatch
#   name -> (format_num, uses n, uses S, uses E, uses k)
# ---------------------------------------------------------------------------
FORMS = {
    "Rn/S/E":  (1, True, True, True, False),
    "S/Pk":    (3, False, True, False, True),
    "Pk":      (3, False, False, False, True),
    "Pk/E":    (4, False, False, True, True),
    "R1/S":    (3, True, True, False, False),
    "Rn/S/Pk": (3, True, True, False, True),
    "Rn//Pk":  (3, True, False, False, True),
    "Rn/Pk/E": (4, True, False, True, True),
    "Rn/Pk":   (4, True, False, False, True),
    "R1":      (3, True, False, False, False),
    "R1//E":   (4, True, False, True, False),
}


def rpt(p):
    """render a point expression: ["abs", v] or ["rel", j]"""
    if p[0] == "abs":
        return str(p[1])
    return ("+P%d" % p[1]) if p[1] >= 0 else ("-P%d" % -p[1])


def render_form(f):
    name = f["name"]
    R = "R" if f.get("n") is None else "R%d" % f["n"]
    S = rpt(f["S"]) if f.get("S") is not None else ""
    E = rpt(f["E"]) if f.get("E") is not None else ""
    P = "P%d" % f["k"] if f.get("k") is not None else ""
    s = {
        "Rn/S/E": f"{R}/{S}/{E}", "S/Pk": f"{S}/{P}", "Pk": P, "Pk/E": f"{P}/{E}",
        "R1/S": f"{R}/{S}", "Rn/S/Pk": f"{R}/{S}/{P}", "Rn//Pk": f"{R}//{P}",
        "Rn/Pk/E": f"{R}/{P}/{E}", "Rn/Pk": f"{R}/{P}", "R1": R, "R1//E": f"{R}//{E}",
    }[name]
    if f.get("slash"):
        s += "/"
    return s


def render(c):
    s = render_form(c["form"])
    items = [str(p) for p in c.get("xp", [])] + [render_form(x) for x in c.get("xs", [])]
    if items:
        s += "!" + (items[0] if len(items) == 1 and not c.get("paren") else "(" + ",".join(items) + ")")
    return s


def intent_dispatch(f):
    fmt, un, us, ue, uk = FORMS[f["name"]]
    return {"fmt": fmt, "reps": f.get("n") if un else None,
            "start": f.get("S") if us else None, "end": f.get("E") if ue else None,
            "intv": f.get("k") if uk else None}


# ---------------------------------------------------------------------------
# reference semantics (independent of the Gallina model): the set a
# recurrence denotes, as (member predicate, lo, hi) over the integers
# ---------------------------------------------------------------------------
class Unspec(Exception):
    """the input has no specified meaning (R0, P0, non-divisible Rn/S/E ...)"""


class ExpectError(Exception):
    """the input must be rejected (missing context point, negative step)"""


def _res(p, ctx):
    if p is None:
        if ctx is None:
            raise ExpectError("missing context point")
        return ctx
    if p[0] == "abs":
        return p[1]
    if ctx is None:
        raise ExpectError("relative point without context point")
    return ctx + p[1]


def base_set(f, I, F):
    """(anchor, step, count, direction) clipped later; returns a dict
    {a: first term, k: step or None, n: number of terms or None(infinite), dir: +1/-1}"""
    fmt = FORMS[f["name"]][0]
    n, k = f.get("n"), f.get("k")
    if n is not None and n < 1:
        raise Unspec("R0")
    if k is not None and k < 1:
        raise Unspec("P0")
    if fmt == 3:
        a = _res(f.get("S"), I)
        if FORMS[f["name"]][4] and n != 1:
            return {"a": a, "k": k, "n": n, "dir": 1}
        return {"a": a, "k": None, "n": 1, "dir": 1}
    if fmt == 4:
        if F is None and (f.get("E") is None or f["E"][0] == "rel"):
            raise ExpectError("missing final point")
        a = _res(f.get("E"), F)
        if n is None and not FORMS[f["name"]][4]:
            raise Unspec("R//E")
        if FORMS[f["name"]][4] and n != 1:
            return {"a": a, "k": k, "n": n, "dir": -1}
        return {"a": a, "k": None, "n": 1, "dir": -1}
    # fmt 1
    s = _res(f.get("S"), I)
    e = _res(f.get("E"), F)
    if n == 1:
        return {"a": s, "k": None, "n": 1, "dir": 1}
    if e < s:
        raise ExpectError("negative interval")
    if (e - s) % (n - 1) != 0 or e == s:
        raise Unspec("Rn/S/E not evenly divisible")
    return {"a": s, "k": (e - s) // (n - 1), "n": n, "dir": 1}


class RefSet:
    """progression clipped to [I, F] (F None = unbounded above)"""

    def __init__(self, f, I, F):
        b = base_set(f, I, F)
        self.a, self.k, self.n, self.dir = b["a"], b["k"], b["n"], b["dir"]
        self.I, self.F = I, F

    def base(self, p):
        if p < self.I or (self.F is not None and p > self.F):
            return False
        if self.k is None:
            return p == self.a
        d = (p - self.a) * self.dir
        if d < 0 or d % self.k:
            return False
        return self.n is None or d // self.k < self.n

    def lo_hi(self):
        """(min, max) of the clipped set; max None if unbounded; (None, None) if empty"""
        hi_bound = self.F
        if self.dir == -1 or self.k is None or self.n is not None:
            # finite progression: bounded window
            if self.k is None:
                pts = [self.a]
            elif self.n is not None:
                pts = [self.a + self.dir * i * self.k for i in range(self.n)]
            else:
                # infinite downwards from a: only points >= I matter
                cnt = max(0, (self.a - self.I) // self.k + 1)
                pts = [self.a - i * self.k for i in range(cnt)]
            pts = [p for p in pts if self.base(p)]
            return (min(pts), max(pts)) if pts else (None, None)
        # infinite upwards
        lo = self.a if self.a >= self.I else self.a + -(-(self.I - self.a) // self.k) * self.k
        if hi_bound is None:
            return (lo, None)
        if lo > hi_bound:
            return (None, None)
        return (lo, hi_bound - (hi_bound - lo) % self.k)


class RefSeq:
    def __init__(self, c):
        I, F = c["I"], c.get("F")
        self.outer = RefSet(c["form"], I, F)
        self.lo, self.hi = self.outer.lo_hi()
        self.xp = set(c.get("xp", []))
        self.xs = []
        for x in c.get("xs", []):
            if (x.get("n") is not None and x["n"] < 1) or (x.get("k") is not None and x["k"] < 1):
                raise Unspec("degenerate exclusion sequence")
        if self.lo is None and c.get("xs"):
            raise Unspec("exclusion sequences of an empty sequence have no context")
        if self.lo is not None:
            for x in c.get("xs", []):
                self.xs.append(RefSet(x, self.lo, self.hi))
        self.unbounded = self.lo is not None and self.hi is None

    def member(self, p):
        return (self.outer.base(p) and p not in self.xp
                and not any(x.base(p) for x in self.xs))

    def window(self, qs):
        lo = min([self.lo if self.lo is not None else 0] + list(qs)) - 2
        if self.hi is not None:
            hi = max([self.hi] + list(qs)) + 2
        else:
            hi = max([self.lo or 0] + list(qs)) + 200
        return lo, hi


KNOWN_FILE = Path(__file__).resolve().parent.parent.parent / "known_findings.d" / "C16.json"


def known_sigs():
    try:
        return {f["signature"] for f in json.loads(KNOWN_FILE.read_text())["findings"]
                if f.get("status") == "open"}
    except Exception:
        return set()


class IntSeqStream(Stream):
    name = "intseq"
    coq_import = "From Cylc Require Import Model.IntSeq. Open Scope Z_scope."
    check_fn = "IntSeq.check_case"
    show_fn = "IntSeq.model_out"
    n_hashseeds = 4
    shard_size = 250
    rule = ""

    # ------------------------------------------------------------------ impl
    def impl(self, cases):
        import sys
        from cylc.flow.cycling import parse_exclusion
        from cylc.flow.cycling import integer as m

        def depth():
            f, n = sys._getframe(), 0
            while f is not None:
                f, n = f.f_back, n + 1
            return n

        def pexpr(s):
            if s is None or s == "":
                return None
            if m.REC_RELATIVE_POINT.search(s):
                return ["rel", int(s.replace("P", ""))]
            try:
                v = int(s)
            except ValueError:
                return ["bad", s]
            return ["abs", v] if str(v) == s else ["bad", s]

        def dispatch(expr):
            """the dispatch loop of IntegerSequence.__init__ over the real table"""
            for rec, fmt in m.RECURRENCE_FORMAT_RECS:
                r = rec.match(expr)
                if not r:
                    continue
                g = r.groupdict()
                reps = g.get("reps")
                intv = g.get("intv") or None
                k = None
                if intv is not None:
                    k = int(intv[1:]) if intv[1:].isdigit() and str(int(intv[1:])) == intv[1:] else ["bad", intv]
                return {"fmt": fmt, "reps": None if reps is None else int(reps),
                        "start": pexpr(g.get("start")), "end": pexpr(g.get("end")), "intv": k}
            return None

        def enc(fn, *a):
            try:
                r = fn(*a)
            except RecursionError:
                return "E:RecursionError"
            except Exception as e:  # noqa
                return "E:" + type(e).__name__
            if r is None or isinstance(r, bool):
                return r
            return int(r)

        out = []
        for c in cases:
            rec = c["raw"] if "raw" in c else render(c)
            I, F = str(c["I"]), (None if c.get("F") is None else str(c["F"]))
            res = {"rec": rec}
            try:
                expr, xl = parse_exclusion(rec)
                res["form"] = dispatch(expr)
                xitems = []
                for x in (xl or []):
                    try:
                        v = int(x)
                        xitems.append({"pt": v} if str(v) == x else {"bad": x})
                    except ValueError:
                        xitems.append({"seq": dispatch(x)})
                res["xitems"] = xitems
            except Exception as e:  # noqa
                res["form"] = None
                res["parse_exc"] = type(e).__name__
            try:
                s = m.IntegerSequence(rec, I, F)
            except RecursionError:
                res["init"] = "E:RecursionError"
                out.append(res)
                continue
            except Exception as e:  # noqa
                res["init"] = "E:" + type(e).__name__
                res["init_msg"] = str(e)[:120]
                out.append(res)
                continue
            res["init"] = "ok"
            res["state"] = [int(s.p_start), None if s.p_stop is None else int(s.p_stop),
                            None if s.i_step is None else int(s.i_step)]
            P = m.IntegerPoint
            qs = c["q"]
            # A RecursionError costs O(limit * points); legitimate recursion is
            # bounded by the number of consecutive excluded points, so a limit
            # well above the number of grid points keeps every terminating call
            # intact (the model's FUEL is 400).
            grid = 0
            if s.p_stop is not None and s.i_step:
                grid = max(0, (int(s.p_stop) - int(s.p_start)) // int(s.i_step) + 1)
            sys.setrecursionlimit(min(1000, depth() + 90 + 2 * min(grid, 200)))
            res["start_pt"] = enc(s.get_start_point)
            res["stop_pt"] = enc(s.get_stop_point)
            for nm, fn in (("on", s.is_on_sequence), ("valid", s.is_valid),
                           ("next", s.get_next_point), ("prev", s.get_prev_point),
                           ("first", s.get_first_point), ("nprev", s.get_nearest_prev_point),
                           ("nos", s.get_next_point_on_sequence)):
                res[nm] = [enc(fn, P(p)) for p in qs]
            sys.setrecursionlimit(1000)
            out.append(res)
        return out

    # ---------------------------------------------------------------- oracle
    def failures(self, c, r):
        """all deviations from the property text, as (class, text)"""
        if c.get("kind") == "malformed":
            # out-of-fragment strings carry no progression; only requirement:
            # a string no recurrence regex matches is rejected as such
            if r.get("form") is None and "parse_exc" not in r and r.get("init") != "E:SequenceParsingError":
                return [("malformed-not-rejected", f"{r.get('rec')!r}: {r.get('init')}")]
            return []
        fails = []
        rec = r.get("rec")
        want = intent_dispatch(c["form"])
        if r.get("form") != want:
            fails.append(("dispatch", f"{rec}: dispatched as {r.get('form')} expected {want}"))
            return fails
        for x, it in zip(c.get("xp", []), r.get("xitems", [])):
            if it != {"pt": x}:
                fails.append(("dispatch-excl", f"{rec}: exclusion {x} parsed as {it}"))
        nxp = len(c.get("xp", []))
        for x, it in zip(c.get("xs", []), r.get("xitems", [])[nxp:]):
            if it != {"seq": intent_dispatch(x)}:
                fails.append(("dispatch-excl", f"{rec}: exclusion {render_form(x)} parsed as {it}"))
        if fails:
            return fails
        try:
            ref = RefSeq(c)
        except Unspec:
            return []
        except ExpectError as e:
            if r["init"] == "ok":
                fails.append(("accepts-invalid", f"{rec} I={c['I']} F={c.get('F')}: accepted but {e}"))
            return fails
        ctx = f"{rec} I={c['I']} F={c.get('F')}"
        if r["init"] != "ok":
            k = self.init_class(c, ref) or ("init-raises:sane:" + c["form"]["name"])
            fails.append((k, f"{ctx}: constructor raised {r['init']} {r.get('init_msg','')}"))
            return fails
        qs = c["q"]
        lo, hi = ref.window(qs)
        members = [p for p in range(lo, hi + 1) if ref.member(p)]
        # membership
        bad = [(p, v) for p, v in zip(qs, r["valid"]) if v != ref.member(p)]
        if bad:
            got = sorted(p for p, v in zip(qs, r["valid"]) if v is True)
            exp = sorted(p for p in qs if ref.member(p))
            fails.append((self.set_class(c, ref), f"{ctx}: is_valid true on {got} expected {exp}"))
            # the remaining answers are measured against the set the object
            # actually denotes only when it is the intended one
            return fails

        def least_gt(p, strict=True):
            for m_ in members:
                if m_ > p or (not strict and m_ == p):
                    return m_
            return None

        def greatest_lt(p):
            prev = None
            for m_ in members:
                if m_ >= p:
                    break
                prev = m_
            return prev

        top = hi - 100 if ref.unbounded else None   # answers beyond this are not checked
        exp_start = members[0] if members else None
        if r["start_pt"] != exp_start and not (ref.unbounded and not members):
            # (unbounded and everything excluded in the window: the code recurses
            #  for ever, the text gives no answer -- not checked)
            fails.append((self.q_class(c, ref, None, "start", exp_start),
                          f"{ctx}: get_start_point()={r['start_pt']} expected {exp_start}"))
        exp_stop = None if (ref.unbounded or not members) else members[-1]
        if r["stop_pt"] != exp_stop:
            fails.append((self.q_class(c, ref, None, "stop", exp_stop),
                          f"{ctx}: get_stop_point()={r['stop_pt']} expected {exp_stop}"))
        for i, p in enumerate(qs):
            chk = [("next", least_gt(p)), ("first", least_gt(p, False)),
                   ("prev", greatest_lt(p)), ("nprev", greatest_lt(p))]
            if ref.outer.base(p):
                chk.append(("nos", least_gt(p)))
            for api, exp in chk:
                got = r[api][i]
                if top is not None and least_gt(p) is None and api in ("next", "first", "nos", "nprev"):
                    # unbounded sequence whose whole tail above p is excluded: the code
                    # searches upwards for ever (nprev does too, through its loop);
                    # the property text gives no answer here -- not checked
                    continue
                if got != exp:
                    fails.append((self.q_class(c, ref, p, api, exp),
                                  f"{ctx}: {api}({p})={got} expected {exp}"))
        return fails

    # narrow input classes -------------------------------------------------
    # Every class is a function of the *input* (and of the reference set),
    # never of what the implementation answered, so that a new bug on inputs
    # outside these classes gets an unlisted signature.
    @staticmethod
    def init_class_of(f, rs):
        """known construction-defect class an input form is eligible for, or None.
        rs = RefSet of the form in its context."""
        I, F = rs.I, rs.F
        fmt = FORMS[f["name"]][0]
        if fmt == 1 and f.get("n") != 1:
            return "Rn/S/E,n>=2"
        if rs.k is None:
            if rs.a < I or (F is not None and rs.a > F):
                return "oneoff-outside-context"
            return None
        if fmt == 4 and f.get("n") is None:
            return "Pk/E,E!=final" if rs.a != F else None
        first = rs.a if rs.dir == 1 else rs.a - (rs.n - 1) * rs.k
        last = (rs.a + (rs.n - 1) * rs.k if rs.n is not None else None) if rs.dir == 1 else rs.a
        if first < I:
            return "start<initial"
        if F is not None and last is not None and last > F:
            return "stop>final"
        return None

    def init_class(self, c, ref):
        k = self.init_class_of(c["form"], ref.outer)
        if k:
            return k
        for x, rs in zip(c.get("xs", []), ref.xs):
            k = self.init_class_of(x, rs)
            if k:
                return k          # same defect, in an exclusion sequence
        return None

    def set_class(self, c, ref):
        return self.init_class(c, ref) or "set:sane"

    def q_class(self, c, ref, p, api, exp):
        # (the classes excl-seq:None-lookup and nprev:at-excluded-start were fixed in /repo by
        #  d9f1b31; they stay here so that a regression gets exactly that, no longer open, signature)
        k = self.init_class(c, ref)
        if k:
            return k
        step_xs = any(FORMS[x["name"]][4] and x.get("n") != 1 for x in c.get("xs", []))
        k_ = ref.outer.k
        sane = api + ":sane"
        if ref.lo is None:
            if api in ("start", "stop"):
                return "startstop:empty-base-set"
            if api in ("prev", "nprev") and step_xs:
                return "excl-seq:None-lookup"
            return sane
        excluded_start = (ref.lo in ref.xp or any(x.base(ref.lo) for x in ref.xs))
        if api == "start":
            return sane
        if api == "stop":
            if ref.hi is None:
                return "excl-seq:None-lookup" if step_xs else sane
            return "excl-seq:None-lookup" if (exp is None and step_xs) else sane
        if api == "next":
            if k_ is None:
                return "next:oneoff-excluded" if excluded_start and p < ref.lo else sane
            return "next:far-below" if p < ref.lo - k_ else sane
        if api in ("prev", "nprev"):
            if k_ is not None and ref.hi is not None and p > ref.hi + k_ and (
                    api == "prev" or (p - ref.lo) % k_ == 0):
                return "prev:far-above"
            if api == "nprev" and excluded_start and p >= ref.lo and exp is None and not ref.member(p):
                return "nprev:at-excluded-start"
            if exp is None and step_xs and not (k_ is None and api == "prev"):
                return "excl-seq:None-lookup"
            if k_ is None and api == "prev" and exp is not None:
                return "prev:oneoff"
            return sane
        return sane

    def oracle(self, c, r):
        fs = self.failures(c, r)
        if not fs:
            return None
        known = known_sigs()
        fs.sort(key=lambda f: ("C16:" + f[0]) in known)   # unlisted classes first
        return " || ".join(f"[{k}] {t}" for k, t in fs[:4])

    def classify(self, c, r, failure):
        return "C16:" + failure.split("]")[0].lstrip("[")

    # ------------------------------------------------------------- Gallina
    ERR = {"CylcMissingContextPointError": "EMissingCtx", "TypeError": "EType",
           "IntervalParsingError": "EIntervalParse", "ZeroDivisionError": "EZeroDiv",
           "ValueError": "ENegInterval", "RecursionError": "ERecursion"}

    @classmethod
    def _err(cls, s):
        return cls.ERR.get(s[2:], "EOther")

    @staticmethod
    def _z(n):
        return str(n) if n >= 0 else f"({n})"

    @classmethod
    def _oz(cls, n):
        return "None" if n is None else f"(Some {cls._z(n)})"

    @classmethod
    def _ans(cls, v):
        if isinstance(v, str):
            return f"(aE {cls._err(v)})"
        return "aN" if v is None else f"(aS {cls._z(v)})"

    @classmethod
    def _pexpr(cls, p):
        return "None" if p is None else f"(Some ({'Abs' if p[0] == 'abs' else 'Rel'} {cls._z(p[1])}))"

    @classmethod
    def _form(cls, f):
        return (f"(mkf {f['fmt']} {cls._oz(f['reps'])} {cls._pexpr(f['start'])} "
                f"{cls._pexpr(f['end'])} {cls._oz(f['intv'])})")

    @staticmethod
    def _form_ok(f):
        if f is None:
            return False
        for k in ("start", "end"):
            if f[k] is not None and f[k][0] == "bad":
                return False
        return not isinstance(f["intv"], list)

    def coq_case(self, c, r):
        # terms are written for `Open Scope Z_scope` (see coq_import): plain
        # numerals and applications keep the case files small and fast to elaborate;
        # the query list is a cons chain because Coq parses long `[a; b; ...]` notations slowly
        if not self._form_ok(r.get("form")) or "parse_exc" in r:
            return None
        items = "None"
        if "!" in r["rec"]:
            its = []
            for it in r["xitems"]:
                if "pt" in it:
                    its.append(f"XP {self._z(it['pt'])}")
                elif "seq" in it and self._form_ok(it["seq"]):
                    its.append(f"XS {self._form(it['seq'])}")
                else:
                    return None
            items = "(Some [" + "; ".join(its) + "])"
        if r["init"] != "ok":
            impl = f"(IRaised {self._err(r['init'])})"
        else:
            qa = []
            for i, p in enumerate(c["q"]):
                qa.append(" ".join(["mkq", self._z(p), q.cbool(r["on"][i]), q.cbool(r["valid"][i]),
                                    self._ans(r["next"][i]), self._ans(r["prev"][i]),
                                    self._ans(r["first"][i]), self._ans(r["nprev"][i]),
                                    self._ans(r["nos"][i])]))
            st = r["state"]
            impl = ("(IBuilt " + " ".join([self._z(st[0]), self._oz(st[1]), self._oz(st[2]),
                                           self._ans(r["start_pt"]), self._ans(r["stop_pt"]),
                                           "(" + " :: ".join(f"({x})" for x in qa) + " :: nil)"]) + ")")
        return (f"mkcase {self._form(r['form'])} {items} {self._z(c['I'])} "
                f"{self._oz(c.get('F'))} {impl}")

    # ----------------------------------------------------------- generation
    @staticmethod
    def _queries(c, span=None):
        I, F = c["I"], c.get("F")
        hi = F if F is not None else I + 9
        lo = min(I, hi)
        hi = max(I, hi)
        return list(range(lo - 5, hi + 6))

    @staticmethod
    def _rand_pt(rng, lo, hi, rel=(-3, 3)):
        if rng.random() < 0.6:
            return ["abs", rng.randint(lo, hi)]
        return ["rel", rng.randint(*rel)]

    def _rand_form(self, rng, names, lo, hi, kmax, nmax, degenerate=False):
        name = rng.choice(names)
        fmt, un, us, ue, uk = FORMS[name]
        f = {"name": name}
        if un:
            if name in ("R1", "R1//E"):
                f["n"] = 1
            elif name == "R1/S":
                f["n"] = rng.choice([1, None])
            elif name == "Rn/S/E":
                f["n"] = rng.randint(0 if degenerate else 1, nmax)
            else:
                f["n"] = rng.choice([None] + list(range(0 if degenerate else 1, nmax + 1)))
        if us:
            f["S"] = self._rand_pt(rng, lo, hi)
        if ue:
            f["E"] = self._rand_pt(rng, lo, hi)
        if uk:
            f["k"] = rng.randint(0 if degenerate else 1, kmax)
        if rng.random() < 0.08 and name in ("S/Pk", "R1/S", "Rn/Pk", "R1"):
            f["slash"] = True
        return f

    XS_NAMES = ["Pk", "S/Pk", "Rn/Pk", "R1/S", "Pk/E", "Rn/S/Pk", "Rn/Pk/E", "R1"]

    def _rand_case(self, rng, lo, hi, kmax, nmax, kind="box", degenerate=False, names=None):
        I = rng.randint(lo, lo + (hi - lo) // 2)
        F = None if rng.random() < 0.15 else rng.randint(I - 1, hi)
        f = self._rand_form(rng, names or list(FORMS), lo, hi, kmax, nmax, degenerate)
        c = {"kind": kind, "form": f, "I": I, "F": F, "xp": [], "xs": []}
        u = rng.random()
        if u < 0.45:
            nx = rng.choice([1, 1, 2, 3])
            for _ in range(nx):
                if rng.random() < 0.55:
                    c["xp"].append(rng.randint(lo, hi + 1))
                else:
                    c["xs"].append(self._rand_form(rng, self.XS_NAMES, lo, hi, kmax, nmax, degenerate))
            if rng.random() < 0.3:
                c["paren"] = True
        c["q"] = self._queries(c)
        return c

    def _exhaustive(self, vals, ks, ns, ctxs):
        """every form x every value in the box, no exclusions"""
        out = []
        pts = [["abs", v] for v in vals] + [["rel", j] for j in (-2, -1, 0, 1, 2)]
        for name, (fmt, un, us, ue, uk) in FORMS.items():
            if un:
                nn = [1] if name in ("R1", "R1//E") else [1, None] if name == "R1/S" else (
                    ns if name == "Rn/S/E" else [None] + ns)
            else:
                nn = [None]
            for n, S, E, k in itertools.product(nn, pts if us else [None], pts if ue else [None],
                                                ks if uk else [None]):
                f = {"name": name}
                if un:
                    f["n"] = n
                if us:
                    f["S"] = S
                if ue:
                    f["E"] = E
                if uk:
                    f["k"] = k
                for I, F in ctxs:
                    c = {"kind": "exhaustive", "form": f, "I": I, "F": F, "xp": [], "xs": []}
                    c["q"] = self._queries(c)
                    out.append(c)
        return out

    MALFORMED = ["R", "R//3", "P-3", "3", "R2/3", "P1!+P1", "P1!(3", "zz", "P1!3!4", "1/2/3",
                 "+P1", "P1/", "P3/8/", "R1/P0", "R/P0", "P0", "R2/P0/5", "R0/2/P2", "R0/P2/7",
                 "R0/1/5", "P2!P0", "02/P2", "2/P02", "R01/3", "P1!", "P1!()", "P1!(2,P3!4)",
                 "R3/2/P2 ! 4", " P2 ", "R1/+P0", "R1/-P0", "P1!03", "P1!-1", "R2//P3/", "R/2"]

    def gen(self, rng, tier):
        cases = []
        quick = tier == "quick"
        # 1. exhaustive no-exclusion box (quick: a random tenth of a smaller box)
        if quick:
            ex = self._exhaustive([-1, 0, 2, 5, 8], [1, 2, 3], [1, 2, 3, 5],
                                  [(1, 10), (0, 7), (-2, 4), (3, None), (2, 2), (4, 3)])
            cases += rng.sample(ex, 1000)
        else:
            cases += self._exhaustive(list(range(-2, 10)), [1, 2, 3, 4], [1, 2, 3, 4, 6],
                                      [(1, 10), (0, 7), (-2, 4), (3, None), (2, 2), (4, 3), (0, 1), (-1, 8)])
        # 2. random small cases with exclusions
        for _ in range(1200 if quick else 25000):
            cases.append(self._rand_case(rng, -2, 9, 4, 5))
        # 3. random larger values
        for _ in range(150 if quick else 5000):
            c = self._rand_case(rng, -40, 120, 17, 9, kind="random-large")
            I, F = c["I"], c.get("F")
            top = F if F is not None else I + 60
            pts = {I, top, I - 1, top + 1}
            for _ in range(10):
                pts.add(rng.randint(min(I, top) - 30, max(I, top) + 30))
            c["q"] = sorted(pts)
            cases.append(c)
        # 4. degenerate (R0 / P0): no specification, model == code only
        for _ in range(100 if quick else 1500):
            cases.append(self._rand_case(rng, -2, 9, 2, 2, kind="degenerate", degenerate=True))
        # 5. malformed / out-of-fragment strings
        for raw in self.MALFORMED:
            for I, F in ((1, 10), (3, None)):
                cases.append({"kind": "malformed", "raw": raw, "I": I, "F": F,
                              "q": list(range(I - 3, I + 12))})
        return cases

    def corpus(self):
        def mk(form, I, F, xp=(), xs=(), q_=None):
            c = {"kind": "corpus", "form": form, "I": I, "F": F, "xp": list(xp), "xs": list(xs)}
            c["q"] = q_ or self._queries(c)
            return c
        A = lambda v: ["abs", v]   # noqa
        R = lambda j: ["rel", j]   # noqa
        return [
            # finding witnesses
            mk({"name": "Pk/E", "k": 3, "E": A(8)}, 1, 10),                 # P3/8: {1,4,7}, stop 8
            mk({"name": "Rn/S/E", "n": 3, "S": A(0), "E": A(10)}, 0, 20),   # R3/0/10 raises
            mk({"name": "S/Pk", "S": A(0), "k": 3}, 1, 10),                 # 0/P3: {2,5,8} not {3,6,9}
            mk({"name": "Rn/S/Pk", "n": 5, "S": A(0), "k": 3}, 0, 10),      # R5/0/P3: {0,3,6} not {0,3,6,9}
            mk({"name": "Rn/Pk/E", "n": 5, "k": 3, "E": A(20)}, 1, 10),     # R5/P3/20: stop 9 off-sequence
            mk({"name": "R1/S", "n": 1, "S": A(0)}, 1, 10),                 # R1/0 valid at 0 < initial
            mk({"name": "Pk", "k": 3}, 1, 10, q_=list(range(-6, 18))),      # far-below / far-above queries
            mk({"name": "Pk", "k": 1}, 1, 10, xs=[{"name": "Pk", "k": 2}]),  # P1!P2: regression for d9f1b31 (was prev TypeError, nprev RecursionError)
            mk({"name": "Pk", "k": 1}, 1, None, xs=[{"name": "Pk", "k": 2}]),  # regression for d9f1b31 (was get_stop_point TypeError)
            mk({"name": "Pk", "k": 2}, -1, 1, xp=[7, -1], q_=[-2, -1, 0, 1, 2]),      # P2!(7,-1): nprev(0) recursed for ever
            mk({"name": "R1", "n": 1}, -1, None, xp=[2, 8], xs=[{"name": "Pk", "k": 4}]),  # one-off + stepped exclusion
            mk({"name": "R1", "n": 1}, 1, 10, xp=[1]),                      # R1!1: next(0)=1 excluded
            mk({"name": "S/Pk", "S": A(5), "k": 1}, 2, 2),                  # empty: start 5, stop 2
            mk({"name": "R1/S", "n": 1, "S": A(5)}, 1, 10),                 # prev on one-off
            # documented examples
            mk({"name": "Rn/S/Pk", "n": 2, "S": A(3), "k": 3}, 1, 10),
            mk({"name": "Rn/Pk/E", "n": 5, "k": 2, "E": A(10)}, 1, 10),
            mk({"name": "Rn/Pk/E", "n": 7, "k": 1, "E": R(20)}, 1, 10),
            mk({"name": "Rn/Pk", "n": 5, "k": 2}, 1, 10),
            mk({"name": "S/Pk", "S": R(5), "k": 3}, 1, 20),
            mk({"name": "R1//E", "n": 1, "E": R(-2)}, 1, 10),
            mk({"name": "Pk/E", "k": 3, "E": R(-1)}, 1, 10),
            mk({"name": "Pk", "k": 1}, 1, 10, xp=[2, 3, 7]),
            mk({"name": "Pk", "k": 1}, 1, 10, xp=[6, 8], xs=[{"name": "Pk", "k": 2}]),
            mk({"name": "Pk", "k": 1}, 1, 10, xs=[{"name": "S/Pk", "S": R(1), "k": 2}]),
        ]

    def key(self, c, r):
        if c.get("kind") == "malformed" or r.get("init") != "ok":
            return None
        if sum(1 for v in r["valid"] if v is True) < 2 and not (c.get("xp") or c.get("xs")):
            return None
        return r["rec"] + "|%s|%s" % (c["I"], c.get("F"))

    def shrink(self, c):
        if "form" not in c:
            return
        for i in range(len(c.get("xp", []))):
            d = dict(c); d["xp"] = c["xp"][:i] + c["xp"][i + 1:]
            yield d
        for i in range(len(c.get("xs", []))):
            d = dict(c); d["xs"] = c["xs"][:i] + c["xs"][i + 1:]
            yield d
        if len(c["q"]) > 1:
            for i in range(len(c["q"])):
                d = dict(c); d["q"] = [c["q"][i]]
                yield d
        f = c["form"]
        for fld in ("n", "k"):
            if isinstance(f.get(fld), int) and f[fld] > 1:
                d = dict(c); d["form"] = dict(f); d["form"][fld] = f[fld] - 1
                yield d


IntSeqStream.rule = (
    "cases = (named recurrence form, values, initial/final point, exclusion points, exclusion sequences, "
    "query points); the string is rendered, the real constructor and all eight API methods are called for "
    "every query point. quick: 1000 sampled from the exhaustive no-exclusion box (11 forms x values in "
    "{-1,0,2,5,8,+-P0..2} x k<=3 x n<=5 x 6 contexts) + 1200 random small cases with exclusions + 150 random "
    "large + R0/P0 + malformed strings; thorough: the whole box over [-2,9] (8 contexts) + 25000 + 5000. "
    "non-trivial = constructed sequence with >= 2 valid query points or with exclusions")

STREAMS = [IntSeqStream()]
META = {
    "level_text": (
        "Coq theorems over the hand model Model/IntSeq.v of IntegerSequence/IntegerExclusions, for all values and all fuel: "
        "(A) for every state the constructor can return, is_valid is exactly membership in the set of the state "
        "(progression from p_start by i_step within [p_start,p_stop] minus exclusion points and exclusion sequences); "
        "get_first_point, get_next_point (p >= start-step), get_next_point_on_sequence and get_start_point return the "
        "least member on the stated side or None iff none; get_prev_point, get_nearest_prev_point and get_stop_point the "
        "greatest member when the stop point is on the grid and p <= stop+step; explicit fuel bounds; no query raises. "
        "(B) for every recurrence form outside the constructor's defect classes (hypothesis sane_input) the constructor "
        "succeeds and the set of the state equals `denote` = the form's arithmetic progression clipped to [initial, final] "
        "minus exclusions, so all queries agree with `denote`. (C) Rn/START/END with n != 1 is rejected for all values. "
        "The full statements (all forms, all query points, never raising) are kept as Definitions and are REFUTED in Coq on "
        "witnesses of 10 open defect classes (known findings; 2 more were fixed by d9f1b31 and are regression cases). Model tied to integer.py by differential runs of the constructor "
        "and all 8 API methods on every query point (state p_start/p_stop/i_step compared too), plus a brute-force "
        "reference-set oracle on the implementation alone."),
    "level_note": (
        "partial: the property text does not hold of the code; theorems carry the excluding hypotheses (sane_input, query "
        "range, stop on grid) and conclusions are conditional on the call returning (Ok). Trusted: hand model + the driver's "
        "re-run of the regex dispatch loop over the real table (form record), Coq kernel/VM, harness. R0 and P0 are "
        "modelled and compared but carry no specification."),
    "technique": "Coq proof (fuel induction, Z arithmetic) + refutation by vm_compute witnesses + in-Coq differential "
                 "correspondence + brute-force reference oracle",
    "design_ref": "5/C16",
}
