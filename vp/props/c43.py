"""C43 — stop point, stop task, stop modes."""
from vp.sched.stream import SchedStream
from vp.props.c01 import TRUSTED, ASSUMES  # noqa

STREAMS = [SchedStream("C43", name="sched-stop", feat={"stop": True, "abs": True}, n_quick=32, n_thorough=600),
           SchedStream("C43", name="sched-restart", feat={"restart": True, "hold": True, "abs": True},
                       n_quick=24, n_thorough=500)]
META = {
    "level_text": ("Coq theorems over the pool automaton: no submission beyond the stop point unless manual; automatic shutdown only when "
                   "nothing at or before the stop point remains, and the stop point is then forgotten; it survives a restart otherwise and "
                   "the reported stop point / stop task equal the abstract ones at every tick; stop-task shutdown only after that task's "
                   "succeeded output; a clean stop is accepted only with no submitted/running task; what stop --now leaves is restored "
                   "exactly by a restart. Tie: real runs with stop commands of every kind (cycle point, task, clean, now, now-now) at "
                   "generated iterations, and stop+restart scenarios, accepted by the automaton."),
    "level_note": TRUSTED[0] + " Stop by wall-clock time and kill mode are not exercised.",
    "technique": "Coq proof of stop guards of the pool automaton + in-Coq validation of real runs with stop commands and restarts",
    "design_ref": "5/C43",
}
